CONSTANTS
  Design = "intended"
  Mode = "conc"
  MaxN = 1
  Conc = 3
INIT CInit
NEXT CNext
INVARIANTS OwnProgram CEmit
CHECK_DEADLOCK FALSE
