CONSTANTS
  MaxLen = 5
  Alphabet = {"bu","wei","da","yu","deng","L","sp"}
SPECIFICATION Spec
INVARIANTS SpansOK Covers Deterministic Emit
PROPERTY Progress
CHECK_DEADLOCK FALSE
