CONSTANTS
  MaxDev = 1
  Mutate = FALSE
  Globals = "canon"
INIT Init
NEXT Next
INVARIANTS TreeComplete TokensBalanced Emit EmitTree
CHECK_DEADLOCK FALSE
