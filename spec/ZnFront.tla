------------------------------- MODULE ZnFront -------------------------------
(* C05 - compilation and error display terminate cleanly on every input.
   The front end is an automaton with exactly these outcomes for a source text src:
        Compile:  src  ->  Tree(t)  with t complete            (accepted)
                       |   SyntaxError(code, cursor)  with code in 20..27 and 0 <= cursor <= Len(src)
        Render:   SyntaxError -> a report that quotes a physical line of src (indentation stripped)
   There is NO other outcome: a hang, a panic, a nil / half-built tree, an error without code, a cursor
   outside the text or a quoted line that is not in the source are not behaviours of this automaton.
   Source characters are class symbols (one representative character each); the module enumerates all
   short texts over them, and Trace_ZnFront validates recorded outcomes of the real front end. *)
EXTENDS Integers, Sequences, FiniteSets, TLC, Json
CONSTANTS MaxLen, EmitOneIn, Explore      \* Explore = FALSE: only enumerate the texts (vector generation)
Cls == {"a", "W", "d", "sp", "tab", "LF", "CR", "lq", "rq", "lb", "rb", "lp", "rp", "lc", "rc", "bt", "col", "comma", "pause", "q", "eq", "plus", "slash",
        "star", "let", "with", "this", "is", "and", "dot", "zhu", "hash", "ctl", "nul", "bang", "semi"}
RECURSIVE StrUpTo(_)
StrUpTo(n) == IF n = 0 THEN {<<>>} ELSE LET S == StrUpTo(n - 1) IN S \cup {Append(t, c) : t \in {u \in S : Len(u) = n - 1}, c \in Cls}
IsTerm(c) == c \in {"LF", "CR"}
\* physical lines of a text (CRLF and LFCR are one line end), indentation stripped
RECURSIVE LinesOf(_, _)
LinesOf(s, cur) == IF s = <<>> THEN <<cur>>
                   ELSE IF IsTerm(s[1]) THEN
                        (IF Len(s) >= 2 /\ IsTerm(s[2]) /\ s[2] # s[1] THEN <<cur>> \o LinesOf(SubSeq(s, 3, Len(s)), <<>>) ELSE <<cur>> \o LinesOf(Tail(s), <<>>))
                   ELSE LinesOf(Tail(s), Append(cur, s[1]))
RECURSIVE Strip(_)
Strip(l) == IF l # <<>> /\ l[1] \in {"sp", "tab"} THEN Strip(Tail(l)) ELSE l
QuotableLines(s) == {Strip(LinesOf(s, <<>>)[j]) : j \in 1..Len(LinesOf(s, <<>>))}

VARIABLES src, phase, outcome
vars == <<src, phase, outcome>>
Init == (\E n \in 0..MaxLen : src \in [1..n -> Cls]) /\ phase = "input" /\ outcome = [k |-> "none"]
Compile == /\ phase = "input" /\ phase' = "compiled"
           /\ \/ outcome' = [k |-> "tree"]
              \/ \E code \in 20..27, cur \in 0..Len(src) : outcome' = [k |-> "error", code |-> code, cursor |-> cur]
           /\ UNCHANGED src
Render == /\ phase = "compiled" /\ outcome.k = "error" /\ phase' = "rendered"
          /\ \E l \in QuotableLines(src) : outcome' = [outcome EXCEPT !.k = "reported"] @@ [quoted |-> l]
          /\ UNCHANGED src
Next == Explore /\ (Compile \/ Render)
OutcomeOK(o, s) == \/ o.k = "tree"
                   \/ /\ o.k \in {"error", "reported"} /\ o.code \in 20..27 /\ o.cursor >= 0 /\ o.cursor <= Len(s)
                      /\ (o.k = "reported" => o.quoted \in QuotableLines(s))
OnlyTheseOutcomes == phase # "input" => OutcomeOK(outcome, src)
\* vector emission: the texts themselves (the outcome is the implementation's to choose)
EmitSrc == (phase = "input" /\ (EmitOneIn = 1 \/ RandomElement(1..EmitOneIn) = 1)) => PrintT(ToJson([k |-> "src", s |-> src]))
=============================================================================
