---------------------------- MODULE ZnModuleFault ----------------------------
(* C15 / C18 at the module level: a fault raised by a top-level statement of an IMPORTED module while it is being loaded.
   The load machine of ZnModule runs until the body of module `bad` is about to run; that body faults.  The error report
   must describe the LOAD STACK at that moment: innermost the faulting module, then every module that is waiting for one
   of its import statements to finish, each with the position of that statement, outermost the main file.
   Bodies of modules loaded before ran once and in order (trace); nothing of `bad` or of its importers ran. *)
EXTENDS ZnModule
VARIABLES bad, report
fvars == <<edges, mainImp, stack, loaded, trace, res, bad, report>>
FInit == Init /\ bad \in Mods /\ report = <<>>
AboutToRunBad == res = "run" /\ Top.m = bad /\ Top.next = Len(ImpsOf(Top.m)) + 1
BodyFaults == /\ AboutToRunBad
              /\ res' = "fault"
              \* frame j waits in its import statement number next-1 (the last frame is the faulting body itself: 0)
              /\ report' = [j \in 1..Len(stack) |-> [m |-> stack[j].m, at |-> IF j = Len(stack) THEN 0 ELSE stack[j].next - 1]]
              /\ UNCHANGED <<edges, mainImp, stack, loaded, trace, bad>>
FNext == IF AboutToRunBad THEN BodyFaults ELSE (Next /\ UNCHANGED <<bad, report>>)
\* the report is the chain of modules being loaded, the faulting one last, none of them loaded, none of their bodies run
ReportIsLoadStack == res = "fault" =>
   /\ report[Len(report)].m = bad /\ report[1].m = "main"
   /\ \A j \in 1..Len(report) : report[j].m \notin loaded /\ \A q \in 1..Len(trace) : trace[q] # report[j].m
   /\ \A j \in 1..Len(report) - 1 : ImpsOf(report[j].m)[report[j].at] = report[j + 1].m
FEmit == (res # "run") => PrintT(ToJson([k |-> "modfault", edges |-> edges, main |-> mainImp, bad |-> bad, res |-> res, trace |-> trace, report |-> report]))
=============================================================================
