----------------------------- MODULE Trace_ZnText -----------------------------
(* C14 - a text VARIABLE observed repeatedly while text methods are called on it.
   A text value is one character sequence; every observer is a function of that sequence (ZnText):
   长度 = 字数 = Len, 字符组 = 分隔 by the empty text = the singletons, 取样(1, 长度) = the whole text, and the
   text itself is the concatenation of its characters.  Whatever methods were called before, the observers
   of one observation must therefore describe ONE sequence.  The recorder (harness mode "texthist") logs, for
   every observation of a run: the numbers each observer reported and whether the texts they returned are
   the concatenation of the reported character array.  This spec accepts a log iff every observation is
   explained by some sequence - i.e. iff there is n with all the counts = n and all the texts equal.
   (The character contents are non-ASCII and stay in the harness; TLC sees the counts and the comparisons.) *)
EXTENDS Integers, Sequences, Json, TLC
Tr == ndJsonDeserialize("trace.ndjson")
VARIABLES l, n           \* position; the length of the sequence that explains the current observation
Init == l = 1 /\ n = 0
Explains(e, k) == /\ e.len = k /\ e.count = k /\ e.nchars = k /\ e.nsplit = k
                  /\ (e.nslice >= 0 => e.nslice = k)          \* -1: 取样 reported an error (empty text)
                  /\ e.text_is_chars /\ e.split_is_chars /\ (e.nslice >= 0 => e.slice_is_chars)
Next == /\ l <= Len(Tr)
        /\ \E k \in 0..64 : Explains(Tr[l], k) /\ n' = k
        /\ l' = l + 1
Spec == Init /\ [][Next]_<<l, n>>
TraceAccepted == TLCGet("stats").diameter - 1 = Len(Tr)
=============================================================================
