------------------------------- MODULE Trace_ZnVM -------------------------------
(* Trace validation: operation logs recorded from the REAL runtime.VM / runtime.Scope
   (harness mode `scopehist`: seeded random histories, several per file separated by "reset")
   must be behaviours of ZnVM: each logged operation is the spec action with the same arguments,
   its reply must be the spec's reply, and the logged scalar state (scope depth, number of live
   symbols) must equal the spec's after every step. *)
EXTENDS ZnVM, Json, TLCExt
Tr == ndJsonDeserialize("trace.ndjson")
VARIABLE l
tvars == <<env, rep, l>>
TraceInit == ZInit /\ l = 1
RepOK(e) == /\ rep'.k = e.r
            /\ (e.r = "val") => rep'.v = e.rv
StateOK(e) == Len(env') - 1 = e.depth /\ (LET RECURSIVE S(_) S(d) == IF d = 0 THEN 0 ELSE Len(env'[d]) + S(d - 1) IN S(Len(env'))) = e.live
TraceNext ==
  /\ l <= Len(Tr)
  /\ l' = l + 1
  /\ LET e == Tr[l] IN
     \/ (e.o = "reset" /\ env' = << <<>> >> /\ rep' = [k |-> "init"])
     \/ (e.o = "begin" /\ Begin /\ RepOK(e) /\ StateOK(e))
     \/ (e.o = "end" /\ End /\ RepOK(e) /\ StateOK(e))
     \/ (e.o = "decl" /\ Decl(e.n, e.c, e.v) /\ RepOK(e) /\ StateOK(e))
     \/ (e.o = "set" /\ Set(e.n, e.v) /\ RepOK(e) /\ StateOK(e))
     \/ (e.o = "get" /\ Get(e.n) /\ RepOK(e) /\ StateOK(e))
TraceSpec == TraceInit /\ [][TraceNext]_tvars
Props == [][(l <= Len(Tr) /\ Tr[l].o # "reset") => (ConstNeverChanges /\ EndRestores /\ FailedIsNoOp)]_tvars
\* the whole log was consumed (every line explained by the specification)
TraceAccepted == TLCGet("stats").diameter - 1 = Len(Tr)
\* on rejection: how far the log could be explained
Progress == TLCSet(1, IF TLCGet(1) < l THEN l ELSE TLCGet(1))
ASSUME TLCSet(1, 0)
=============================================================================
