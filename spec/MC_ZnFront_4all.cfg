CONSTANTS
  MaxLen = 4
  EmitOneIn = 1
  Explore = FALSE
INIT Init
NEXT Next
INVARIANTS OnlyTheseOutcomes EmitSrc
CHECK_DEADLOCK FALSE
