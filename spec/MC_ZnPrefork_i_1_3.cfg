CONSTANTS
  InitProcs = 1
  MaxProcs = 3
  Batch = 10
  NReq = 3
  NFault = 1
  MaxPid = 6
  Design = "intended"
SPECIFICATION Spec
INVARIANTS TypeOK Bound Bookkeeping RefCountBounded LiveAccounted
PROPERTY TimeoutIsolated
CHECK_DEADLOCK FALSE
