------------------------------- MODULE ZnIdRange -------------------------------
(* C04 (identifier alphabet) - membership of a character in the identifier alphabet is the same for
   every code point however it is looked up.
   Specification of membership:  cp is an identifier character  iff  some row [lo, hi] of the interval
   table (extracted from the source text of id_range.go by the driver) contains it.
   The implementation answers by binary search; the harness asks it for ALL 0x110000 code points and
   run-length encodes the answers.  The runs must equal the NORMAL FORM of the table (rows sorted,
   overlapping / adjacent rows merged): two interval sequences in normal form denote the same set iff
   they are equal. *)
EXTENDS Integers, Sequences, SequencesExt, TLC, Json
Table == ndJsonDeserialize("idtable.ndjson")      \* rows [lo, hi] in source order
Runs == ndJsonDeserialize("idruns.ndjson")        \* runs [lo, hi] of code points for which IdInRange is true
VARIABLE phase
Init == phase = 0
Next == phase = 0 /\ phase' = 1
Max2(a, b) == IF a > b THEN a ELSE b
Sorted == SortSeq(Table, LAMBDA a, b : a.lo < b.lo)
RECURSIVE Merge(_, _)
Merge(acc, rest) == IF rest = <<>> THEN acc
                    ELSE LET x == rest[1] IN
                         IF acc # <<>> /\ x.lo <= acc[Len(acc)].hi + 1
                         THEN Merge([acc EXCEPT ![Len(acc)].hi = Max2(@, x.hi)], Tail(rest))
                         ELSE Merge(Append(acc, x), Tail(rest))
Norm == Merge(<<>>, Sorted)
RowsWellFormed == \A j \in 1..Len(Table) : Table[j].lo <= Table[j].hi /\ Table[j].lo >= 0
SameSet == Norm = Runs
\* the binary search is only correct on a sorted table of disjoint rows: stated separately so that a
\* disagreement can be attributed
(* The LEXER's view: for every code point c the harness tokenises "a" c "a" and records whether the first token is a name that
   covers c.  That set must be: the table, plus the four characters that may continue a name ( . * / % - ZnLex!IdCont), minus
   the eight keywords of ONE character (the entries of length 1 of ZnLex!KW: 令 为 以 其 或 且 之 的), which end a name.
   Whatever lookup structure the lexer uses for it (binary search, a cache, a bitmap), it is the same set. *)
LexRuns == ndJsonDeserialize("idlexruns.ndjson")
Cont == {46, 42, 47, 37}
OneGlyphKw == {20196, 20026, 20197, 20854, 25110, 19988, 20043, 30340}
InRuns(R, c) == \E j \in 1..Len(R) : R[j].lo <= c /\ c <= R[j].hi
AddPoint(R, c) == IF InRuns(R, c) THEN R ELSE Merge(<<>>, SortSeq(Append(R, [lo |-> c, hi |-> c]), LAMBDA a, b : a.lo < b.lo))
RECURSIVE RemovePoint(_, _)
RemovePoint(R, c) == IF R = <<>> THEN <<>>
                     ELSE LET r == R[1] IN
                          IF c < r.lo \/ c > r.hi THEN <<r>> \o RemovePoint(Tail(R), c)
                          ELSE (IF r.lo <= c - 1 THEN << [lo |-> r.lo, hi |-> c - 1] >> ELSE <<>>)
                               \o (IF c + 1 <= r.hi THEN << [lo |-> c + 1, hi |-> r.hi] >> ELSE <<>>) \o Tail(R)
RECURSIVE FoldPts(_, _, _)
FoldPts(Op(_, _), R, S) == IF S = {} THEN R ELSE LET c == CHOOSE x \in S : TRUE IN FoldPts(Op, Op(R, c), S \ {c})
LexExpected == FoldPts(RemovePoint, FoldPts(AddPoint, Norm, Cont), OneGlyphKw)
LexAgrees == LexExpected = LexRuns
TableSortedDisjoint == \A j \in 1..Len(Table) - 1 : Table[j].hi < Table[j + 1].lo
=============================================================================
