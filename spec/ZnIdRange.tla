------------------------------- MODULE ZnIdRange -------------------------------
(* C04 (identifier alphabet) - membership of a character in the identifier alphabet is the same for
   every code point however it is looked up.
   Specification of membership:  cp is an identifier character  iff  some row [lo, hi] of the interval
   table (extracted from the source text of id_range.go by the driver) contains it.
   The implementation answers by binary search; the harness asks it for ALL 0x110000 code points and
   run-length encodes the answers.  The runs must equal the NORMAL FORM of the table (rows sorted,
   overlapping / adjacent rows merged): two interval sequences in normal form denote the same set iff
   they are equal. *)
EXTENDS Integers, Sequences, SequencesExt, TLC, Json
Table == ndJsonDeserialize("idtable.ndjson")      \* rows [lo, hi] in source order
Runs == ndJsonDeserialize("idruns.ndjson")        \* runs [lo, hi] of code points for which IdInRange is true
VARIABLE phase
Init == phase = 0
Next == phase = 0 /\ phase' = 1
Max2(a, b) == IF a > b THEN a ELSE b
Sorted == SortSeq(Table, LAMBDA a, b : a.lo < b.lo)
RECURSIVE Merge(_, _)
Merge(acc, rest) == IF rest = <<>> THEN acc
                    ELSE LET x == rest[1] IN
                         IF acc # <<>> /\ x.lo <= acc[Len(acc)].hi + 1
                         THEN Merge([acc EXCEPT ![Len(acc)].hi = Max2(@, x.hi)], Tail(rest))
                         ELSE Merge(Append(acc, x), Tail(rest))
Norm == Merge(<<>>, Sorted)
RowsWellFormed == \A j \in 1..Len(Table) : Table[j].lo <= Table[j].hi /\ Table[j].lo >= 0
SameSet == Norm = Runs
\* the binary search is only correct on a sorted table of disjoint rows: stated separately so that a
\* disagreement can be attributed
TableSortedDisjoint == \A j \in 1..Len(Table) - 1 : Table[j].hi < Table[j + 1].lo
=============================================================================
