CONSTANTS
  Mods = {"a", "b", "c"}
  Missing = {}
  MainOrders = {}
  NRandom = 0
SPECIFICATION TraceSpec
CONSTRAINT Mark
INVARIANTS BodyAtMostOnce ImportsBeforeBody CycleIffError NoErrorLoadsAllReachable
POSTCONDITION TraceAccepted
CHECK_DEADLOCK FALSE
