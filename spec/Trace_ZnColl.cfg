CONSTANTS
  Vals = {1, 2, 3, 4, 5, 6, 7, 8, 9}
  Keys = {"a", "b", "c", "d", "e", "f", "g", "h"}
  MaxIdx = 100
SPECIFICATION TraceSpec
INVARIANTS Laws
PROPERTY Props
POSTCONDITION TraceAccepted
CHECK_DEADLOCK FALSE
