CONSTANTS
  Family = "R"
  NRandom = 6000
INIT Init
NEXT Next
INVARIANTS RoundTrip OrderKept Emit
CHECK_DEADLOCK FALSE
