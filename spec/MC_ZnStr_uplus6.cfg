CONSTANTS
  MaxLen = 6
  Alphabet = {"0", "1", "8", "D", "F"}
  Mode = "uplus"
  Openers = {"ql2"}
SPECIFICATION Spec
INVARIANTS RoundTrip DepthPositive Emit
PROPERTY Progress
CHECK_DEADLOCK FALSE
