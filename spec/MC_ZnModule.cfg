CONSTANTS
  Mods = {"a", "b", "c"}
  Missing = {}
INIT Init
NEXT Next
INVARIANTS BodyAtMostOnce ImportsBeforeBody CycleIffError NoErrorLoadsAllReachable Emit
CHECK_DEADLOCK FALSE
