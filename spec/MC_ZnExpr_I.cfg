CONSTANTS
  Family = "A"
  NRandom = 1
  RDepth = 4
INIT InitI
NEXT Next
INVARIANTS AgreesWithReference LoweringAgrees
CHECK_DEADLOCK FALSE
