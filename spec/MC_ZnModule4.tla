---------------------------- MODULE MC_ZnModule4 ----------------------------
(* C15 on FOUR imported modules: all 65536 digraphs (thorough) or NRandom random ones (quick) x four import lists *)
EXTENDS ZnModule
Orders4 == { <<"a">>, <<"b", "e">>, <<"a", "b", "c", "e">>, <<"e", "c", "b", "a">> }
=============================================================================
