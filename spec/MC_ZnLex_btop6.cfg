CONSTANTS
  MaxLen = 6
  Alphabet = {"L","bt","/","*","sp","wei"}
SPECIFICATION Spec
INVARIANTS SpansOK Covers Deterministic Emit
PROPERTY Progress
CHECK_DEADLOCK FALSE
