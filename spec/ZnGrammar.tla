------------------------------- MODULE ZnGrammar -------------------------------
(* C03 - parsing builds the tree the grammar prescribes, for any layout.   (also feeds C05)

   A program is a record tree (the same data as in ZnEval, plus imports and getters).  This module
   defines, from the documented grammar,
     Tree(prog)     the syntax tree the grammar prescribes          (nested nodes [n, a, c])
     Tokens(prog)   the canonical token sequence of the program     (with structural NL(indent) tokens)
     Options(tok)   the renderings the manual allows for one token: synonymous spellings (= / 设为,
                    之 / 的, == / 等于 ..., Chinese or ASCII punctuation), an extra blank, a comment,
                    a comma before 且 / 或 / 得到, a line break after 【 ， 、 { ： ？ and before 】 }
   and a LAYOUT MACHINE that walks the token sequence and picks one option per token (at most MaxDev
   deviations from the canonical option; global choices: indentation unit, line terminator).
   The tree does not depend on the layout choices: every rendering of a program must parse to Tree(prog).
   WellFormed(tree): every construct has all the parts the grammar requires. *)
EXTENDS Integers, Sequences, FiniteSets, TLC, Json

CONSTANTS MaxDev, Globals, Mutate, MinBrace      \* Mutate = TRUE: token-level corruptions (delete / duplicate / swap with neighbour) count as deviations (C05)
\*       \* Globals: "canon" (4 blanks, LF) | "all" (TAB / 4 blanks x LF / CRLF / CR)

(* ------------------------------------------------------------------ the prescribed tree *)
Node(n, a, c) == [n |-> n, a |-> a, c |-> c]
TID(s) == Node("ID", s, <<>>)
ArithOps == {"add", "sub", "mul", "div", "idiv", "mod"}
RECURSIVE TE(_), TEs(_), ChainCalls(_), ChainRoot(_)
TEs(es) == [j \in 1..Len(es) |-> TE(es[j])]
CallNode(m, args) == Node("Call", "", <<TID(m), Node("Args", "", TEs(args))>>)
\* 以X（a）、（b）: a method call whose receiver is a method call written in chain form
ChainCalls(e) == IF e.k = "mcall" /\ e.chain /\ e.e.k = "mcall" THEN Append(ChainCalls(e.e), CallNode(e.m, e.args))
                 ELSE <<CallNode(e.m, e.args)>>
ChainRoot(e) == IF e.k = "mcall" /\ e.chain /\ e.e.k = "mcall" THEN ChainRoot(e.e) ELSE e.e
RECURSIVE DictKids(_, _)
DictKids(ks, vs) == IF ks = <<>> THEN <<>> ELSE <<Node("Str", ks[1], <<>>), TE(vs[1])>> \o DictKids(Tail(ks), Tail(vs))
TE(e) ==
  CASE e.k = "num" -> TID(ToString(e.v))
    [] e.k = "str" -> Node("Str", e.v, <<>>)
    [] e.k = "bool" -> TID(IF e.v THEN "@true" ELSE "@false")
    [] e.k = "null" -> TID("@null")
    [] e.k = "var" -> TID(e.n)
    [] e.k = "bin" -> Node(IF e.op \in ArithOps THEN "Arith" ELSE "Logic", e.op, <<TE(e.l), TE(e.r)>>)
    [] e.k = "list" -> Node("List", "", TEs(e.items))
    [] e.k = "dict" -> Node("Dict", "", DictKids(e.keys, e.vals))
    [] e.k = "idx" -> Node("Member", "index", <<TE(e.e), TE(e.i)>>)
    [] e.k = "mem" -> Node("Member", "id", <<TE(e.e), TID(e.p)>>)
    [] e.k = "this" -> Node("Member", "prop", <<TID(e.p)>>)
    [] e.k = "call" -> Node("Call", "", <<TID(e.f), Node("Args", "", TEs(e.args))>> \o (IF e.y = "" THEN <<>> ELSE <<TID(e.y)>>))
    [] e.k = "mcall" -> Node("MCall", "", <<TE(ChainRoot(e)), Node("Chain", "", ChainCalls(e))>>)
    [] e.k = "new" -> Node("New", "", <<TID(e.cls)>> \o TEs(e.args))
    [] e.k = "asg" -> Node("Assign", "", <<TE(e.tgt), TE(e.e)>>)
RECURSIVE TS(_), TBlock(_), TExec(_, _, _)
TBlock(ss) == Node("Block", "", [j \in 1..Len(ss) |-> TS(ss[j])])
TNames(ns) == Node("Names", "", [j \in 1..Len(ns) |-> TID(ns[j])])
TCatches(cs) == Node("Catches", "", [j \in 1..Len(cs) |-> Node("Catch", "", <<TID(cs[j].cls), TBlock(cs[j].body)>>)])
TExec(params, stmtNodes, cs) == Node("Exec", "", <<Node("Inputs", "", [j \in 1..Len(params) |-> TID(params[j])]), Node("Block", "", stmtNodes), TCatches(cs)>>)
TFunc(kind, f) == Node(kind, "", <<TID(f.name), TExec(f.params, [j \in 1..Len(f.body) |-> TS(f.body[j])], f.catches)>>)
RECURSIVE Elifs(_, _, _)
Elifs(conds, blocks, j) == IF j > Len(conds) THEN <<>> ELSE <<TE(conds[j]), TBlock(blocks[j])>> \o Elifs(conds, blocks, j + 1)
TS(s) ==
  CASE s.k = "decl" -> Node("Decl", "", <<Node("Pair", IF s.const THEN "const" ELSE "assign", <<TNames(s.names), TE(s.e)>>)>>)
    [] s.k = "expr" -> TE(s.e)
    [] s.k = "if" -> Node("If", "", <<TE(s.conds[1]), TBlock(s.blocks[1]), Node("Elifs", "", Elifs(s.conds, s.blocks, 2))>>
                                      \o (IF s.els = <<>> THEN <<>> ELSE <<Node("Else", "", <<TBlock(s.els[1])>>)>>))
    [] s.k = "while" -> Node("While", "", <<TE(s.c), TBlock(s.body)>>)
    [] s.k = "iter" -> Node("Iter", "", <<TNames(s.names), TE(s.e), TBlock(s.body)>>)
    [] s.k = "break" -> Node("Break", "", <<>>)
    [] s.k = "cont" -> Node("Continue", "", <<>>)
    [] s.k = "ret" -> Node("Return", "", <<TE(s.e)>>)
    [] s.k = "throw" -> Node("Throw", "", <<TID(s.cls)>> \o TEs(s.args))
TClass(c) == Node("Class", "", <<TID(c.name),
                                 Node("Props", "", [j \in 1..Len(c.props) |-> Node("Prop", "", <<TID(c.props[j].n), TE(c.props[j].e)>>)]),
                                 Node("Methods", "", [j \in 1..Len(c.methods) |-> TFunc("Func", c.methods[j])]),
                                 Node("Getters", "", [j \in 1..Len(c.getters) |-> TFunc("Getter", c.getters[j])])>>)
RECURSIVE Flat(_)
Flat(ss) == IF ss = <<>> THEN <<>> ELSE ss[1] \o Flat(Tail(ss))
\* source order: for every class its definition, then its constructor; then the methods; then the main statements
TopNodes(p) == Flat([j \in 1..Len(p.classes) |-> <<TClass(p.classes[j])>> \o [q \in 1..Len(p.classes[j].ctor) |-> TFunc("Ctor", p.classes[j].ctor[q])]])
               \o [j \in 1..Len(p.funcs) |-> TFunc("Func", p.funcs[j])]
               \o [j \in 1..Len(p.main) |-> TS(p.main[j])]
TImport(i) == Node("Import", (IF i.lib THEN "lib:" ELSE "mod:") \o i.name, [j \in 1..Len(i.items) |-> TID(i.items[j])])
HasExec(p) == p.inputs # <<>> \/ TopNodes(p) # <<>> \/ p.catches # <<>>
Tree(p) == Node("Program", "", [j \in 1..Len(p.imports) |-> TImport(p.imports[j])]
                               \o (IF HasExec(p) THEN <<TExec(p.inputs, TopNodes(p), p.catches)>> ELSE <<>>))

(* ------------------------------------------------------------------ completeness of a tree *)
RECURSIVE WellFormed(_)
Arity(t) == Len(t.c)
WellFormed(t) ==
  /\ t.n # "NIL"
  /\ \A j \in 1..Len(t.c) : WellFormed(t.c[j])
  /\ CASE t.n \in {"Arith", "Logic", "Assign"} -> Arity(t) = 2
       [] t.n = "If" -> Arity(t) \in {3, 4} /\ t.c[2].n = "Block" /\ Arity(t.c[2]) >= 1 /\ (Arity(t.c[3]) % 2 = 0)
       [] t.n \in {"While"} -> Arity(t) = 2 /\ t.c[2].n = "Block" /\ Arity(t.c[2]) >= 1
       [] t.n = "Iter" -> Arity(t) = 3 /\ Arity(t.c[3]) >= 1
       [] t.n \in {"Func", "Getter", "Ctor"} -> Arity(t) = 2 /\ t.c[1].n = "ID" /\ t.c[2].n = "Exec"
                                                /\ Arity(t.c[2]) = 3 /\ Arity(t.c[2].c[2]) + Arity(t.c[2].c[3]) >= 1      \* a definition has a body
       [] t.n = "Exec" -> Arity(t) = 3 /\ (Arity(t.c[1]) >= 1 => Arity(t.c[2]) + Arity(t.c[3]) >= 1)   \* inputs are followed by statements
       [] t.n = "Catch" -> Arity(t) = 2 /\ Arity(t.c[2]) >= 1
       [] t.n = "Pair" -> Arity(t) = 2 /\ Arity(t.c[1]) >= 1
       [] t.n = "Return" -> Arity(t) = 1
       [] t.n = "Member" -> (t.a = "prop" /\ Arity(t) = 1) \/ (t.a \in {"id", "index"} /\ Arity(t) = 2)
       [] t.n = "Call" -> Arity(t) \in {2, 3}
       [] t.n = "MCall" -> Arity(t) \in {2, 3} /\ Arity(t.c[2]) >= 1
       [] t.n = "Class" -> Arity(t) = 4
       [] t.n = "Prop" -> Arity(t) = 2
       [] t.n = "Dict" -> Arity(t) % 2 = 0
       [] OTHER -> TRUE

(* ------------------------------------------------------------------ the canonical token sequence *)
T(t, v) == [t |-> t, v |-> v]
Kw(v) == T("kw", v)
NL(d) == T("nl", ToString(d))
OpTok(op) == T("op", op)
RECURSIVE KE(_), KEs(_, _), KDict(_, _), KChain(_)
\* the documented precedence: * / | %  >  + -  >  comparisons (not associative)  >  且  >  或 ; equal precedence groups left to right.
\* With MinBrace a compound operand is written WITHOUT braces wherever that table makes them unnecessary (Tree(prog) is unchanged).
Prec(op) == CASE op \in {"mul", "div", "idiv", "mod"} -> 5 [] op \in {"add", "sub"} -> 4 [] op = "and" -> 2 [] op = "or" -> 1 [] OTHER -> 3
NeedBrace(parent, child, side) == \/ Prec(child.op) < Prec(parent.op)
                                  \/ (Prec(child.op) = Prec(parent.op) /\ (side = "r" \/ Prec(parent.op) = 3))
Operand(e) == IF e.k \in {"bin", "asg", "mcall"} THEN <<T("lc", "")>> \o KE(e) \o <<T("rc", "")>> ELSE KE(e)
OperandP(parent, child, side) == IF MinBrace /\ child.k = "bin" /\ ~NeedBrace(parent, child, side) THEN KE(child) ELSE Operand(child)
ArgTok(e) == IF e.k = "mcall" THEN <<T("lc", "")>> \o KE(e) \o <<T("rc", "")>> ELSE KE(e)
\* expressions separated by sep
KEs(es, sep) == IF es = <<>> THEN <<>> ELSE IF Len(es) = 1 THEN ArgTok(es[1]) ELSE ArgTok(es[1]) \o <<T(sep, "")>> \o KEs(Tail(es), sep)
KDict(ks, vs) == IF ks = <<>> THEN <<>>
                 ELSE <<T("str", ks[1]), T("mapeq", "")>> \o KE(vs[1]) \o (IF Len(ks) = 1 THEN <<>> ELSE <<T("comma", "")>> \o KDict(Tail(ks), Tail(vs)))
CallToks(name, args) == <<T("lp", ""), T("id", name)>> \o (IF args = <<>> THEN <<>> ELSE <<T("col", "")>> \o KEs(args, "pause")) \o <<T("rp", "")>>
KChain(e) == IF e.k = "mcall" /\ e.chain /\ e.e.k = "mcall" THEN KChain(e.e) \o <<T("pause", "")>> \o CallToks(e.m, e.args)
             ELSE CallToks(e.m, e.args)
KE(e) ==
  CASE e.k = "num" -> <<T("num", ToString(e.v))>>
    [] e.k = "str" -> <<T("str", e.v)>>
    [] e.k = "bool" -> <<T("id", IF e.v THEN "@true" ELSE "@false")>>
    [] e.k = "null" -> <<T("id", "@null")>>
    [] e.k = "var" -> <<T("id", e.n)>>
    [] e.k = "bin" -> OperandP(e, e.l, "l") \o <<OpTok(e.op)>> \o OperandP(e, e.r, "r")
    [] e.k = "list" -> <<T("lb", "")>> \o KEs(e.items, "comma") \o <<T("rb", "")>>
    [] e.k = "dict" -> <<T("lb", "")>> \o (IF e.keys = <<>> THEN <<T("mapeq", "")>> ELSE KDict(e.keys, e.vals)) \o <<T("rb", "")>>
    [] e.k = "idx" -> Operand(e.e) \o <<T("hash", "")>> \o (IF e.i.k \in {"num", "str"} THEN KE(e.i) ELSE <<T("lc", "")>> \o KE(e.i) \o <<T("rc", "")>>)
    [] e.k = "mem" -> Operand(e.e) \o <<T("dot", ""), T("id", e.p)>>
    [] e.k = "this" -> <<Kw("THIS"), T("id", e.p)>>
    [] e.k = "call" -> CallToks(e.f, e.args) \o (IF e.y = "" THEN <<>> ELSE <<Kw("GET"), T("id", e.y)>>)
    [] e.k = "mcall" -> <<Kw("WITH")>> \o Operand(ChainRoot(e)) \o KChain(e)
    [] e.k = "new" -> <<T("lp", ""), Kw("NEWKW"), T("id", e.cls)>> \o (IF e.args = <<>> THEN <<>> ELSE <<T("col", "")>> \o KEs(e.args, "pause")) \o <<T("rp", "")>>
    [] e.k = "asg" -> KE(e.tgt) \o <<T("asg", "")>> \o KE(e.e)
RECURSIVE KNames(_)
KNames(ns) == IF Len(ns) = 1 THEN <<T("id", ns[1])>> ELSE <<T("id", ns[1]), T("pause", "")>> \o KNames(Tail(ns))
RECURSIVE KS(_, _), KBlock(_, _), KArms(_, _, _)
KBlock(ss, d) == IF ss = <<>> THEN <<>> ELSE <<NL(d)>> \o KS(ss[1], d) \o KBlock(Tail(ss), d)
KArms(s, d, a) == IF a > Len(s.conds) THEN (IF s.els = <<>> THEN <<>> ELSE <<NL(d), Kw("ELSE"), T("col", "")>> \o KBlock(s.els[1], d + 1))
                  ELSE (IF a = 1 THEN <<Kw("IF")>> ELSE <<NL(d), Kw("ELIF")>>) \o KE(s.conds[a]) \o <<T("col", "")>> \o KBlock(s.blocks[a], d + 1) \o KArms(s, d, a + 1)
KS(s, d) ==
  CASE s.k = "decl" -> <<Kw("LET")>> \o KNames(s.names) \o <<IF s.const THEN Kw("CONSTKW") ELSE T("asg", "")>> \o KE(s.e)
    [] s.k = "expr" -> KE(s.e)
    [] s.k = "if" -> KArms(s, d, 1)
    [] s.k = "while" -> <<Kw("WHILE")>> \o KE(s.c) \o <<T("col", "")>> \o KBlock(s.body, d + 1)
    [] s.k = "iter" -> (IF s.names = <<>> THEN <<>> ELSE <<Kw("WITH")>> \o KNames(s.names)) \o <<Kw("ITER")>> \o KE(s.e) \o <<T("col", "")>> \o KBlock(s.body, d + 1)
    [] s.k = "break" -> <<Kw("BREAK")>>
    [] s.k = "cont" -> <<Kw("CONT")>>
    [] s.k = "ret" -> <<Kw("RET")>> \o KE(s.e)
    [] s.k = "throw" -> <<Kw("THROW"), T("id", s.cls), T("col", "")>> \o KEs(s.args, "pause") \o <<T("bang", "")>>
RECURSIVE KCatches(_, _)
KCatches(cs, d) == IF cs = <<>> THEN <<>> ELSE <<NL(d), Kw("CATCH"), T("id", cs[1].cls), T("col", "")>> \o KBlock(cs[1].body, d + 1) \o KCatches(Tail(cs), d)
KBody(params, body, cs, d) == (IF params = <<>> THEN <<>> ELSE <<NL(d), Kw("INPUT")>> \o KNames(params)) \o KBlock(body, d) \o KCatches(cs, d)
KFunc(head, f, d) == <<NL(d)>> \o head \o <<T("id", f.name), T("q", "")>> \o KBody(f.params, f.body, f.catches, d + 1)
RECURSIVE KProps(_, _), KFuncs(_, _, _)
KProps(ps, d) == IF ps = <<>> THEN <<>> ELSE <<NL(d), Kw("THIS"), T("id", ps[1].n), T("asg", "")>> \o KE(ps[1].e) \o KProps(Tail(ps), d)
KFuncs(head, fs, d) == IF fs = <<>> THEN <<>> ELSE KFunc(head, fs[1], d) \o KFuncs(head, Tail(fs), d)
KClass(c) == <<NL(0), Kw("DEF"), T("id", c.name), T("col", "")>> \o KProps(c.props, 1) \o KFuncs(<<Kw("HOW")>>, c.methods, 1) \o KFuncs(<<Kw("GETTER")>>, c.getters, 1)
             \o KFuncs(<<Kw("HOW"), Kw("NEWKW")>>, c.ctor, 0)
RECURSIVE KClasses(_), KImports(_)
KClasses(cs) == IF cs = <<>> THEN <<>> ELSE KClass(cs[1]) \o KClasses(Tail(cs))
KImports(is) == IF is = <<>> THEN <<>>
                ELSE <<NL(0), Kw("IMPORT"), T(IF is[1].lib THEN "libstr" ELSE "str", is[1].name)>>
                     \o (IF is[1].items = <<>> THEN <<>> ELSE <<T("dot", "")>> \o KNames(is[1].items)) \o KImports(Tail(is))
Tokens(p) == KImports(p.imports) \o (IF p.inputs = <<>> THEN <<>> ELSE <<NL(0), Kw("INPUT")>> \o KNames(p.inputs))
             \o KClasses(p.classes) \o KFuncs(<<Kw("HOW")>>, p.funcs, 0) \o KBlock(p.main, 0) \o KCatches(p.catches, 0)

(* ------------------------------------------------------------------ layout options of one token *)
\* a rendering is a sequence of piece symbols; the first option is the canonical one
Piece(tok) == CASE tok.t \in {"id", "num", "str", "libstr"} -> tok.t \o ":" \o tok.v
                [] tok.t = "kw" -> "kw:" \o tok.v
                [] tok.t = "op" -> "op:" \o tok.v
                [] tok.t = "nl" -> "nl:" \o tok.v
                [] OTHER -> tok.t
Syn(tok) == CASE tok.t = "asg" -> {"asg2"}
              [] tok.t = "dot" -> {"dot2"}
              \* comparison marks and keywords end the names around them: they may also be written with no blank at all ("opt", "op2t")
              [] tok.t = "op" /\ tok.v \in {"eq", "neq", "gt", "lt", "ge", "le"} -> {"op2:" \o tok.v, "opt:" \o tok.v, "op2t:" \o tok.v}
              [] tok.t = "op" /\ tok.v \in {"xeq", "xneq", "and", "or"} -> {"opt:" \o tok.v}
              [] tok.t \in {"lp", "rp", "col", "comma", "lb", "rb", "q", "bang"} -> {tok.t \o "2"}         \* ASCII punctuation
              [] OTHER -> {}
\* prev = the token before (or a dummy): what may be inserted BEFORE this token
Options(tok, prev, inList, inHeader) ==
  LET base == Piece(tok)
      canon == << <<base>> >>
      blank == IF tok.t # "nl" /\ prev.t # "nl" /\ prev.t # "none" THEN {<<"sp", base>>, <<"cmt", base>>} ELSE {}
      eolc == IF tok.t = "nl" /\ prev.t \notin {"none", "nl"} THEN {<<"eolc1", base>>, <<"eolc2", base>>, <<"blankline", base>>,
                                                                      \* block comments spanning lines, their closing mark at the start of a line
                                                                      <<"eolc3", base>>, <<"eolc4", base>>, <<"eolc5", base>>} ELSE {}
      comma == IF (tok.t = "kw" /\ tok.v \in {"AND", "OR", "GET"}) \/ (tok.t = "op" /\ tok.v \in {"and", "or"}) THEN {<<"comma", base>>} ELSE {}
      \* line breaks inside brackets - not in the header line of a block (如果 … ：), where the manual shows none
      brkAfter == IF ~inHeader /\ tok.t # "nl" /\ (prev.t \in {"lb", "lc"} \/ (prev.t \in {"comma", "pause"} /\ inList)) THEN {<<"brk", base>>} ELSE {}
      brkBefore == IF ~inHeader /\ tok.t \in {"rb", "rc"} /\ prev.t \notin {"lb", "lc"} THEN {<<"brk0", base>>} ELSE {}
  IN {<<base>>} \cup {<<s>> : s \in Syn(tok)} \cup blank \cup eolc \cup comma \cup brkAfter \cup brkBefore

(* ------------------------------------------------------------------ the layout machine *)
VARIABLES prog, toks, i, out, dev, unit, eol, depthB, hdr
vars == <<prog, toks, i, out, dev, unit, eol, depthB, hdr>>
InitWith(P) == /\ prog \in P /\ toks = Tokens(prog) /\ i = 1 /\ out = <<>> /\ dev = 0 /\ depthB = 0 /\ hdr = FALSE
               /\ IF Globals = "canon" THEN unit = "sp4" /\ eol = "lf" ELSE unit \in {"sp4", "tab"} /\ eol \in {"lf", "crlf", "cr"}
Prev == IF i = 1 THEN [t |-> "none", v |-> ""] ELSE toks[i - 1]
Place == /\ i <= Len(toks)
         /\ \E o \in Options(toks[i], Prev, depthB > 0, hdr) \cup
                   (IF Mutate THEN {<<>>, <<Piece(toks[i]), Piece(toks[i])>>} \cup (IF i < Len(toks) THEN {<<Piece(toks[i + 1]), Piece(toks[i])>>} ELSE {}) ELSE {}) :
              /\ out' = out \o o
              /\ dev' = dev + (IF o = <<Piece(toks[i])>> THEN 0 ELSE 1)
              /\ dev' <= MaxDev
         /\ depthB' = depthB + (IF toks[i].t \in {"lb", "lp"} THEN 1 ELSE IF toks[i].t \in {"rb", "rp"} THEN -1 ELSE 0)
         /\ hdr' = IF toks[i].t = "nl" THEN FALSE
                   ELSE IF toks[i].t = "kw" /\ toks[i].v \in {"IF", "ELIF", "ELSE", "WHILE", "ITER", "WITH", "CATCH", "DEF", "HOW", "GETTER"} THEN TRUE ELSE hdr
         /\ i' = i + 1
         /\ UNCHANGED <<prog, toks, unit, eol>>
\* corruption by whole lines (Mutate only): the line that starts at this line-break token is dropped - all tokens up to the
\* next line-break token (a statement line, an 输入 line, a header line ...) disappear from the text
NextNl(j) == LET N == {q \in j + 1..Len(toks) : toks[q].t = "nl"} IN IF N = {} THEN Len(toks) + 1 ELSE CHOOSE q \in N : \A r \in N : q <= r
DropLine == /\ Mutate /\ i <= Len(toks) /\ toks[i].t = "nl" /\ dev < MaxDev
            /\ dev' = dev + 1 /\ i' = NextNl(i) /\ hdr' = FALSE
            /\ UNCHANGED <<prog, toks, out, unit, eol, depthB>>
Next == Place \/ DropLine
Done == i = Len(toks) + 1
\* design checks: the tree the grammar prescribes is complete, and independent of the layout (it is a function of prog only)
TreeComplete == WellFormed(Tree(prog))
TokensBalanced == LET cnt(k) == Cardinality({j \in 1..Len(toks) : toks[j].t = k}) IN cnt("lb") = cnt("rb") /\ cnt("lp") = cnt("rp") /\ cnt("lc") = cnt("rc")
Emit == Done => PrintT(ToJson([k |-> "layout", id |-> prog.id, out |-> out, dev |-> dev, unit |-> unit, eol |-> eol]))
EmitTree == (i = 1 /\ unit = "sp4" /\ eol = "lf") => PrintT(ToJson([k |-> "tree", id |-> prog.id, tree |-> Tree(prog)]))
=============================================================================
