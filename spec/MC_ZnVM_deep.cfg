CONSTANTS
  Names = {"a", "b"}
  Globals = {"g"}
  N = 9
  MaxDepth = 3
SPECIFICATION Spec
INVARIANTS NoDuplicate GlobalsNeverBound
PROPERTY Props
VIEW View
CHECK_DEADLOCK FALSE
