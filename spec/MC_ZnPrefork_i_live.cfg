CONSTANTS
  InitProcs = 1
  MaxProcs = 2
  Batch = 10
  NReq = 2
  NFault = 1
  MaxPid = 5
  Design = "intended"
SPECIFICATION Spec
INVARIANTS TypeOK Bound Bookkeeping RefCountBounded LiveAccounted
PROPERTY TimeoutIsolated Refill
CHECK_DEADLOCK FALSE
