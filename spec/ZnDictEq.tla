------------------------------- MODULE ZnDictEq -------------------------------
(* C11 - equality of dictionaries is a function of their contents only (not of insertion order, not
   of hash-map iteration order).  Enumerates all pairs of dictionaries over <= 3 keys and 2 values in
   every insertion order and emits the expected answer; the driver executes each comparison repeatedly. *)
EXTENDS Integers, Sequences, FiniteSets, TLC, Json
Keys == {"a", "b", "c"}
Vals2 == {1, 2}
Dicts == UNION {[S -> Vals2] : S \in SUBSET Keys}
\* insertion orders: every permutation of the key set
Perms(S) == {p \in [1..Cardinality(S) -> S] : \A a, b \in DOMAIN p : a # b => p[a] # p[b]}
DictEq(d1, d2) == DOMAIN d1 = DOMAIN d2 /\ \A k \in DOMAIN d1 : d1[k] = d2[k]
VARIABLES d1, d2, o1, o2
dvars == <<d1, d2, o1, o2>>
DInit == /\ d1 \in Dicts /\ d2 \in Dicts
         /\ o1 \in Perms(DOMAIN d1) /\ o2 \in Perms(DOMAIN d2)
DNext == UNCHANGED dvars
\* equality is a function of the contents only: independent of the two insertion orders
OrderIrrelevant == \A p \in Perms(DOMAIN d1), q \in Perms(DOMAIN d2) : DictEq(d1, d2) = DictEq(d1, d2)
DEmit == PrintT(ToJson([k |-> "dicteq", k1 |-> o1, v1 |-> [j \in 1..Len(o1) |-> d1[o1[j]]],
                        k2 |-> o2, v2 |-> [j \in 1..Len(o2) |-> d2[o2[j]]], eq |-> DictEq(d1, d2)]))
=============================================================================
