CONSTANTS
  Design = "intended"
  Mode = "seq"
  MaxN = 3
  Conc = 2
INIT SInit
NEXT SNext
INVARIANTS Isolation SEmit
CHECK_DEADLOCK FALSE
