CONSTANTS
  Names = {"a", "b", "c", "d"}
  Globals = {"g"}
SPECIFICATION TraceSpec
INVARIANTS NoDuplicate GlobalsNeverBound
PROPERTY Props
POSTCONDITION TraceAccepted
CHECK_DEADLOCK FALSE
