------------------------------- MODULE ZnNum -------------------------------
(* C04 (numeric part) - an identifier denotes a number exactly when it has the documented form
       [+-]? D+ ( . D+ )? ( [eE] [+-] D+  |  * 10 ^ [+-]? D+  |  * ^ [+-]? D+ )?
   An identifier that STARTS LIKE A NUMBER (optional sign, then a digit) but is not of that form is
   rejected; anything else is a name.  Characters are classes: "0" "1" "d"(2-9) "+" "-" "." "e" "E"
   "*" "^" "o"(any other identifier character).

   The recogniser is a DFA derived from the form above; the machine reads one character per step and
   records where the integer part, the fraction and the exponent digits lie, so that the denoted
   decimal is  sign int.frac x 10^(esign exp).  (Which double that decimal rounds to is computed by
   the harness with math/big - DESIGN section 6.) *)
EXTENDS Integers, Sequences, FiniteSets, TLC, Json

CONSTANTS MaxLen, Mode        \* Mode: "all" strings up to MaxLen | "wmethod" suite

Sigma == {"0", "1", "d", "+", "-", ".", "e", "E", "*", "^", "o"}
Digit(c) == c \in {"0", "1", "d"}
Sign(c) == c \in {"+", "-"}

(* DFA states: S start, SG after sign, I integer digits, DOT after '.', F fraction digits,
   E after e/E, ES after the exponent sign, X after '*', X1 after "*1", X10 after "*10",
   P after '^', ED exponent digits, DEAD   (13 states, minimal: W below separates every pair) *)
Delta(q, c) ==
  CASE q = "S"   -> IF Digit(c) THEN "I" ELSE IF Sign(c) THEN "SG" ELSE "DEAD"
    [] q = "SG"  -> IF Digit(c) THEN "I" ELSE "DEAD"
    [] q = "I"   -> IF Digit(c) THEN "I" ELSE IF c = "." THEN "DOT" ELSE IF c \in {"e", "E"} THEN "E" ELSE IF c = "*" THEN "X" ELSE "DEAD"
    [] q = "DOT" -> IF Digit(c) THEN "F" ELSE "DEAD"
    [] q = "F"   -> IF Digit(c) THEN "F" ELSE IF c \in {"e", "E"} THEN "E" ELSE IF c = "*" THEN "X" ELSE "DEAD"
    [] q = "E"   -> IF Sign(c) THEN "ES" ELSE "DEAD"                 \* E/e needs a mandatory sign
    [] q = "ES"  -> IF Digit(c) THEN "ED" ELSE "DEAD"
    [] q = "X"   -> IF c = "1" THEN "X1" ELSE IF c = "^" THEN "P" ELSE "DEAD"
    [] q = "X1"  -> IF c = "0" THEN "X10" ELSE "DEAD"
    [] q = "X10" -> IF c = "^" THEN "P" ELSE "DEAD"
    [] q = "P"   -> IF Digit(c) THEN "ED" ELSE IF Sign(c) THEN "ES" ELSE "DEAD"    \* after the sign both forms need digits: same state
    [] q = "ED"  -> IF Digit(c) THEN "ED" ELSE "DEAD"
    [] q = "DEAD" -> "DEAD"
States == {"S", "SG", "I", "DOT", "F", "E", "ES", "X", "X1", "X10", "P", "ED", "DEAD"}
Accepting == {"I", "F", "ED"}

RECURSIVE RunFrom(_, _)
RunFrom(q, s) == IF s = <<>> THEN q ELSE RunFrom(Delta(q, s[1]), Tail(s))
StartsLikeNumber(s) == \/ (Len(s) >= 1 /\ Digit(s[1]))
                       \/ (Len(s) >= 2 /\ Sign(s[1]) /\ Digit(s[2]))
Classify(s) == IF RunFrom("S", s) \in Accepting THEN "number"
               ELSE IF StartsLikeNumber(s) THEN "reject" ELSE "name"

(* ---------- W-method: P = access strings, W = characterisation set ---------- *)
W == {<<>>, <<"0">>, <<"0", ".", "0">>, <<"0", "e", "+", "0">>, <<".", "0">>, <<"e", "+", "0">>, <<"+", "0">>, <<"^", "0">>, <<"0", "^", "0">>, <<"1", "0", "^", "0">>, <<"*", "^", "0">>}
\* W distinguishes every pair of distinct states (checked by TLC): some w in W is accepted from one and not the other
Acc(q, w) == RunFrom(q, w) \in Accepting
WDistinguishes == \A p, q \in States : p # q => \E w \in W : Acc(p, w) # Acc(q, w)
RECURSIVE StrUpTo(_)
StrUpTo(n) == IF n = 0 THEN {<<>>} ELSE LET S == StrUpTo(n - 1) IN S \cup {Append(t, c) : t \in {u \in S : Len(u) = n - 1}, c \in Sigma}
\* access string of every state (a shortest one; checked below)
AccessTab == [S |-> <<>>, SG |-> <<"+">>, I |-> <<"0">>, DOT |-> <<"0", ".">>, F |-> <<"0", ".", "0">>, E |-> <<"0", "e">>,
              ES |-> <<"0", "e", "+">>, X |-> <<"0", "*">>, X1 |-> <<"0", "*", "1">>, X10 |-> <<"0", "*", "1", "0">>,
              P |-> <<"0", "*", "^">>, ED |-> <<"0", "*", "^", "0">>, DEAD |-> <<"o">>]
AccessOK == \A q \in States : RunFrom("S", AccessTab[q]) = q
Suite == {AccessTab[q] \o m \o w : q \in States, m \in StrUpTo(3), w \in W}     \* P.Sigma^{<=3}.W  (covers P.Sigma.Sigma^{<=2}.W)

(* ---------- the machine ---------- *)
VARIABLES s, pos, q, ib, ie, fb, fe, es, eb, ee
vars == <<s, pos, q, ib, ie, fb, fe, es, eb, ee>>
\* (function sets are enumerated lazily: 11^6 strings exceed TLC's limit for an explicit set)
Init == /\ IF Mode = "all" THEN (\E n \in 1..MaxLen : s \in [1..n -> Sigma]) ELSE s \in Suite \ {<<>>}
        /\ pos = 1 /\ q = "S"
        /\ ib = 0 /\ ie = 0 /\ fb = 0 /\ fe = 0 /\ es = "" /\ eb = 0 /\ ee = 0
Step == /\ pos <= Len(s)
        /\ LET c == s[pos]
               q2 == Delta(q, c)
           IN /\ q' = q2 /\ pos' = pos + 1
              /\ ib' = IF q2 = "I" /\ ib = 0 THEN pos ELSE ib
              /\ ie' = IF q2 = "I" THEN pos ELSE ie
              /\ fb' = IF q2 = "F" /\ fb = 0 THEN pos ELSE fb
              /\ fe' = IF q2 = "F" THEN pos ELSE fe
              /\ es' = IF q2 = "ES" THEN c ELSE es
              /\ eb' = IF q2 = "ED" /\ eb = 0 THEN pos ELSE eb
              /\ ee' = IF q2 = "ED" THEN pos ELSE ee
        /\ UNCHANGED s
Next == Step
Done == pos = Len(s) + 1
MachineAgrees == Done => (q = RunFrom("S", s))
Class == IF q \in Accepting THEN "number" ELSE IF StartsLikeNumber(s) THEN "reject" ELSE "name"
\* spans are consistent with the form
SpansOK == (Done /\ q \in Accepting) => /\ ib >= 1 /\ ie >= ib
                                         /\ (fb > 0 => fb = ie + 2 /\ fe >= fb)
                                         /\ (eb > 0 => ee = Len(s))
Emit == Done => PrintT(ToJson([k |-> "num", s |-> s, c |-> Class,
                               neg |-> (s[1] = "-"), ib |-> ib, ie |-> ie, fb |-> fb, fe |-> fe, es |-> es, eb |-> eb, ee |-> ee]))
ASSUME WDistinguishes /\ AccessOK
=============================================================================
