CONSTANTS
  MaxLen = 4
  BlockSizes = {4}
  EmitBS = 1
INIT SInit
NEXT SNext
INVARIANTS TypeOK Refines NeverAltered CarryIsTail SEmit
CHECK_DEADLOCK FALSE
