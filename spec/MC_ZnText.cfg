CONSTANTS
  MaxLen = 4
INIT Init
NEXT Next
INVARIANTS SplitJoin SliceWhole Emit
CHECK_DEADLOCK FALSE
