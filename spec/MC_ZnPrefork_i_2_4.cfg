CONSTANTS
  InitProcs = 2
  MaxProcs = 4
  Batch = 10
  NReq = 3
  NFault = 1
  MaxPid = 7
  Design = "intended"
SPECIFICATION Spec
INVARIANTS TypeOK Bound Bookkeeping RefCountBounded LiveAccounted
PROPERTY TimeoutIsolated
CHECK_DEADLOCK FALSE
