CONSTANTS
  MaxLen = 5
  Alphabet = {"ql1","qr1","bt","C","R","U","+","D","8","x"}
  Mode = "decode"
  Openers = {"ql1"}
SPECIFICATION Spec
INVARIANTS RoundTrip DepthPositive Emit
PROPERTY Progress
CHECK_DEADLOCK FALSE
