CONSTANTS
  Arity = 2
INIT Init
NEXT Next
INVARIANTS OutcomeDefined Emit
CHECK_DEADLOCK FALSE
