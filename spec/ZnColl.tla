------------------------------- MODULE ZnColl -------------------------------
(* C12 - lists are 1-indexed sequences, dictionaries insertion-ordered maps.
   Classic sequential ADT specification: one action per operation, each with its reply. *)
EXTENDS Integers, Sequences, FiniteSets, TLC

CONSTANTS Vals, Keys, MaxIdx

VARIABLES lst,      \* Seq(Val)
          dk, dv,   \* dictionary: keys in insertion order, values (parallel sequences)
          rep,      \* reply of the last operation
          kept      \* the last NEW collection handed out by 逆序 / 合并 / 所有索引 / 所有值: a value of its own -
                    \* no later operation on the receiver may change it (result independence)
cvars == <<lst, dk, dv, rep, kept>>

Last(s) == s[Len(s)]
Front(s) == SubSeq(s, 1, Len(s) - 1)
RECURSIVE Rev(_)
Rev(s) == IF s = <<>> THEN <<>> ELSE Append(Rev(Tail(s)), Head(s))
RECURSIVE IndexOf(_, _, _)
IndexOf(s, x, j) == IF j > Len(s) THEN 0 ELSE IF s[j] = x THEN j ELSE IndexOf(s, x, j + 1)
Without(s, q) == SubSeq(s, 1, q - 1) \o SubSeq(s, q + 1, Len(s))

Ok(v) == [k |-> "val", v |-> v]
OkSeq(s) == [k |-> "seq", v |-> s]
OkBool(b) == [k |-> "bool", v |-> b]
Null == [k |-> "null"]
ErrIndex == [k |-> "index"]
ErrKey == [k |-> "key"]

CInit == lst = <<>> /\ dk = <<>> /\ dv = <<>> /\ rep = [k |-> "init"] /\ kept = <<>>
DU == UNCHANGED <<dk, dv>>
LU == UNCHANGED lst
KU == UNCHANGED kept

(* ------------------------------ list ------------------------------ *)
LGet(i) == /\ rep' = IF i >= 1 /\ i <= Len(lst) THEN Ok(lst[i]) ELSE ErrIndex
           /\ LU /\ DU /\ KU
LSet(i, v) == /\ IF i >= 1 /\ i <= Len(lst) THEN lst' = [lst EXCEPT ![i] = v] /\ rep' = Ok(v)
                 ELSE LU /\ rep' = ErrIndex                   \* out of range: index error, unchanged
              /\ DU /\ KU
LLen == rep' = Ok(Len(lst)) /\ LU /\ DU /\ KU
LFirst == rep' = (IF lst = <<>> THEN Null ELSE Ok(lst[1])) /\ LU /\ DU /\ KU
LLast == rep' = (IF lst = <<>> THEN Null ELSE Ok(Last(lst))) /\ LU /\ DU /\ KU
LRev == rep' = OkSeq(Rev(lst)) /\ kept' = Rev(lst) /\ LU /\ DU                     \* a new list; the receiver is unchanged
LPrepend(v) == lst' = <<v>> \o lst /\ rep' = OkSeq(lst') /\ DU /\ KU
LAppend(v) == lst' = Append(lst, v) /\ rep' = OkSeq(lst') /\ DU /\ KU
LShift == /\ IF lst = <<>> THEN LU /\ rep' = Null ELSE lst' = Tail(lst) /\ rep' = Ok(lst[1])
          /\ DU /\ KU
LPop == /\ IF lst = <<>> THEN LU /\ rep' = Null ELSE lst' = Front(lst) /\ rep' = Ok(Last(lst))
        /\ DU /\ KU
LSwap(i, j) == /\ IF i >= 1 /\ i <= Len(lst) /\ j >= 1 /\ j <= Len(lst)
                  THEN lst' = [lst EXCEPT ![i] = lst[j], ![j] = lst[i]] /\ rep' = OkSeq(lst')
                  ELSE LU /\ rep' = ErrIndex
               /\ DU /\ KU
LMerge(o) == rep' = OkSeq(lst \o o) /\ kept' = lst \o o /\ LU /\ DU                \* "forms a new list"
LContains(v) == rep' = OkBool(IndexOf(lst, v, 1) > 0) /\ LU /\ DU /\ KU
\* first occurrence, 1-based position p (0 = absent); the binding maps it to the implementation's base
LFind(v) == rep' = [k |-> "find", p |-> IndexOf(lst, v, 1)] /\ LU /\ DU /\ KU

(* ------------------------------ dictionary ------------------------------ *)
DPos(k) == IndexOf(dk, k, 1)
DGet(k) == /\ rep' = IF DPos(k) > 0 THEN Ok(dv[DPos(k)]) ELSE ErrKey
           /\ DU /\ LU /\ KU
DPut(k, v) == IF DPos(k) > 0 THEN dv' = [dv EXCEPT ![DPos(k)] = v] /\ UNCHANGED dk      \* overwrite keeps its place
              ELSE dk' = Append(dk, k) /\ dv' = Append(dv, v)                        \* a new key is appended
DSet(k, v) == DPut(k, v) /\ rep' = Ok(v) /\ LU /\ KU
DRead(k) == rep' = (IF DPos(k) > 0 THEN Ok(dv[DPos(k)]) ELSE Null) /\ DU /\ LU /\ KU
DWrite(k, v) == DPut(k, v) /\ rep' = Ok(v) /\ LU /\ KU
DRemove(k) == /\ IF DPos(k) > 0 THEN dk' = Without(dk, DPos(k)) /\ dv' = Without(dv, DPos(k)) /\ rep' = Ok(dv[DPos(k)])
                 ELSE DU /\ rep' = Null
              /\ LU /\ KU
DLen == rep' = Ok(Len(dk)) /\ DU /\ LU /\ KU
DKeys == rep' = OkSeq(dk) /\ kept' = dk /\ DU /\ LU
DVals == rep' = OkSeq(dv) /\ kept' = dv /\ DU /\ LU

(* ------------------------------ properties ------------------------------ *)
DictWF == /\ Len(dk) = Len(dv)
          /\ \A a, b \in 1..Len(dk) : a # b => dk[a] # dk[b]
\* laws (action properties)
AppendLaw == (Len(lst') = Len(lst) + 1 /\ SubSeq(lst', 1, Len(lst)) = lst) => Last(lst') \in Vals
LenLaw == rep'.k = "seq" => TRUE
RevTwice == Rev(Rev(lst)) = lst
PrependShift == \A v \in Vals : Tail(<<v>> \o lst) = lst
FailedIsNoOp == rep'.k \in {"index", "key"} => (lst' = lst /\ dk' = dk /\ dv' = dv)
ReinsertAppends == \A k \in Keys : (DPos(k) = 0 /\ Len(dk') = Len(dk) + 1 /\ Last(dk') = k) => SubSeq(dk', 1, Len(dk)) = dk
=============================================================================
