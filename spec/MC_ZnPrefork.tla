------------------------------- MODULE MC_ZnPrefork -------------------------------
(* ZnPrefork with an action history: a counterexample of the named deviation "ascoded" (and simulated
   behaviours of the intended design) come out as schedules that the harness replays through the H5
   gates of the real master. *)
EXTENDS ZnPrefork
VARIABLE hist
hvars == <<live, childs, refCount, loops, pipe, waits, armed, wst, nextPid, reqs, faults, got, hist>>
HInit == Init /\ hist = <<>>
H(a, p) == hist' = Append(hist, [a |-> a, p |-> p])
HNext == \/ \E s \in 1..Len(loops) : SpawnStart(s) /\ H("spawn", nextPid)
         \* schedules are replayed through gates that hold the SEND of a registration until the step "add": receive and
         \* processing happen together there, so the histories use the composed action
         \/ \E s \in 1..Len(loops) : RecvThenAdd(s) /\ H("add", loops[s].pending)
         \/ MasterUpdate /\ H("update", Head(pipe).pid)
         \/ \E p \in Pids : MasterDel(p) /\ H("del", p)
         \/ \E p \in Pids : WorkerAccept(p) /\ H(IF wst'[p] = "hung" THEN "accept-hang" ELSE "accept", p)
         \/ \E p \in Pids : WorkerDone(p) /\ H("done", p)
         \/ \E p \in Pids : WorkerTimeout(p) /\ H("timeout", p)
         \/ \E p \in Pids : WorkerCrash(p) /\ H("crash", p)
HSpec == HInit /\ [][HNext]_hvars
\* on violation TLC prints the last state: the history is the schedule
BoundH == Bound \/ PrintT(ToJson([k |-> "cex", h |-> hist])) = FALSE
\* simulation: print complete behaviours of the intended design
Quiesced == reqs = NReq /\ pipe = <<>> /\ waits = {} /\ \A s \in 1..Len(loops) : loops[s].left = 0 /\ loops[s].pending = 0
EmitSched == Quiesced => PrintT(ToJson([k |-> "sched", h |-> hist]))
View == <<live, childs, refCount, loops, pipe, waits, armed, wst, nextPid, reqs, faults, got>>
=============================================================================
