CONSTANTS
  MaxLen = 5
  Mode = "all"
INIT Init
NEXT Next
INVARIANTS MachineAgrees SpansOK Emit
CHECK_DEADLOCK FALSE
