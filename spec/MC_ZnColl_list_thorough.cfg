CONSTANTS
  Vals = {1, 2, 3}
  Keys = {"a", "b", "c"}
  MaxIdx = 4
  N = 3
  EmitOneIn = 4
  Kind = "list"
SPECIFICATION Spec
INVARIANTS Laws Emit
PROPERTY Props
CHECK_DEADLOCK FALSE
