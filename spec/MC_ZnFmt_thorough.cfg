CONSTANTS
  DirLen = 6
  MaxLen = 5
INIT Init
NEXT Next
INVARIANTS Verbatim Emit
CHECK_DEADLOCK FALSE
