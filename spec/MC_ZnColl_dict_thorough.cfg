CONSTANTS
  Vals = {1, 2, 3}
  Keys = {"a", "b", "c"}
  MaxIdx = 4
  N = 4
  EmitOneIn = 12
  Kind = "dict"
SPECIFICATION Spec
INVARIANTS Laws Emit
PROPERTY Props
CHECK_DEADLOCK FALSE
