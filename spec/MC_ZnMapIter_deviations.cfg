CONSTANTS
  Kinds = {"firstfail", "ordered"}
INIT Init
NEXT Next
INVARIANTS Confluent
CHECK_DEADLOCK FALSE
