CONSTANTS
  Family = "A"
  NRandom = 1
  RDepth = 4
INIT Init
NEXT Next
INVARIANTS AgreesWithReference ErrNeverValue LoweringAgrees ProbeOnce StackShape Emit
CHECK_DEADLOCK FALSE
