CONSTANTS
  MaxLen = 5
  Mode = "wmethod"
INIT Init
NEXT Next
INVARIANTS MachineAgrees SpansOK Emit
CHECK_DEADLOCK FALSE
