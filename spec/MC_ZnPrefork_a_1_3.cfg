CONSTANTS
  InitProcs = 1
  MaxProcs = 3
  Batch = 10
  NReq = 3
  NFault = 0
  MaxPid = 5
  Design = "ascoded"
SPECIFICATION Spec
INVARIANTS TypeOK Bound Bookkeeping RefCountBounded LiveAccounted
PROPERTY TimeoutIsolated
CHECK_DEADLOCK FALSE
