CONSTANTS
  InitProcs = 2
  MaxProcs = 3
  Batch = 10
  NReq = 3
  NFault = 0
  MaxPid = 6
  Design = "ascoded"
INIT HInit
NEXT HNext
INVARIANTS BoundH
CHECK_DEADLOCK FALSE
