CONSTANTS
  InitProcs = 1
  MaxProcs = 3
  Batch = 10
  NReq = 2
  NFault = 0
  MaxPid = 5
  Design = "ascoded"
INIT HInit
NEXT HNext
INVARIANTS BoundH
CHECK_DEADLOCK FALSE
