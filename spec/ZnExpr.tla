------------------------------- MODULE ZnExpr -------------------------------
(* C01 - expressions evaluate to the values the manual defines.

   Trees:  leaf | probe | bin(op, l, r).   Values: exact rationals (n/d), booleans, texts, null.
   The module contains
     * the documented precedence table and MinimalText(tree): the token list with braces only
       where that table requires them;
     * a reference big-step evaluator Ev(tree);
     * an evaluation STACK MACHINE (one action per instruction, jump-style short circuit) whose
       terminal state must agree with Ev(tree) - checked by TLC in every terminal state - and
       whose intermediate states carry the invariants ProbeOnce / ErrNeverValue / StackShape;
     * vector emission: the tree, its minimal token list, the expected outcome and probe order.
   Numbers are exact rationals; `exact` says all intermediate values are dyadic (so IEEE-754
   double arithmetic is exact on them), `fragile` says a floor/remainder/comparison consumed a
   non-dyadic value (the harness then compares only error-vs-value). *)
EXTENDS Integers, Sequences, FiniteSets, TLC, Json

CONSTANTS Family,      \* "A" one operator x all leaf pairs | "B" operator triples | "R" random
          NRandom, RDepth

ArithOps == {"add", "sub", "mul", "div", "idiv", "mod"}
OrdOps   == {"gt", "lt", "ge", "le"}
EqOps    == {"eq", "neq", "xeq", "xneq"}
CmpOps   == OrdOps \cup EqOps
LogOps   == {"and", "or"}
Ops      == ArithOps \cup CmpOps \cup LogOps

\* documented precedence: * / | %  >  + -  >  comparisons  >  and  >  or
Prec(op) == CASE op \in {"mul", "div", "idiv", "mod"} -> 5
              [] op \in {"add", "sub"} -> 4
              [] op \in CmpOps -> 3
              [] op = "and" -> 2
              [] op = "or" -> 1
NonAssoc(op) == op \in CmpOps       \* a comparison operand of a comparison needs braces

(* ------------------------------ values ------------------------------ *)
Num(n, d) == [t |-> "num", n |-> n, d |-> d]
Bool(b) == [t |-> "bool", b |-> b]
Str(s) == [t |-> "str", s |-> s]
Null == [t |-> "null"]
Big == [t |-> "big"]              \* magnitude guard: outside the range TLC integers can carry

Abs(x) == IF x < 0 THEN -x ELSE x
RECURSIVE GCD(_, _)
GCD(a, b) == IF b = 0 THEN a ELSE GCD(b, a % b)
Norm(n, d) == LET dd == IF d < 0 THEN -d ELSE d
                  nn == IF d < 0 THEN -n ELSE n
                  g == GCD(Abs(nn), dd)
              IN Num(nn \div g, dd \div g)
Small(q) == Abs(q.n) <= 20000 /\ q.d <= 20000
RECURSIVE IsPow2(_)
IsPow2(d) == d = 1 \/ (d % 2 = 0 /\ IsPow2(d \div 2))
Dyadic(v) == v.t # "num" \/ IsPow2(v.d)

QAdd(a, b) == Norm(a.n * b.d + b.n * a.d, a.d * b.d)
QSub(a, b) == Norm(a.n * b.d - b.n * a.d, a.d * b.d)
QMul(a, b) == Norm(a.n * b.n, a.d * b.d)
QDiv(a, b) == Norm(a.n * b.d, a.d * b.n)              \* b.n # 0
QFloor(a) == a.n \div a.d                              \* TLC's \div is floor division
QIDiv(a, b) == Num(QFloor(QDiv(a, b)), 1)
QMod(a, b) == LET q == QIDiv(a, b) IN IF Small(q) THEN QSub(a, QMul(q, b)) ELSE Big
QLt(a, b) == a.n * b.d < b.n * a.d
QEq(a, b) == a.n = b.n /\ a.d = b.d

Err == [t |-> "err"]

\* structural equality of plain values; different types are simply unequal
VEq(a, b) == IF a.t # b.t THEN FALSE
             ELSE CASE a.t = "num" -> QEq(a, b)
                    [] a.t = "bool" -> a.b = b.b
                    [] a.t = "str" -> a.s = b.s
                    [] a.t = "null" -> TRUE

\* one binary operator on two evaluated operands (not and/or): value, Err or Big
Apply(op, a, b) ==
  IF a.t = "big" \/ b.t = "big" THEN Big
  ELSE IF op \in ArithOps THEN
         IF a.t # "num" \/ b.t # "num" THEN Err
         ELSE IF ~Small(a) \/ ~Small(b) THEN Big
         ELSE CASE op = "add" -> QAdd(a, b)
                [] op = "sub" -> QSub(a, b)
                [] op = "mul" -> QMul(a, b)
                [] op = "div" -> IF b.n = 0 THEN Err ELSE QDiv(a, b)
                [] op = "idiv" -> IF b.n = 0 THEN Err ELSE QIDiv(a, b)
                [] op = "mod" -> IF b.n = 0 THEN Err ELSE QMod(a, b)
  ELSE IF op \in OrdOps THEN
         IF a.t # "num" \/ b.t # "num" THEN Err
         ELSE IF ~Small(a) \/ ~Small(b) THEN Big
         ELSE CASE op = "lt" -> Bool(QLt(a, b))
                [] op = "gt" -> Bool(QLt(b, a))
                [] op = "le" -> Bool(~QLt(b, a))
                [] op = "ge" -> Bool(~QLt(a, b))
  ELSE IF op \in {"eq", "xeq"} THEN Bool(VEq(a, b))
  ELSE Bool(~VEq(a, b))

\* does this operator look at the exact position of its operands on the number line
Fragile(op, a, b) == /\ op \in {"idiv", "mod"} \cup OrdOps \cup EqOps
                     /\ (~Dyadic(a) \/ ~Dyadic(b))

(* ------------------------------ trees ------------------------------ *)
Leaf(v) == [k |-> "leaf", v |-> v]
Probe(id, v) == [k |-> "probe", id |-> id, v |-> v]
Bin(op, l, r) == [k |-> "bin", op |-> op, l |-> l, r |-> r]

NumLeaves == {Leaf(Num(0, 1)), Leaf(Num(1, 1)), Leaf(Num(-1, 1)), Leaf(Num(2, 1)), Leaf(Num(3, 1)),
              Leaf(Num(-7, 1)), Leaf(Num(1, 2)), Leaf(Num(5, 2))}
BoolLeaves == {Leaf(Bool(TRUE)), Leaf(Bool(FALSE))}
OtherLeaves == {Leaf(Str("a")), Leaf(Str("")), Leaf(Null)}
ProbeLeaves == {Probe("PT", Bool(TRUE)), Probe("PF", Bool(FALSE)), Probe("PN", Num(3, 1))}
Leaves == NumLeaves \cup BoolLeaves \cup OtherLeaves \cup ProbeLeaves

\* family A: every operator on every ordered pair of leaves
FamA == {Bin(op, l, r) : op \in Ops, l \in Leaves, r \in Leaves}

\* family B: every ordered operator triple in all five three-operator shapes, type-directed leaves.
\* Leaves are chosen by the operator that consumes them, so that (when types allow) the whole
\* tree evaluates and any wrong grouping changes the result.
LeafFor(op, i, variant) ==
  IF op \in LogOps THEN
       IF variant = 1 THEN (IF i % 2 = 0 THEN Probe("PT", Bool(TRUE)) ELSE Probe("PF", Bool(FALSE)))
       ELSE (IF i % 3 = 0 THEN Leaf(Bool(FALSE)) ELSE Leaf(Bool(TRUE)))
  ELSE LET ns == IF variant = 1 THEN <<Num(7, 1), Num(2, 1), Num(3, 1), Num(5, 1)>>
                 ELSE <<Num(-7, 1), Num(5, 2), Num(2, 1), Num(1, 2)>>
       IN Leaf(ns[i])
Shapes == {1, 2, 3, 4, 5}
TreeB(o1, o2, o3, sh, v) ==
  CASE sh = 1 -> Bin(o3, Bin(o2, Bin(o1, LeafFor(o1, 1, v), LeafFor(o1, 2, v)), LeafFor(o2, 3, v)), LeafFor(o3, 4, v))
    [] sh = 2 -> Bin(o1, LeafFor(o1, 1, v), Bin(o2, LeafFor(o2, 2, v), Bin(o3, LeafFor(o3, 3, v), LeafFor(o3, 4, v))))
    [] sh = 3 -> Bin(o2, Bin(o1, LeafFor(o1, 1, v), LeafFor(o1, 2, v)), Bin(o3, LeafFor(o3, 3, v), LeafFor(o3, 4, v)))
    [] sh = 4 -> Bin(o3, Bin(o1, LeafFor(o1, 1, v), Bin(o2, LeafFor(o2, 2, v), LeafFor(o2, 3, v))), LeafFor(o3, 4, v))
    [] sh = 5 -> Bin(o1, LeafFor(o1, 1, v), Bin(o3, Bin(o2, LeafFor(o2, 2, v), LeafFor(o2, 3, v)), LeafFor(o3, 4, v)))
FamB == {TreeB(o1, o2, o3, sh, v) : o1 \in Ops, o2 \in Ops, o3 \in Ops, sh \in Shapes, v \in {1, 2}}

\* family R: pseudo-random trees (TLC's RandomElement, driven by -seed), depth <= RDepth
RECURSIVE RandTree(_)
RandTree(d) == IF d = 0 \/ RandomElement(1..4) = 1 THEN RandomElement(Leaves)
               ELSE Bin(RandomElement(Ops), RandTree(d - 1), RandTree(d - 1))

(* ------------------------------ reference evaluator ------------------------------ *)
\* result: [v |-> value | Err | Big, ord |-> probe ids in evaluation order, fr |-> fragile]
RECURSIVE Ev(_)
Ev(t) ==
  IF t.k = "leaf" THEN [v |-> t.v, ord |-> <<>>, fr |-> FALSE]
  ELSE IF t.k = "probe" THEN [v |-> t.v, ord |-> <<t.id>>, fr |-> FALSE]
  ELSE LET L == Ev(t.l) IN
       IF L.v.t \in {"err", "big"} THEN L
       ELSE IF t.op \in LogOps THEN
              IF L.v.t # "bool" THEN [v |-> Err, ord |-> L.ord, fr |-> L.fr]
              ELSE IF (t.op = "and" /\ ~L.v.b) \/ (t.op = "or" /\ L.v.b) THEN L     \* decided: right not evaluated
              ELSE LET R == Ev(t.r) IN
                   IF R.v.t \in {"err", "big"} THEN [v |-> R.v, ord |-> L.ord \o R.ord, fr |-> L.fr \/ R.fr]
                   ELSE IF R.v.t # "bool" THEN [v |-> Err, ord |-> L.ord \o R.ord, fr |-> L.fr \/ R.fr]
                   ELSE [v |-> R.v, ord |-> L.ord \o R.ord, fr |-> L.fr \/ R.fr]
            ELSE LET R == Ev(t.r) IN
                 IF R.v.t \in {"err", "big"} THEN [v |-> R.v, ord |-> L.ord \o R.ord, fr |-> L.fr \/ R.fr]
                 ELSE [v |-> Apply(t.op, L.v, R.v), ord |-> L.ord \o R.ord,
                       fr |-> L.fr \/ R.fr \/ Fragile(t.op, L.v, R.v)]

(* ------------------------------ compilation to the stack machine ------------------------------ *)
RECURSIVE Compile(_)
Compile(t) ==
  IF t.k = "leaf" THEN << [i |-> "push", v |-> t.v] >>
  ELSE IF t.k = "probe" THEN << [i |-> "probe", id |-> t.id, v |-> t.v] >>
  ELSE IF t.op \in LogOps THEN
         LET cr == Compile(t.r)
         IN Compile(t.l) \o << [i |-> "jsc", op |-> t.op, off |-> Len(cr) + 1] >> \o cr \o << [i |-> "chkbool"] >>
  ELSE Compile(t.l) \o Compile(t.r) \o << [i |-> "bin", op |-> t.op] >>

(* ------------------------------ IEEE facet: lowering to primitive code ------------------------------
   TLA+ integers cannot state IEEE-754 doubles, but the MEANING of every operator can be stated once, as
   a sequence of primitive operations whose IEEE behaviour is not in question (+ - * / floor, < > <= >=,
   == on two doubles).  CompileI(tree) is that lowering for trees whose numeric leaves are SLOTS (values
   supplied later).  It is bound to the exact-rational semantics above by TLC: LoweringAgrees says that the
   lowered code, run over exact rationals (RunP), yields Ev(tree) for every tree of families A and B.  The
   harness runs the same lowered code over float64 - including 0.1, 1e308, 5e-324, -0, Inf, NaN - which
   gives the documented value "a - floor(a/b)*b in IEEE-754 double arithmetic" without the harness knowing
   what % or | or 不小于 mean. *)
Slot(id) == [k |-> "slot", id |-> id]
Lower(op) ==
  CASE op = "add" -> <<"chknum2", "fadd">>
    [] op = "sub" -> <<"chknum2", "fsub">>
    [] op = "mul" -> <<"chknum2", "fmul">>
    [] op = "div" -> <<"chknum2", "chkz", "fdiv">>
    [] op = "idiv" -> <<"chknum2", "chkz", "fdiv", "floor">>
    [] op = "mod" -> <<"chknum2", "chkz", "dup2", "fdiv", "floor", "swapmul", "fsub">>   \* a - floor(a/b)*b
    [] op = "lt" -> <<"chknum2", "flt">>
    [] op = "gt" -> <<"chknum2", "fgt">>
    [] op = "le" -> <<"chknum2", "fle">>
    [] op = "ge" -> <<"chknum2", "fge">>
    [] op \in {"eq", "xeq"} -> <<"veq">>
    [] op \in {"neq", "xneq"} -> <<"veq", "not">>
RECURSIVE CompileI(_)
CompileI(t) ==
  IF t.k = "leaf" THEN << [i |-> "push", v |-> t.v] >>
  ELSE IF t.k = "slot" THEN << [i |-> "slot", id |-> t.id] >>
  ELSE IF t.k = "probe" THEN << [i |-> "probe", id |-> t.id, v |-> t.v] >>
  ELSE IF t.op \in LogOps THEN
         LET cr == CompileI(t.r)
         IN CompileI(t.l) \o << [i |-> "jsc", op |-> t.op, off |-> Len(cr) + 1] >> \o cr \o << [i |-> "chkbool"] >>
  ELSE CompileI(t.l) \o CompileI(t.r) \o [j \in 1..Len(Lower(t.op)) |-> [i |-> "prim", p |-> Lower(t.op)[j]]]

\* the primitive code run over EXACT RATIONALS: result value, Err or Big
RECURSIVE RunP(_, _, _, _)
RunP(cd, env, q, stk) ==
  IF q > Len(cd) THEN stk[Len(stk)]
  ELSE LET ins == cd[q]
           n == Len(stk)
           a == IF n >= 2 THEN stk[n - 1] ELSE Null
           b == IF n >= 1 THEN stk[n] ELSE Null
           Drop2 == SubSeq(stk, 1, n - 2)
           Drop1 == SubSeq(stk, 1, n - 1)
       IN IF ins.i = "push" \/ ins.i = "probe" THEN RunP(cd, env, q + 1, Append(stk, ins.v))
          ELSE IF ins.i = "slot" THEN RunP(cd, env, q + 1, Append(stk, env[ins.id]))
          ELSE IF ins.i = "jsc" THEN
                 IF b.t # "bool" THEN Err
                 ELSE IF (ins.op = "and" /\ ~b.b) \/ (ins.op = "or" /\ b.b) THEN RunP(cd, env, q + ins.off + 1, stk)
                 ELSE RunP(cd, env, q + 1, Drop1)
          ELSE IF ins.i = "chkbool" THEN (IF b.t # "bool" THEN Err ELSE RunP(cd, env, q + 1, stk))
          ELSE \* primitive
            CASE ins.p = "chknum2" -> IF a.t # "num" \/ b.t # "num" THEN Err
                                      ELSE IF ~Small(a) \/ ~Small(b) THEN Big ELSE RunP(cd, env, q + 1, stk)
              [] ins.p = "chkz" -> IF b.n = 0 THEN Err ELSE RunP(cd, env, q + 1, stk)
              [] ins.p = "dup2" -> RunP(cd, env, q + 1, stk \o <<a, b>>)
              [] ins.p = "fadd" -> RunP(cd, env, q + 1, Append(Drop2, QAdd(a, b)))
              [] ins.p = "fsub" -> RunP(cd, env, q + 1, Append(Drop2, QSub(a, b)))
              [] ins.p = "fmul" -> RunP(cd, env, q + 1, Append(Drop2, QMul(a, b)))
              [] ins.p = "swapmul" -> IF ~Small(b) THEN Big ELSE RunP(cd, env, q + 1, Append(Drop2, QMul(b, a)))   \* [b, f] -> f*b
              [] ins.p = "fdiv" -> RunP(cd, env, q + 1, Append(Drop2, QDiv(a, b)))
              [] ins.p = "floor" -> RunP(cd, env, q + 1, Append(Drop1, Num(QFloor(b), 1)))
              [] ins.p = "flt" -> RunP(cd, env, q + 1, Append(Drop2, Bool(QLt(a, b))))
              [] ins.p = "fgt" -> RunP(cd, env, q + 1, Append(Drop2, Bool(QLt(b, a))))
              [] ins.p = "fle" -> RunP(cd, env, q + 1, Append(Drop2, Bool(QLt(a, b) \/ QEq(a, b))))
              [] ins.p = "fge" -> RunP(cd, env, q + 1, Append(Drop2, Bool(QLt(b, a) \/ QEq(a, b))))
              [] ins.p = "veq" -> RunP(cd, env, q + 1, Append(Drop2, Bool(VEq(a, b))))
              [] ins.p = "not" -> RunP(cd, env, q + 1, Append(Drop1, Bool(~b.b)))

\* abstraction: numeric leaves become slots (numbered left to right), the environment remembers their values
RECURSIVE Abstr(_, _)
Abstr(t, n) ==      \* -> [t |-> slot tree, env |-> sequence of values, n |-> next slot number]
  IF t.k = "leaf" /\ t.v.t = "num" THEN [t |-> Slot(n), env |-> <<t.v>>, n |-> n + 1]
  ELSE IF t.k # "bin" THEN [t |-> t, env |-> <<>>, n |-> n]
  ELSE LET L == Abstr(t.l, n)
           R == Abstr(t.r, L.n)
       IN [t |-> Bin(t.op, L.t, R.t), env |-> L.env \o R.env, n |-> R.n]

(* ------------------------------ minimal-brace rendering ------------------------------ *)
Tok(k, v) == [k |-> k, v |-> v]
RECURSIVE MinText(_)
NeedBrace(parent, child, side) ==
  /\ child.k = "bin"
  /\ \/ Prec(child.op) < Prec(parent.op)
     \/ /\ Prec(child.op) = Prec(parent.op)
        /\ (side = "r" \/ NonAssoc(parent.op))
Wrap(parent, child, side) ==
  IF NeedBrace(parent, child, side)
  THEN << [k |-> "lb"] >> \o MinText(child) \o << [k |-> "rb"] >>
  ELSE MinText(child)
MinText(t) ==
  IF t.k = "leaf" THEN << [k |-> "leaf", v |-> t.v] >>
  ELSE IF t.k = "probe" THEN << [k |-> "probe", id |-> t.id] >>
  ELSE IF t.k = "slot" THEN << [k |-> "slot", id |-> t.id] >>
  ELSE Wrap(t, t.l, "l") \o << [k |-> "op", op |-> t.op] >> \o Wrap(t, t.r, "r")

(* ------------------------------ the machine ------------------------------ *)
VARIABLES tree, code, pc, stack, order, outcome, frag, dy
vars == <<tree, code, pc, stack, order, outcome, frag, dy>>

Init == /\ \/ (Family = "A" /\ tree \in FamA)
           \/ (Family = "B" /\ tree \in FamB)
           \/ (Family = "R" /\ \E i \in 1..NRandom : tree = RandTree(RDepth))
        /\ code = Compile(tree)
        /\ pc = 1 /\ stack = <<>> /\ order = <<>> /\ outcome = "run" /\ frag = FALSE /\ dy = TRUE

Top == stack[Len(stack)]
Pop1 == SubSeq(stack, 1, Len(stack) - 1)
Pop2 == SubSeq(stack, 1, Len(stack) - 2)
I == code[pc]

IPush == /\ I.i = "push"
         /\ stack' = Append(stack, I.v) /\ pc' = pc + 1
         /\ UNCHANGED <<order, outcome, frag>>
IProbe == /\ I.i = "probe"
          /\ stack' = Append(stack, I.v) /\ order' = Append(order, I.id) /\ pc' = pc + 1
          /\ UNCHANGED <<outcome, frag>>
IBin == /\ I.i = "bin"
        /\ LET a == stack[Len(stack) - 1]
               b == stack[Len(stack)]
               r == Apply(I.op, a, b)
           IN IF r.t = "err" THEN outcome' = "err" /\ UNCHANGED <<stack, pc, frag>>
              ELSE IF r.t = "big" THEN outcome' = "big" /\ UNCHANGED <<stack, pc, frag>>
              ELSE /\ stack' = Append(Pop2, r) /\ pc' = pc + 1 /\ frag' = (frag \/ Fragile(I.op, a, b))
                   /\ UNCHANGED outcome
        /\ UNCHANGED order
\* short-circuit jump: the left value is on the stack
IJsc == /\ I.i = "jsc"
        /\ IF Top.t # "bool" THEN outcome' = "err" /\ UNCHANGED <<stack, pc>>
           ELSE IF (I.op = "and" /\ ~Top.b) \/ (I.op = "or" /\ Top.b)
                THEN pc' = pc + I.off + 1 /\ UNCHANGED <<stack, outcome>>      \* decided: keep it, skip right + chkbool
                ELSE pc' = pc + 1 /\ stack' = Pop1 /\ UNCHANGED outcome
        /\ UNCHANGED <<order, frag>>
IChk == /\ I.i = "chkbool"
        /\ IF Top.t # "bool" THEN outcome' = "err" /\ UNCHANGED pc ELSE pc' = pc + 1 /\ UNCHANGED outcome
        /\ UNCHANGED <<stack, order, frag>>
IHalt == /\ pc = Len(code) + 1
         /\ outcome' = "done" /\ UNCHANGED <<stack, pc, order, frag>>

Step == /\ outcome = "run"
        /\ \/ (pc <= Len(code) /\ (IPush \/ IProbe \/ IBin \/ IJsc \/ IChk))
           \/ IHalt
        /\ UNCHANGED <<tree, code>>
        /\ dy' = (dy /\ (stack' # <<>> => Dyadic(stack'[Len(stack')])))
Next == Step
Spec == Init /\ [][Next]_vars

(* ------------------------------ properties ------------------------------ *)
Terminal == outcome # "run"
Ref == Ev(tree)
\* the machine and the reference evaluator agree (value, error-vs-value, probe order)
AgreesWithReference ==
  Terminal =>
    /\ (outcome = "done") = (Ref.v.t \notin {"err", "big"})
    /\ (outcome = "err") = (Ref.v.t = "err")
    /\ (outcome = "big") = (Ref.v.t = "big")
    /\ outcome = "done" => (Len(stack) = 1 /\ stack[1] = Ref.v /\ order = Ref.ord /\ frag = Ref.fr)
ErrNeverValue == outcome = "err" => Ref.v.t = "err"
\* each probe in the tree is evaluated at most once (probe leaves are distinct objects per position,
\* ids may repeat across positions, so: the number of probe events never exceeds the probe instructions)
ProbeOnce == Len(order) <= Cardinality({j \in 1..Len(code) : code[j].i = "probe"})
StackShape == outcome = "run" => (pc \in 1..Len(code) + 1 /\ Len(stack) <= Len(code))
\* short circuit: in a decided jump the instructions of the right operand are never executed -
\* stated on Ev: a probe in the right operand of a decided and/or does not appear in ord (by construction
\* of Ev) and the machine agrees with Ev, see AgreesWithReference.

\* the IEEE lowering, run over exact rationals, is the reference semantics (binds CompileI to Ev)
LoweringAgrees ==
  Terminal =>
    LET A == Abstr(tree, 1)
        r == RunP(CompileI(A.t), A.env, 1, <<>>)
    IN IF Ref.v.t = "big" \/ r.t = "big" THEN TRUE        \* magnitude guard of the integer encoding, either side
       ELSE r = Ref.v
\* family I: slot trees and their lowered code (no values: the harness supplies doubles)
FamIA == {Bin(op, Slot(1), Slot(2)) : op \in ArithOps \cup CmpOps}
RECURSIVE SlotTree(_)
SlotTree(t) == Abstr(t, 1).t
FamIB == {SlotTree(TreeB(o1, o2, o3, sh, 1)) : o1 \in Ops, o2 \in Ops, o3 \in Ops, sh \in Shapes}
EmitI == \A t \in FamIA \cup FamIB : PrintT(ToJson([k |-> "iexpr", mt |-> MinText(t), code |-> CompileI(t)]))
ValJ(v) == v
Emit == Terminal =>
  PrintT(ToJson([k |-> "expr", tree |-> tree, mt |-> MinText(tree),
                 out |-> outcome,
                 val |-> IF outcome = "done" THEN stack[1] ELSE Err,
                 ord |-> order,
                 exact |-> dy,
                 fragile |-> frag]))
=============================================================================
