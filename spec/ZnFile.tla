------------------------------- MODULE ZnFile -------------------------------
(* C17 - source files are decoded losslessly or rejected.

   A file is a sequence of byte symbols.  Every symbol stands for a class of concrete bytes
   (the harness substitutes boundary representatives); the classes are chosen so that the
   validity of a UTF-8 sequence depends on the symbols only:

     A   ASCII                       (00..7F)
     L2  lead of a 2-byte character  (C2..DF)
     L3  lead of a 3-byte character without extra constraint (E1..EC, EE)
     EF  the lead EF (BOM = EF BB BF, U+FFFD = EF BF BD)
     E0  lead E0: second byte must be A0..BF (else overlong)
     ED  lead ED: second byte must be 80..9F (else surrogate)
     L4  lead of a 4-byte character without extra constraint (F1..F3)
     F0  lead F0: second byte must be 90..BF
     F4  lead F4: second byte must be 80..8F
     C   continuation byte in 80..8F
     BB BF BD  the continuation bytes BB, BF, BD (all in A0..BF)
     X   a byte that can never occur in UTF-8 (C0 C1 F5..FF)

   Decode1 is the one-shot reference decoder.  The chunked decoder is the state machine the
   implementation's FileStream.Read(n) loop must refine: carry an incomplete-but-valid tail
   to the next block, fail on an invalid byte, fail on a non-empty carry at end of file,
   strip exactly one leading byte-order mark. *)
EXTENDS Integers, Sequences, FiniteSets, TLC, Json

CONSTANTS MaxLen, BlockSizes, EmitBS   \* EmitBS: block size whose terminal states print a vector

Sym == {"A", "L2", "L3", "EF", "E0", "ED", "L4", "F0", "F4", "C", "BB", "BF", "BD", "X"}
Cont == {"C", "BB", "BF", "BD"}
HiCont == {"BB", "BF", "BD"}          \* continuation bytes >= A0

Need(h) == CASE h = "A" -> 1
             [] h = "L2" -> 2
             [] h \in {"L3", "EF", "E0", "ED"} -> 3
             [] h \in {"L4", "F0", "F4"} -> 4
             [] OTHER -> 0

\* is byte s acceptable as the i-th byte (i >= 2) of a character whose lead is h
OkAt(h, i, s) == /\ s \in Cont
                 /\ (i = 2 /\ h \in {"E0", "F0"}) => s \in HiCont
                 /\ (i = 2 /\ h \in {"ED", "F4"}) => s = "C"

\* b starts with one complete valid character
FullChar(b) == /\ b # <<>>
               /\ Need(b[1]) > 0
               /\ Len(b) >= Need(b[1])
               /\ \A i \in 2..Need(b[1]) : OkAt(b[1], i, b[i])

\* b is a proper prefix of some valid character (incomplete, but not yet wrong)
Partial(b) == /\ b # <<>>
              /\ Need(b[1]) > Len(b)
              /\ \A i \in 2..Len(b) : OkAt(b[1], i, b[i])

Invalid == << <<"INVALID">> >>   \* same shape as a character sequence, so TLC can compare
BOM == <<"EF", "BB", "BF">>
FFFD == <<"EF", "BF", "BD">>

(* ---------- one-shot reference decoder: sequence of characters (each a byte tuple) ---------- *)
RECURSIVE DecAll(_)
DecAll(b) == IF b = <<>> THEN <<>>
             ELSE IF ~FullChar(b) THEN Invalid
             ELSE LET n == Need(b[1])
                      r == DecAll(SubSeq(b, n + 1, Len(b)))
                  IN IF r = Invalid THEN Invalid ELSE <<SubSeq(b, 1, n)>> \o r

StripBOM(cs) == IF cs # <<>> /\ cs # Invalid /\ cs[1] = BOM THEN Tail(cs) ELSE cs
Decode1(b) == StripBOM(DecAll(b))

(* ---------- decoding of one buffer: longest run of complete characters ---------- *)
RECURSIVE DecBuf(_)
\* result: [chars, rest, bad]
DecBuf(b) == IF b = <<>> THEN [chars |-> <<>>, rest |-> <<>>, bad |-> FALSE]
             ELSE IF FullChar(b) THEN
                    LET n == Need(b[1])
                        r == DecBuf(SubSeq(b, n + 1, Len(b)))
                    IN [chars |-> <<SubSeq(b, 1, n)>> \o r.chars, rest |-> r.rest, bad |-> r.bad]
             ELSE IF Partial(b) THEN [chars |-> <<>>, rest |-> b, bad |-> FALSE]
             ELSE [chars |-> <<>>, rest |-> b, bad |-> TRUE]

(* ---------- the chunked decoder ---------- *)
VARIABLES file, bs, pos, carry, out, st, started
vars == <<file, bs, pos, carry, out, st, started>>

RECURSIVE SeqsUpTo(_)
SeqsUpTo(n) == IF n = 0 THEN {<<>>}
               ELSE LET S == SeqsUpTo(n - 1)
                    IN S \cup {Append(s, x) : s \in {t \in S : Len(t) = n - 1}, x \in Sym}

Init == /\ file \in SeqsUpTo(MaxLen)
        /\ bs \in BlockSizes
        /\ pos = 0 /\ carry = <<>> /\ out = <<>> /\ st = "run" /\ started = FALSE

Min(a, b) == IF a < b THEN a ELSE b

\* one read that delivers up to n bytes
ReadBlockN(n) ==
  /\ st = "run"
  /\ LET hi    == Min(pos + n, Len(file))
         chunk == SubSeq(file, pos + 1, hi)
         eof   == chunk = <<>>
         d     == DecBuf(carry \o chunk)
         cs    == IF ~started /\ d.chars # <<>> /\ d.chars[1] = BOM THEN Tail(d.chars) ELSE d.chars
     IN IF d.bad THEN /\ st' = "err" /\ UNCHANGED <<pos, carry, out, started>>
        ELSE IF eof THEN /\ st' = IF d.rest # <<>> THEN "err" ELSE "done"
                         /\ UNCHANGED <<pos, carry, out, started>>
        ELSE /\ out' = out \o cs
             /\ carry' = d.rest
             /\ pos' = hi
             /\ started' = (started \/ d.chars # <<>>)
             /\ st' = "run"
  /\ UNCHANGED <<file, bs>>
ReadBlock == ReadBlockN(bs)

Next == ReadBlock
Spec == Init /\ [][Next]_vars

(* ---------- properties ---------- *)
\* the chunked decoder refines the one-shot decoder, whatever the block size
Refines == /\ st = "done" => (Decode1(file) # Invalid /\ out = Decode1(file))
           /\ st = "err"  => Decode1(file) = Invalid
\* never a silently truncated program: while running, out is a prefix of the reference result
NeverAltered == (st # "err" /\ Decode1(file) # Invalid) =>
                   /\ Len(out) <= Len(Decode1(file))
                   /\ out = SubSeq(Decode1(file), 1, Len(out))
\* bytes are conserved: consumed bytes = bytes of output characters (+ stripped BOM) + carry
CarryIsTail == st = "run" => carry = SubSeq(file, pos - Len(carry) + 1, pos)
\* decoding distributes over concatenation of valid files (what lets the harness TILE a vector into a file of many blocks)
ConcatLemma == pos = 0 => \A p \in 0..Len(file) :
                  LET a == SubSeq(file, 1, p)  b == SubSeq(file, p + 1, Len(file)) IN
                  (DecAll(a) # Invalid /\ DecAll(b) # Invalid) => DecAll(file) = DecAll(a) \o DecAll(b)
TypeOK == /\ pos \in 0..Len(file) /\ st \in {"run", "done", "err"} /\ Len(carry) <= 3

(* ---------- vector emission (one per file, at the terminal state of block size EmitBS) ------ *)
Emit == (bs = EmitBS /\ st \in {"done", "err"}) =>
          PrintT(ToJson([k |-> "file", f |-> file,
                         ok |-> (st = "done"),
                         chars |-> IF st = "done" THEN DecAll(file) ELSE <<>>,
                         bom |-> (st = "done" /\ DecAll(file) # <<>> /\ DecAll(file)[1] = BOM)]))
=============================================================================
