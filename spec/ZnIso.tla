------------------------------- MODULE ZnIso -------------------------------
(* C16 - executions are isolated from one another.
   Process-level cells that outlive an execution, and the programs ("polluters") that write them:
     num      the predefined value 数值                      incNum    以数值（自增：5）
     excctor  the constructor of the predefined type 异常    redefExc  如何新建异常？ …
     libctor  the constructor of a library type              redefLib  导入《@库》 + 如何新建‹库类型›？ …   redefLibAlias  the same through a variable holding the type
     libdef   the default property values of a library type  mutLib    mutate a dictionary default through an instance
     frames   call frames left behind by a failing program   failDeep  error raised three calls deep
     names    names declared by a program                    declare   令‹名› = …
     libs     libraries imported by a program                importLib 导入《@JSON》
     respdef  the headers a library type's constructor gives  mutResp   create a response without headers, 写入 into its 头部
              to every new instance
     modpath  how the name of a module file is resolved       fileImport  run a FILE that imports a custom module 工具-计算;  fileImportOther  the same from another directory whose 工具/计算.zn differs
     numvar   the predefined value 数值 as INPUT-VARIABLE TEXTS  varInputInc  a request whose input-variable text is 甲 = 以数值（自增：5）
              see it (the texts are evaluated by a VM of their own)
     natnames names declared INSIDE the body of a redefined    ctorDeclare  如何新建异常？ with a nested 如何内助？ / 定义内类, then 新建异常
              constructor of a predefined type (the body runs in a frame of the shared native-code module)
     report   the call frames that the error of an EARLIER     (any polluter that makes calls: failDeep, fileImport, importLib, ctorDeclare)
              execution refers to: the error value is kept by its caller and rendered later (an HTTP handler renders it
              after other requests have run) - the report must still describe ITS execution
     source   the program text bound to an interpreter       (LoadScript / LoadFile of another request)
   Design "intended": every execution starts from its own pristine copy of all cells, and the source is
   bound to the REQUEST.  Design "ascoded" (named deviation, the behaviour of the original code): the
   cells are process-wide singletons and the source is a field of the shared interpreter.
   Part 1 (Mode "seq"): all sequences P1;..;Pn;Q, n <= MaxN, on one interpreter or separate ones - the
   probe Q must observe the pristine cells.  Part 2 (Mode "conc"): all interleavings of the steps
   load / read-source / run / respond of Conc concurrent requests through one handler - every request
   must be answered with the result of ITS OWN program. *)
EXTENDS Integers, Sequences, FiniteSets, TLC, Json

CONSTANTS Design, Mode, MaxN, Conc

Polluters == {"incNum", "redefExc", "redefLib", "mutLib", "failDeep", "declare", "importLib", "mutResp", "fileImport", "varInputInc", "ctorDeclare", "redefLibAlias", "fileImportOther"}
Pristine == [num |-> 0, excctor |-> "builtin", libctor |-> "builtin", libdef |-> "clean", frames |-> 0, names |-> {}, libs |-> {},
             respdef |-> "clean", modpath |-> "fresh", numvar |-> 0, natnames |-> {}, report |-> "own"]

(* ------------------------------------------------------------------ the process-wide variables of the code
   Every package-level variable of DemoHn/Zn (go/types inventory, bound by the driver: a new or re-typed variable is
   "unmodelled" until it is classified here) with the reason why it cannot carry anything from one execution to the next:
     table       lookup data, written only by its initialiser
     constvalue  a predefined value without in-place mutators
     perexec     the map of predefined values: every execution takes its own copy with FRESH mutable members (cells num, excctor)
     classmodel  a type object: its constructor / defaults are read-only for programs, instances get their own copies
     library     a registered library: its export table is read-only, importing it changes only the importing execution
     module      the shared native-code module object (immutable)
     hook        verification hook (nil unless a check installs it) *)
GLOBALS == <<
  [g |-> "pkg/error.sigTypeMap", type |-> "map[uint8]string", kind |-> "table", cells |-> "none"],
  [g |-> "pkg/error.typeNameMap", type |-> "map[string]string", kind |-> "table", cells |-> "none"],
  [g |-> "pkg/syntax.IDContinue", type |-> "[]rune", kind |-> "table", cells |-> "none"],
  [g |-> "pkg/syntax.idRange", type |-> "[]syntax.runePair", kind |-> "table", cells |-> "none"],
  [g |-> "pkg/syntax.whiteSpaces", type |-> "[]rune", kind |-> "table", cells |-> "none"],
  [g |-> "pkg/runtime.NativeCodeModule", type |-> "*runtime.Module", kind |-> "module", cells |-> "none"],
  [g |-> "pkg/runtime.VerifHook", type |-> "func(vm *runtime.VM, ev string, name string, n int)", kind |-> "hook", cells |-> "none"],
  [g |-> "pkg/common.CLASS_HttpRequest", type |-> "*value.ClassModel", kind |-> "classmodel", cells |-> "libctor+libdef"],
  [g |-> "pkg/common.CLASS_HttpResponse", type |-> "*value.ClassModel", kind |-> "classmodel", cells |-> "libctor+respdef"],
  [g |-> "pkg/syntax/zh.markOperators", type |-> "[]rune", kind |-> "table", cells |-> "none"],
  [g |-> "pkg/syntax/zh.markPunctuations", type |-> "[]rune", kind |-> "table", cells |-> "none"],
  [g |-> "pkg/syntax/zh.markQuotes", type |-> "[]rune", kind |-> "table", cells |-> "none"],
  [g |-> "pkg/syntax/zh.quoteMatchMap", type |-> "map[rune]rune", kind |-> "table", cells |-> "none"],
  [g |-> "pkg/exec.GlobalValues", type |-> "map[string]runtime.Element", kind |-> "perexec", cells |-> "num+excctor"],
  [g |-> "pkg/exec.VerifGate", type |-> "func(z *exec.Interpreter, point string)", kind |-> "hook", cells |-> "none"],
  [g |-> "pkg/exec.ZnConstBoolFalse", type |-> "*value.Bool", kind |-> "constvalue", cells |-> "none"],
  [g |-> "pkg/exec.ZnConstBoolTrue", type |-> "*value.Bool", kind |-> "constvalue", cells |-> "none"],
  [g |-> "pkg/exec.ZnConstDisplayFunc", type |-> "*value.Function", kind |-> "constvalue", cells |-> "none"],
  [g |-> "pkg/exec.ZnConstExceptionClass", type |-> "*value.ClassModel", kind |-> "classmodel", cells |-> "excctor"],
  [g |-> "pkg/exec.ZnConstGetRandomFloat", type |-> "*value.Function", kind |-> "constvalue", cells |-> "none"],
  [g |-> "pkg/exec.ZnConstNull", type |-> "*value.Null", kind |-> "constvalue", cells |-> "none"],
  [g |-> "pkg/exec.globalValues", type |-> "map[string]runtime.Element", kind |-> "perexec", cells |-> "num+excctor"],
  [g |-> "pkg/server.VerifPMEvent", type |-> "func(ev string, pid int, state uint8, refCount int, nChilds int, n int)", kind |-> "hook", cells |-> "none"],
  [g |-> "pkg/server.VerifPMGate", type |-> "func(point string, pid int, state uint8)", kind |-> "hook", cells |-> "none"],
  [g |-> "stdlib/json.jsonLIB", type |-> "*runtime.Library", kind |-> "library", cells |-> "libs"],
  [g |-> "stdlib/file.fileLIB", type |-> "*runtime.Library", kind |-> "library", cells |-> "libs"]
>>
GlobalKinds == {"table", "constvalue", "perexec", "classmodel", "library", "module", "hook"}
ASSUME \A j \in 1..Len(GLOBALS) : GLOBALS[j].kind \in GlobalKinds
EmitGlobals == PrintT(ToJson([k |-> "globals", t |-> GLOBALS]))
ASSUME EmitGlobals

(* ------------------------------------------------------------------ sequential part *)
VARIABLES cells,      \* process-wide cells (only meaningful for Design = "ascoded")
          seq, done, obs,
          st, src, bound, sched          \* concurrent part (idle in Mode "seq")
svars == <<cells, seq, done, obs>>
cvars == <<st, src, bound, sched>>
Reqs == 1..Conc
Effect(p, c) == CASE p = "incNum" -> [c EXCEPT !.num = @ + 5]
                  [] p = "redefExc" -> [c EXCEPT !.excctor = "user"]
                  [] p = "redefLib" -> [c EXCEPT !.libctor = "user"]
                  [] p = "redefLibAlias" -> [c EXCEPT !.libctor = "user"]      \* the library type reached through a VARIABLE that holds it (令T = HTTP请求; 如何新建T？)
                  [] p = "mutLib" -> [c EXCEPT !.libdef = "dirty"]
                  [] p = "failDeep" -> [c EXCEPT !.frames = 3, !.report = "foreign"]
                  [] p = "declare" -> [c EXCEPT !.names = @ \cup {"X"}]
                  [] p = "importLib" -> [c EXCEPT !.libs = @ \cup {"json"}, !.report = "foreign"]
                  [] p = "mutResp" -> [c EXCEPT !.respdef = "dirty"]
                  [] p = "fileImport" -> [c EXCEPT !.modpath = "used", !.report = "foreign"]
                  [] p = "fileImportOther" -> [c EXCEPT !.modpath = "other", !.report = "foreign"]    \* a FILE in ANOTHER directory that imports a module of the same NAME with other content
                  [] p = "varInputInc" -> [c EXCEPT !.numvar = @ + 5]
                  [] p = "ctorDeclare" -> [c EXCEPT !.natnames = @ \cup {"helper", "type"}, !.report = "foreign"]
Seqs == UNION {[1..n -> Polluters] : n \in 0..MaxN}
SInit == /\ Mode = "seq" /\ seq \in Seqs /\ done = 0 /\ cells = Pristine /\ obs = [k |-> "none"]
         /\ st = <<>> /\ src = 0 /\ bound = <<>> /\ sched = <<>>
\* run the next polluter: in the intended design its effects die with its execution
RunPolluter == /\ done < Len(seq)
               /\ cells' = IF Design = "ascoded" THEN Effect(seq[done + 1], cells) ELSE cells
               /\ done' = done + 1 /\ UNCHANGED <<seq, obs>>
\* the probe observes every cell
RunProbe == /\ done = Len(seq) /\ obs.k = "none"
            /\ obs' = [k |-> "probe", c |-> cells]
            /\ UNCHANGED <<cells, seq, done>>
SNext == (RunPolluter \/ RunProbe) /\ UNCHANGED cvars
Isolation == obs.k = "probe" => obs.c = Pristine
SEmit == obs.k = "probe" => PrintT(ToJson([k |-> "iso", seq |-> seq, isolated |-> (obs.c = Pristine)]))

(* ------------------------------------------------------------------ concurrent part *)
\* request r: idle -> loaded -> read (source text taken) -> responded(with whose program)
CInit == /\ Mode = "conc" /\ cells = Pristine /\ seq = <<>> /\ done = 0 /\ obs = [k |-> "none"]
         /\ st = [r \in Reqs |-> "idle"] /\ src = 0 /\ bound = [r \in Reqs |-> 0] /\ sched = <<>>
Load(r) == /\ st[r] = "idle" /\ st' = [st EXCEPT ![r] = "loaded"]
           /\ src' = IF Design = "ascoded" THEN r ELSE src          \* shared field overwritten
           /\ bound' = IF Design = "ascoded" THEN bound ELSE [bound EXCEPT ![r] = r]   \* bound to the request
           /\ sched' = Append(sched, [r |-> r, a |-> "load"])
ReadSrc(r) == /\ st[r] = "loaded" /\ st' = [st EXCEPT ![r] = "read"]
              /\ bound' = IF Design = "ascoded" THEN [bound EXCEPT ![r] = src] ELSE bound
              /\ sched' = Append(sched, [r |-> r, a |-> "read"]) /\ UNCHANGED src
CNext == (\E r \in Reqs : Load(r) \/ ReadSrc(r)) /\ UNCHANGED svars
OwnProgram == \A r \in Reqs : st[r] = "read" => bound[r] = r
AllRead == \A r \in Reqs : st[r] = "read"
CEmit == AllRead => PrintT(ToJson([k |-> "sched", s |-> sched, own |-> \A r \in Reqs : bound[r] = r]))
=============================================================================
