------------------------------- MODULE ZnStr -------------------------------
(* C13 - every text value round-trips through a string literal.

   Characters are symbols:
     quote characters  ql1 “ qr1 ”   ql2 「 qr2 」   ql3 ‘ qr3 ’   ql4 『 qr4 』   ql5 《 qr5 》
     bt  the back-tick     CR  LF  line-break characters
     C R L F T A B S P K U   the letters of the escape names       "+"      "1" "8" "D" hex digits
     x   any other character
   A literal is  opener body closer.  The READER (state machine below: one action per kind of
   body element) implements the manual: the body is verbatim, except that
     * quote characters of the OPENER'S family nest: the literal closes only at its own closing quote
       at nesting depth zero;
     * `CR` `LF` `CRLF` `TAB` `SP` `BK` and `U+h..h` (1-8 hex digits, a valid scalar value) between
       back-ticks denote those characters; a single quote character wrapped in back-ticks denotes
       itself and does not take part in nesting; any other back-tick text is kept literally;
     * an unterminated literal is a syntax error.
   The WRITER Encode(text, opener, style) is the canonical way to write a text as a literal.
   Design check (TLC): Read(Encode(t)) = t for every text t - the manual's rules are a round trip. *)
EXTENDS Integers, Sequences, FiniteSets, TLC, Json

CONSTANTS MaxLen, Alphabet, Mode, Openers     \* Mode: "roundtrip" (texts -> literals) | "decode" (arbitrary bodies) | "uplus"

QL == {"ql1", "ql2", "ql3", "ql4", "ql5"}
QR == {"qr1", "qr2", "qr3", "qr4", "qr5"}
Quotes == QL \cup QR
Closer(o) == CASE o = "ql1" -> "qr1" [] o = "ql2" -> "qr2" [] o = "ql3" -> "qr3" [] o = "ql4" -> "qr4" [] o = "ql5" -> "qr5"
Hex == {"0", "1", "8", "D", "A", "B", "C", "F"}       \* hexadecimal digits available in the alphabet (upper case)
HexVal(h) == CASE h = "0" -> 0 [] h = "1" -> 1 [] h = "8" -> 8 [] h = "A" -> 10 [] h = "B" -> 11 [] h = "C" -> 12 [] h = "D" -> 13 [] h = "F" -> 15
RECURSIVE HexNum(_, _)
HexNum(ds, acc) == IF ds = <<>> THEN acc ELSE HexNum(Tail(ds), acc * 16 + HexVal(ds[1]))
\* a valid Unicode scalar value: 1-8 hexadecimal digits (leading zeros allowed) denoting a code point <= 10FFFF that
\* is not a surrogate.  (More than 6 significant digits is too big; checked first, TLC integers are 32 bit.)
RECURSIVE StripZeros(_)
StripZeros(ds) == IF Len(ds) > 1 /\ ds[1] = "0" THEN StripZeros(Tail(ds)) ELSE ds
ValidScalar(ds) == /\ Len(ds) >= 1 /\ Len(ds) <= 8
                   /\ Len(StripZeros(ds)) <= 6
                   /\ HexNum(StripZeros(ds), 0) <= 1114111
                   /\ ~(HexNum(StripZeros(ds), 0) >= 55296 /\ HexNum(StripZeros(ds), 0) <= 57343)

(* ---------------- value characters ---------------- *)
\* a value character is a symbol, or [u |-> hexdigits] for a `U+...` escape
Uni(ds) == [u |-> ds]

(* ---------------- escapes: content between two back-ticks ---------------- *)
\* result: [ok, chars]   (the documented table)
EscapeOf(c) ==
  IF c = <<"C", "R">> THEN [ok |-> TRUE, chars |-> <<"CR">>]
  ELSE IF c = <<"L", "F">> THEN [ok |-> TRUE, chars |-> <<"LF">>]
  ELSE IF c = <<"C", "R", "L", "F">> THEN [ok |-> TRUE, chars |-> <<"CR", "LF">>]
  ELSE IF c = <<"T", "A", "B">> THEN [ok |-> TRUE, chars |-> <<"TAB">>]
  ELSE IF c = <<"S", "P">> THEN [ok |-> TRUE, chars |-> <<"SP">>]
  ELSE IF c = <<"B", "K">> THEN [ok |-> TRUE, chars |-> <<"bt">>]
  ELSE IF Len(c) = 1 /\ c[1] \in Quotes THEN [ok |-> TRUE, chars |-> c]
  ELSE IF Len(c) >= 3 /\ Len(c) <= 10 /\ c[1] = "U" /\ c[2] = "+" /\ (\A j \in 3..Len(c) : c[j] \in Hex)
          /\ ValidScalar(SubSeq(c, 3, Len(c)))
       THEN [ok |-> TRUE, chars |-> << Uni(StripZeros(SubSeq(c, 3, Len(c)))) >>]
  ELSE [ok |-> FALSE, chars |-> <<>>]

(* ---------------- the writer ---------------- *)
\* style "A": every quote character is wrapped; style "B": only quote characters of the opener's family
NeedsWrap(ch, o, style) == ch \in Quotes /\ (style = "A" \/ ch \in {o, Closer(o)})
EncChar(ch, o, style) == IF ch = "bt" THEN <<"bt", "B", "K", "bt">>
                         ELSE IF NeedsWrap(ch, o, style) THEN <<"bt", ch, "bt">>
                         ELSE <<ch>>
RECURSIVE EncBody(_, _, _)
EncBody(t, o, style) == IF t = <<>> THEN <<>> ELSE EncChar(t[1], o, style) \o EncBody(Tail(t), o, style)
Encode(t, o, style) == <<o>> \o EncBody(t, o, style) \o <<Closer(o)>>

(* ---------------- the reader (state machine) ---------------- *)
VARIABLES text, opener, style, lit, i, depth, out, st, soft
vars == <<text, opener, style, lit, i, depth, out, st, soft>>

RECURSIVE StrUpTo(_)
StrUpTo(n) == IF n = 0 THEN {<<>>} ELSE LET S == StrUpTo(n - 1) IN S \cup {Append(t, c) : t \in {u \in S : Len(u) = n - 1}, c \in Alphabet}

\* very long digit strings after U+ (9, 15 .. 65 digits: far beyond any code point - kept literally like every other invalid escape)
LongHex == {[q \in 1..n |-> "1"] : n \in {9, 15, 16, 17, 18, 31, 32, 33, 64, 65}} \cup {[q \in 1..n |-> IF q = n THEN "1" ELSE "0"] : n \in {9, 16, 17, 33}}
Init == /\ opener \in Openers
        /\ IF Mode = "uplus"      \* `U+h..h` with every hex string, alone and followed by a character
           THEN /\ \E h \in (StrUpTo(MaxLen) \ {<<>>}) \cup LongHex, tail \in {<<>>, <<"x">>} : text = <<"bt", "U", "+">> \o h \o <<"bt">> \o tail
                /\ style = "raw" /\ lit = <<opener>> \o text \o <<Closer(opener)>>
           ELSE IF Mode = "roundtrip"
           THEN /\ text \in StrUpTo(MaxLen) /\ style \in {"A", "B"} /\ lit = Encode(text, opener, style)
           ELSE /\ text \in StrUpTo(MaxLen) /\ style = "raw" /\ lit = <<opener>> \o text \o <<Closer(opener)>>
        /\ i = 2 /\ depth = 1 /\ out = <<>> /\ st = "run" /\ soft = FALSE

N == Len(lit)
At(j) == IF j >= 1 /\ j <= N THEN lit[j] ELSE "EOF"
RECURSIVE NextBt(_)
NextBt(j) == IF j > N THEN 0 ELSE IF lit[j] = "bt" THEN j ELSE NextBt(j + 1)

Unterminated == /\ i > N /\ st' = "unterminated" /\ UNCHANGED <<i, depth, out, soft>>
ReadOpen == /\ At(i) = opener /\ depth' = depth + 1 /\ out' = Append(out, At(i)) /\ i' = i + 1 /\ UNCHANGED <<st, soft>>
ReadClose == /\ At(i) = Closer(opener)
             /\ IF depth = 1 THEN st' = "closed" /\ i' = i + 1 /\ UNCHANGED <<depth, out>>
                ELSE depth' = depth - 1 /\ out' = Append(out, At(i)) /\ i' = i + 1 /\ UNCHANGED st
             /\ UNCHANGED soft
ReadEscape == /\ At(i) = "bt"
              /\ LET e == NextBt(i + 1)
                     c == IF e = 0 THEN <<>> ELSE SubSeq(lit, i + 1, e - 1)
                     r == EscapeOf(c)
                 IN IF e > 0 /\ r.ok THEN out' = out \o r.chars /\ i' = e + 1 /\ UNCHANGED soft
                    ELSE IF e = i + 1
                    THEN \* two adjacent back-ticks: a back-tick text that is EMPTY - "kept literally", and whichever way a failed
                         \* escape is delimited (up to the partner back-tick / up to the character that spoils the name) it ends here
                         out' = out \o <<"bt", "bt">> /\ i' = i + 2 /\ UNCHANGED soft
                    ELSE IF e > 0 /\ NextBt(e + 1) = 0 /\ (\A j \in 1..Len(c) : c[j] \notin {opener, Closer(opener)})
                    THEN \* "any other back-tick text is kept literally": unambiguous when no further back-tick follows and the
                         \* text holds no quote of the literal's own family (quotes of other families are ordinary characters)
                         out' = out \o <<"bt">> \o c \o <<"bt">> /\ i' = e + 1 /\ UNCHANGED soft
                    ELSE \* not an escape: the back-tick is kept literally.  How far a failed escape extends is not
                         \* documented: from here on the reading is not demanded (soft)
                         out' = Append(out, "bt") /\ i' = i + 1 /\ soft' = TRUE
              /\ UNCHANGED <<depth, st>>
ReadChar == /\ i <= N /\ At(i) \notin {opener, Closer(opener), "bt"}
            /\ out' = Append(out, At(i)) /\ i' = i + 1 /\ UNCHANGED <<depth, st, soft>>
Step == /\ st = "run"
        /\ (Unterminated \/ ReadOpen \/ ReadClose \/ ReadEscape \/ ReadChar)
        /\ UNCHANGED <<text, opener, style, lit>>
Next == Step
Spec == Init /\ [][Next]_vars

(* ---------------- properties ---------------- *)
\* the manual's rules are a round trip: reading what the writer wrote gives the text back, the literal
\* closes exactly at its last character, and no step of the reading was ambiguous
RoundTrip == (Mode = "roundtrip" /\ st # "run") => (st = "closed" /\ out = text /\ i = N + 1 /\ ~soft)
Progress == [][st = "run" => (i' > i \/ st' # "run")]_vars
DepthPositive == depth >= 1
Emit == st # "run" => PrintT(ToJson([k |-> "str", lit |-> lit, ok |-> (st = "closed"), val |-> out, stop |-> i - 1, soft |-> soft,
                                      mode |-> Mode, style |-> style]))
=============================================================================
