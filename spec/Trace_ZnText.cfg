SPECIFICATION Spec
POSTCONDITION TraceAccepted
CHECK_DEADLOCK FALSE
