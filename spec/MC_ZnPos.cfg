CONSTANTS
  MaxLen = 7
INIT Init
NEXT Next
INVARIANTS TypeOK LineAgrees Emit
CHECK_DEADLOCK FALSE
