CONSTANTS
  MaxLen = 7
INIT Init
NEXT Next
INVARIANTS FamilyOK TypeOK LineAgrees Emit
CHECK_DEADLOCK FALSE
