CONSTANTS
  MaxLen = 2
  EmitOneIn = 1
  Explore = TRUE
INIT Init
NEXT Next
INVARIANTS OnlyTheseOutcomes EmitSrc
CHECK_DEADLOCK FALSE
