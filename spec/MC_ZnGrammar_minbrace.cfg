CONSTANTS
  MaxDev = 0
  MinBrace = TRUE
  Mutate = FALSE
  Globals = "canon"
INIT Init
NEXT Next
INVARIANTS Emit
CHECK_DEADLOCK FALSE
