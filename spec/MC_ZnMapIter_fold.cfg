CONSTANTS
  Kinds = {"build", "exists", "effect"}
INIT Init
NEXT Next
INVARIANTS Confluent SiteKindsModelled
CHECK_DEADLOCK FALSE
