CONSTANTS
  Kinds = {"build", "exists", "effect", "collectsort"}
INIT Init
NEXT Next
INVARIANTS Confluent SiteKindsModelled
CHECK_DEADLOCK FALSE
