CONSTANTS
  Design = "intended"
  Mode = "conc"
  MaxN = 1
  Conc = 2
INIT CInit
NEXT CNext
INVARIANTS OwnProgram CEmit
CHECK_DEADLOCK FALSE
