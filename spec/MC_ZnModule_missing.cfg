CONSTANTS
  Mods = {"a", "b"}
  Missing = {"d"}
INIT Init
NEXT Next
INVARIANTS BodyAtMostOnce ImportsBeforeBody CycleIffError Emit
CHECK_DEADLOCK FALSE
