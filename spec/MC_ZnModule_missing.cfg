CONSTANTS
  Mods = {"a", "b"}
  Missing = {"d"}
  MainOrders = {}
  NRandom = 0
INIT Init
NEXT Next
INVARIANTS BodyAtMostOnce ImportsBeforeBody CycleIffError Emit
CHECK_DEADLOCK FALSE
