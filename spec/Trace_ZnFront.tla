------------------------------- MODULE Trace_ZnFront -------------------------------
(* Trace validation for C05: outcome records of the REAL front end (parser + error printer), one per input,
   must be outcomes of the ZnFront automaton; accepted trees must satisfy ZnGrammar!WellFormed.
   Record: [s: class symbols of the source, o: "tree" | "error", code, cursor, quoted: class symbols of the
   quoted line, tree: the dumped syntax tree (or a dummy)]. *)
EXTENDS Integers, Sequences, FiniteSets, TLC, TLCExt, Json
Tr == ndJsonDeserialize("trace.ndjson")
F == INSTANCE ZnFront WITH MaxLen <- 0, EmitOneIn <- 1, Explore <- FALSE, src <- <<>>, phase <- "x", outcome <- [k |-> "none"]
G == INSTANCE ZnGrammar WITH MaxDev <- 0, Globals <- "canon", Mutate <- FALSE, MinBrace <- FALSE, prog <- <<>>, toks <- <<>>, i <- 0, out <- <<>>, dev <- 0, unit <- "", eol <- "", depthB <- 0, hdr <- FALSE
VARIABLE l
Init == l = 1
RecordOK(e) ==
  IF e.o = "tree" THEN G!WellFormed(e.tree)
  ELSE /\ e.o = "error"
       /\ F!OutcomeOK([k |-> "reported", code |-> e.code, cursor |-> e.cursor, quoted |-> e.quoted], e.s)
Next == l <= Len(Tr) /\ RecordOK(Tr[l]) /\ l' = l + 1
Spec == Init /\ [][Next]_l
TraceAccepted == TLCGet("stats").diameter - 1 = Len(Tr)
=============================================================================
