CONSTANTS
  MaxDev = 0
  MinBrace = FALSE
  Mutate = FALSE
  Globals = "all"
INIT Init
NEXT Next
INVARIANTS Emit
CHECK_DEADLOCK FALSE
