CONSTANTS
  MaxDev = 0
  Mutate = FALSE
  Globals = "all"
INIT Init
NEXT Next
INVARIANTS Emit
CHECK_DEADLOCK FALSE
