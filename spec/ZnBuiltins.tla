------------------------------- MODULE ZnBuiltins -------------------------------
(* C10 - no program can crash the host process.
   The complete member tables of every built-in type (getters, setters, methods), the predefined
   functions, the registered library functions and the constructible built-in classes, each with its
   parameter pattern as written for the validators (exact / least-with-wildcards / all-of-one-type).
   One action Invoke(receiver kind, access, member, argument tuple); the ONLY outcomes that exist in
   the specification are  Value  and  ZnError:  where the pattern does not match, or the receiver has
   no such member, the outcome is ZnError; otherwise either (the result of a well-typed call is the
   subject of C12/C14/C19).  A panic, a nil result, a process exit or a hang is not an outcome.
   Member names are ASCII ids; the driver's glyph table maps them to the Chinese names and checks that
   the tables extracted from the Go sources equal the tables below. *)
EXTENDS Integers, Sequences, FiniteSets, TLC, Json

CONSTANTS Arity      \* maximal arity enumerated exhaustively

Kinds == {"number", "string", "bool", "null", "array", "hashmap", "object", "class", "function", "exception", "govalue"}
\* boundary pool: id -> kind
Pool == [n0 |-> "number", nm1 |-> "number", n15 |-> "number", nbig |-> "number", nnan |-> "number", ninf |-> "number", nmin |-> "number",
         s0 |-> "string", sa |-> "string", semo |-> "string", bt |-> "bool", nul |-> "null", l0 |-> "array", l1 |-> "array",
         d0 |-> "hashmap", d1 |-> "hashmap", obj |-> "object", fn |-> "function"]
PoolIds == DOMAIN Pool

M(recv, acc, id, val, pat) == [recv |-> recv, acc |-> acc, id |-> id, val |-> val, pat |-> pat]
G(recv, id) == M(recv, "get", id, "none", <<>>)
S(recv, id) == M(recv, "set", id, "exact", <<"any">>)
Table == {
  G("array", "text"), G("array", "first"), G("array", "last"), G("array", "count"), G("array", "len"), G("array", "reverse"),
  S("array", "first"), S("array", "last"),
  M("array", "call", "insert", "exact", <<"any", "number">>), M("array", "call", "add", "exact", <<"any", "number">>),
  M("array", "call", "prepend", "exact", <<"any">>), M("array", "call", "append", "exact", <<"any">>),
  M("array", "call", "shift", "least", <<"any*">>), M("array", "call", "pop", "least", <<"any*">>),
  M("array", "call", "join", "exact", <<"string">>), M("array", "call", "merge", "all", <<"array">>),
  M("array", "call", "contains", "exact", <<"any">>), M("array", "call", "find", "exact", <<"any">>),
  M("array", "call", "swap", "exact", <<"number", "number">>),
  G("hashmap", "count"), G("hashmap", "len"), G("hashmap", "keys"), G("hashmap", "vals"),
  M("hashmap", "call", "read", "least", <<"string+">>), M("hashmap", "call", "write", "exact", <<"string", "any">>),
  M("hashmap", "call", "remove", "exact", <<"string">>),
  G("string", "len"), G("string", "count2"), G("string", "text"), G("string", "chars"),
  M("string", "call", "replace", "exact", <<"string", "string">>), M("string", "call", "split", "exact", <<"string">>),
  M("string", "call", "match", "exact", <<"string">>), M("string", "call", "matchstart", "exact", <<"string">>),
  M("string", "call", "matchend", "exact", <<"string">>), M("string", "call", "slice", "exact", <<"number", "number">>),
  M("string", "call", "strip", "least", <<"any*">>), M("string", "call", "lower", "least", <<"any*">>), M("string", "call", "upper", "least", <<"any*">>),
  M("string", "call", "join", "all", <<"string">>), M("string", "call", "format", "all", <<"string">>), M("string", "call", "atoi", "least", <<"any*">>),
  G("number", "text"), G("number", "square"), G("number", "cube"), G("number", "sqrt"),
  M("number", "call", "add", "all", <<"number">>), M("number", "call", "sub", "all", <<"number">>), M("number", "call", "mul", "all", <<"number">>),
  M("number", "call", "div", "all", <<"number">>), M("number", "call", "selfadd", "exact", <<"number">>), M("number", "call", "selfsub", "exact", <<"number">>),
  M("number", "call", "floor", "least", <<"any*">>), M("number", "call", "ceil", "least", <<"any*">>),
  G("bool", "text"),
  G("exception", "content"),
  G("object", "self"), G("object", "url"), G("object", "path"), G("object", "method"), G("object", "headers"), G("object", "query"), G("object", "body"),
  S("object", "url"), S("object", "path"), S("object", "method"), S("object", "headers"), S("object", "query"), S("object", "body"),
  \* free functions: predefined, library functions; constructors (access "new")
  M("free", "call", "display", "least", <<"any*">>), M("free", "call", "random", "least", <<"any*">>),
  M("free", "call", "parsejson", "exact", <<"string">>), M("free", "call", "genjson", "exact", <<"hashmap">>),
  M("free", "call", "readfile", "exact", <<"string">>), M("free", "call", "writefile", "exact", <<"string", "string">>), M("free", "call", "readdir", "exact", <<"string">>),
  M("free", "new", "exception", "exact", <<"string">>), M("free", "new", "numbercls", "exact", <<"number">>),
  M("free", "new", "httpreq", "least", <<"string", "string", "any?">>), M("free", "new", "httpresp", "least", <<"number", "any", "hashmap?">>)
}
MemberIds == {e.id : e \in Table} \cup {"nosuch"}

KindOK(p, k) == p = "any" \/ p = k
\* validators (total: defined for every pattern and every argument list, also shorter than the pattern)
Base(p) == IF p \in {"any*", "any?"} THEN "any" ELSE IF p = "string+" THEN "string" ELSE IF p = "hashmap?" THEN "hashmap" ELSE p
Wild(p) == IF p \in {"any*"} THEN "*" ELSE IF p = "string+" THEN "+" ELSE IF p \in {"any?", "hashmap?"} THEN "?" ELSE ""
RECURSIVE Least(_, _)
Least(pat, ks) ==
  IF pat = <<>> THEN TRUE                                   \* (extra arguments are not looked at by the validator)
  ELSE LET p == pat[1] w == Wild(p) IN
       IF w = "*" THEN \A j \in 1..Len(ks) : KindOK(Base(p), ks[j])
       ELSE IF w = "+" THEN Len(ks) >= 1 /\ \A j \in 1..Len(ks) : KindOK(Base(p), ks[j])
       ELSE IF w = "?" THEN Len(ks) = 0 \/ (Len(ks) = 1 /\ KindOK(Base(p), ks[1]))
       ELSE Len(ks) >= 1 /\ KindOK(p, ks[1]) /\ Least(Tail(pat), Tail(ks))
Match(e, ks) == CASE e.val = "none" -> ks = <<>>
                  [] e.val = "exact" -> Len(ks) = Len(e.pat) /\ \A j \in 1..Len(ks) : KindOK(e.pat[j], ks[j])
                  [] e.val = "all" -> \A j \in 1..Len(ks) : KindOK(e.pat[1], ks[j])
                  [] e.val = "least" -> Least(e.pat, ks)
MatchTotal == \A e \in Table : \A ks \in {<<>>, <<"number">>, <<"string", "number">>, <<"any">>} : Match(e, ks) \in BOOLEAN

RecvKinds == Kinds \cup {"free"}
Tuples(n) == UNION {[1..m -> PoolIds] : m \in 0..n}
VARIABLES recv, acc, member, args, outcome
vars == <<recv, acc, member, args, outcome>>
Init == /\ recv \in RecvKinds /\ acc \in {"get", "set", "call", "new"} /\ member \in MemberIds
        /\ (acc = "new") = (recv = "free" /\ member \in {"exception", "numbercls", "httpreq", "httpresp", "nosuch"})
        /\ (recv = "free") => acc \in {"call", "new"}
        /\ args \in Tuples(Arity)
        /\ (acc = "get") => args = <<>>
        /\ (acc = "set") => Len(args) = 1
        /\ outcome = "pending"
Entry == {e \in Table : e.recv = recv /\ e.acc = acc /\ e.id = member}
ArgKinds == [j \in 1..Len(args) |-> Pool[args[j]]]
Invoke == /\ outcome = "pending"
          /\ outcome' = IF Entry = {} THEN "error"
                        ELSE IF \E e \in Entry : Match(e, ArgKinds) THEN "value-or-error" ELSE "error"
          /\ UNCHANGED <<recv, acc, member, args>>
Next == Invoke
OutcomeDefined == outcome \in {"pending", "error", "value-or-error"}
TableWellFormed == \A e \in Table : e.val \in {"none", "exact", "least", "all"} /\ (e.val = "all" => Len(e.pat) = 1)
Emit == outcome # "pending" => PrintT(ToJson([k |-> "inv", recv |-> recv, acc |-> acc, m |-> member, args |-> args, out |-> outcome]))
EmitTable == PrintT(ToJson([k |-> "table", t |-> {[recv |-> e.recv, acc |-> e.acc, id |-> e.id] : e \in Table}]))
ASSUME EmitTable /\ MatchTotal /\ TableWellFormed
=============================================================================
