CONSTANTS
  MaxLen = 5
  Alphabet = {"ql1","qr1","ql2","qr2","bt","CR","LF","B","K","x"}
  Mode = "roundtrip"
  Openers = {"ql1","ql2","ql3"}
SPECIFICATION Spec
INVARIANTS RoundTrip DepthPositive Emit
PROPERTY Progress
CHECK_DEADLOCK FALSE
