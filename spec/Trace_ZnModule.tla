---------------------------- MODULE Trace_ZnModule ----------------------------
(* Trace validation for C15: event logs recorded from the REAL loader (H2 hook: script-frame pushes / pops of the VM, the body
   markers the module files display, the final outcome) must be behaviours of the load machine ZnModule.
     reset edges main     a new recorded run: the import digraph and the main file's import list
     begin m              a script frame for module m was pushed (m = "main": the program itself)   = Import that starts loading m
     body m               the body of m ran                                                         = RunBody
     end m                the script frame of m was popped (the module is loaded)                   (no step of its own: EndLoad is part of RunBody)
     result r             how the run ended: done | circular | missing                              = the Import step that fails, or nothing
   An import of a module that is ALREADY loaded produces no event: it is the silent step Skip (l unchanged).  Because of the
   silent steps acceptance is a high-water mark (TLCSet register 1, -workers 1).  The loader invariants are evaluated after
   every event. *)
EXTENDS ZnModule, TLCExt
Tr == ndJsonDeserialize("trace.ndjson")
VARIABLE l
tvars == <<edges, mainImp, stack, loaded, trace, res, l>>
TraceInit == /\ edges = {} /\ mainImp = <<"a">> /\ stack = << [m |-> "main", next |-> 1] >> /\ loaded = {} /\ trace = <<>> /\ res = "run" /\ l = 1
Skip == /\ l' = l /\ Import /\ Len(stack') = Len(stack) /\ res' = "run" /\ stack' # stack
TReset(e) == /\ edges' = {e.edges[k] : k \in 1..Len(e.edges)} /\ mainImp' = e.main
             /\ stack' = << [m |-> "main", next |-> 1] >> /\ loaded' = {} /\ trace' = <<>> /\ res' = "run"
TBegin(e) == IF e.m = "main" THEN Len(stack) = 1 /\ trace = <<>> /\ res = "run" /\ UNCHANGED vars
             ELSE Import /\ Len(stack') = Len(stack) + 1 /\ stack'[Len(stack')].m = e.m
TBody(e) == RunBody /\ trace'[Len(trace')] = e.m
TEnd(e) == /\ IF e.m = "main" THEN res = "done" ELSE (e.m \in loaded /\ e.m \notin Loading)
           /\ UNCHANGED vars
TResult(e) == IF e.r = "done" THEN res = "done" /\ UNCHANGED vars
              ELSE Import /\ res' = e.r
Logged == /\ l <= Len(Tr) /\ l' = l + 1
          /\ LET e == Tr[l] IN
             CASE e.e = "reset" -> TReset(e)
               [] e.e = "begin" -> TBegin(e)
               [] e.e = "body" -> TBody(e)
               [] e.e = "end" -> TEnd(e)
               [] e.e = "result" -> TResult(e)
TraceNext == Logged \/ Skip
TraceSpec == TraceInit /\ [][TraceNext]_tvars
ASSUME TLCSet(1, 0)
Mark == TLCSet(1, IF TLCGet(1) < l THEN l ELSE TLCGet(1))
TraceAccepted == IF TLCGet(1) = Len(Tr) + 1 THEN TRUE ELSE PrintT(<<"rejected-at-line", TLCGet(1)>>) /\ FALSE
=============================================================================
