CONSTANTS
  InitProcs = 2
  MaxProcs = 3
  Batch = 10
  NReq = 1
  NFault = 2
  MaxPid = 7
  Design = "intended"
SPECIFICATION Spec
INVARIANTS TypeOK Bound Bookkeeping RefCountBounded LiveAccounted
PROPERTY TimeoutIsolated Refill
CHECK_DEADLOCK FALSE
