CONSTANTS
  Design = "ascoded"
  Mode = "seq"
  MaxN = 2
  Conc = 2
INIT SInit
NEXT SNext
INVARIANTS Isolation
CHECK_DEADLOCK FALSE
