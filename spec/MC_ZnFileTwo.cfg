CONSTANTS
  Files <- FilesDef
  BS = 2
  Shared = FALSE
INIT Init
NEXT Next
INVARIANTS Refines2
CHECK_DEADLOCK FALSE
