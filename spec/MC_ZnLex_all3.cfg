CONSTANTS
  MaxLen = 3
  Alphabet = {"bu","wei","da","yu","deng","ru","guo","he","jie","shu","xun","huan","de","zhu","L","D","+","-","*","/","%","sp","bt","col","dot","eq","lq","rq"}
SPECIFICATION Spec
INVARIANTS SpansOK Covers Deterministic Emit
PROPERTY Progress
CHECK_DEADLOCK FALSE
