CONSTANTS
  Names = {"a", "b"}
  Globals = {"g"}
  N = 5
  MaxDepth = 3
SPECIFICATION Spec
INVARIANTS NoDuplicate GlobalsNeverBound Emit
PROPERTY Props
CHECK_DEADLOCK FALSE
