------------------------------- MODULE ZnLex -------------------------------
(* C04 (tokenisation) - unspaced text is cut into keywords, names, numbers as documented.

   Characters are symbols; one symbol = one character of the source:
     keyword glyphs  bu 不  wei 为  da 大  yu 于  deng 等  ru 如  guo 果  he 何  jie 结  shu 束  xun 循  huan 环  de 的  zhu 注
                     and the glyphs of the other keywords (ling 令, heng 恒, zai 再, shr 输, chu 出, she 设, xiao 小, yi 以, fou 否, ze 则, mei 每,
                     dang 当, xin 新, jian 建, ding 定, yiy 义, qi 其, huo 或, qie 且, zhi 之, lan 拦, jiey 截, ruy 入, bian 遍, li 历, dao 导, dey 得,
                     daoy 到, pao 抛, ji 继, xu 续)     (all of them are also ordinary identifier characters)
     L  an ordinary letter (CJK / Latin / kana / hangul)     D  a digit
     "+" "-" "*" "/"    "%" remainder sign    sp  space    bt  back-tick    col ：    dot .    eq =    lq “    rq ”
   Documented priority:  comment > text literal > back-ticked identifier > punctuation > operator >
   keyword > identifier.  Keywords are cut out greedily from left to right wherever their characters
   occur (declaratively: at a position the LONGEST entry of the keyword table that is a prefix of the
   rest wins), the remaining runs are identifiers; text between back-ticks is one identifier with no
   keyword extraction; + - * / are operators only when followed by a space, punctuation or quote; % at the start of a
   token is always the remainder operator, after the first character of a name it is part of the name (like . * /).

   The scanner is a state machine: one action per token kind; every action consumes >= 1 character. *)
EXTENDS Integers, Sequences, FiniteSets, TLC, Json

CONSTANTS MaxLen, Alphabet

\* the glyphs the keywords are spelled with (all of them are also ordinary identifier characters)
Glyphs == {"bian", "bu", "chu", "da", "dang", "dao", "daoy", "de", "deng", "dey", "ding", "fou", "guo", "he", "heng", "huan", "huo", "ji", "jian", "jie", "jiey", "lan", "li", "ling", "mei", "pao", "qi", "qie", "ru", "ruy", "she", "shr", "shu", "wei", "xiao", "xin", "xu", "xun", "yi", "yiy", "yu", "zai", "ze", "zhi", "zhu"}
IdStart == Glyphs \cup {"L", "D", "+", "-"}            \* characters of the identifier table
IdCont == IdStart \cup {"dot", "*", "/", "%"}          \* may continue an identifier ( . * / % )
Quotes == {"lq", "rq"}
Puncts == {"col"}
\* the complete keyword table of the manual (34 keywords)
KW == << <<"ling">>, <<"wei">>, <<"heng", "wei">>, <<"zai", "ru">>, <<"ru", "guo">>, <<"ru", "he">>, <<"he", "wei">>, <<"shr", "chu">>, <<"she", "wei">>, <<"bu", "wei">>, <<"bu", "deng", "yu">>, <<"bu", "da", "yu">>, <<"bu", "xiao", "yu">>, <<"xiao", "yu">>, <<"da", "yu">>, <<"yi">>, <<"fou", "ze">>, <<"mei", "dang">>, <<"xin", "jian">>, <<"ding", "yiy">>, <<"qi">>, <<"huo">>, <<"qie">>, <<"zhi">>, <<"de">>, <<"lan", "jiey">>, <<"deng", "yu">>, <<"shr", "ruy">>, <<"bian", "li">>, <<"dao", "ruy">>, <<"dey", "daoy">>, <<"pao", "chu">>, <<"ji", "xu", "xun", "huan">>, <<"jie", "shu", "xun", "huan">> >>
KWName == << "Declare", "LogicYes", "AssignConst", "CondOther", "Cond", "Func", "Getter", "Return", "Assign", "LogicNo", "LogicNotEq", "LogicLte", "LogicGte", "LogicLt", "LogicGt", "VarOne", "CondElse", "WhileLoop", "ObjNew", "ObjDefine", "ObjThis", "LogicOr", "LogicAnd", "ObjDot", "ObjDotII", "CatchError", "LogicEqual", "Input", "Iterator", "Import", "GetResult", "ThrowError", "Continue", "Break" >>
\* keyword atoms: "K7" stands for the glyphs of the 7th keyword (configurations that enumerate texts keyword by keyword)
KAtomIdx(sym) == LET M == {k \in 1..Len(KW) : sym = "K" \o ToString(k)} IN IF M = {} THEN 0 ELSE CHOOSE k \in M : TRUE
RECURSIVE Flatten(_)
Flatten(s) == IF s = <<>> THEN <<>> ELSE (IF KAtomIdx(s[1]) > 0 THEN KW[KAtomIdx(s[1])] ELSE <<s[1]>>) \o Flatten(Tail(s))

VARIABLES src, p, toks, st, soft
vars == <<src, p, toks, st, soft>>

N == Len(src)
At(i) == IF i >= 1 /\ i <= N THEN src[i] ELSE "EOF"
IsPrefixAt(w, i) == /\ i + Len(w) - 1 <= N
                    /\ \A j \in 1..Len(w) : src[i + j - 1] = w[j]
\* index of the longest keyword that is a prefix of the text at i (0 = none)
KwAt(i) == LET M == {k \in 1..Len(KW) : IsPrefixAt(KW[k], i)}
           IN IF M = {} THEN 0 ELSE CHOOSE k \in M : \A j \in M : Len(KW[j]) <= Len(KW[k])

RECURSIVE StrUpTo(_)
StrUpTo(n) == IF n = 0 THEN {<<>>} ELSE LET S == StrUpTo(n - 1) IN S \cup {Append(t, c) : t \in {u \in S : Len(u) = n - 1}, c \in Alphabet}

Init == /\ \E a \in StrUpTo(MaxLen) \ {<<>>} : src = Flatten(a)
        /\ p = 1 /\ toks = <<>> /\ st = "run"
        /\ soft = (src[1] = "sp")          \* leading blanks are INDENTATION (C03/C05), not token separation

Tok(k, a, b) == [k |-> k, a |-> a - 1, b |-> b - 1]       \* 0-based [a, b) like the lexer's StartIdx / EndIdx
Emit1(k, a, b) == toks' = Append(toks, Tok(k, a, b)) /\ p' = b
Fail == st' = "err" /\ UNCHANGED <<p, toks>>

SkipSpace == /\ At(p) = "sp" /\ p' = p + 1 /\ UNCHANGED <<toks, st, soft>>
AtEnd == /\ p = N + 1 /\ st' = "done" /\ UNCHANGED <<p, toks, soft>>

(* ---- comments: 注[digits]： ...   // ...   /* ... */   (no line breaks in this alphabet) ---- *)
RECURSIVE SkipDigits(_)
SkipDigits(i) == IF At(i) = "D" THEN SkipDigits(i + 1) ELSE i
ZhuComment == At(p) = "zhu" /\ At(SkipDigits(p + 1)) = "col"
\* end of a 注：“ ... ” comment: position after the quote that closes nesting level 0, or N+1
RECURSIVE QuoteEnd(_, _)
QuoteEnd(i, depth) == IF i > N THEN N + 1
                      ELSE IF src[i] = "lq" THEN QuoteEnd(i + 1, depth + 1)
                      ELSE IF src[i] = "rq" THEN (IF depth = 1 THEN i + 1 ELSE QuoteEnd(i + 1, depth - 1))
                      ELSE QuoteEnd(i + 1, depth)
RECURSIVE BlockEnd(_)
BlockEnd(i) == IF i > N THEN N + 1 ELSE IF src[i] = "*" /\ At(i + 1) = "/" THEN i + 2 ELSE BlockEnd(i + 1)
IsComment == ZhuComment \/ (At(p) = "/" /\ At(p + 1) \in {"/", "*"})
ScanComment ==
  /\ IsComment
  /\ LET e == IF At(p) = "zhu"
              THEN (LET c == SkipDigits(p + 1) IN IF At(c + 1) = "lq" THEN QuoteEnd(c + 2, 1) ELSE N + 1)
              ELSE IF At(p + 1) = "/" THEN N + 1 ELSE BlockEnd(p + 2)
     IN Emit1("comment", p, e)
  /\ UNCHANGED <<st, soft>>

(* ---- text literal ---- *)
HasBacktick(a, b) == \E i \in a..b : At(i) = "bt"
RECURSIVE Closed(_, _)
Closed(i, depth) == IF i > N THEN 0
                    ELSE IF src[i] = "lq" THEN Closed(i + 1, depth + 1)
                    ELSE IF src[i] = "rq" THEN (IF depth = 1 THEN i + 1 ELSE Closed(i + 1, depth - 1))
                    ELSE Closed(i + 1, depth)
ScanString ==
  /\ ~IsComment /\ At(p) = "lq"
  /\ LET e == Closed(p + 1, 1) IN
     IF e = 0 THEN Fail /\ soft' = (soft \/ HasBacktick(p, N))                 \* unterminated literal: syntax error
     ELSE Emit1("str", p, e) /\ UNCHANGED st /\ soft' = (soft \/ HasBacktick(p, e))   \* escapes are C13's subject
(* ---- back-ticked identifier: everything up to the next back-tick, no keyword extraction ---- *)
RECURSIVE NextBt(_)
NextBt(i) == IF i > N THEN 0 ELSE IF src[i] = "bt" THEN i ELSE NextBt(i + 1)
ScanVarQuote ==
  /\ ~IsComment /\ At(p) = "bt"
  /\ LET e == NextBt(p + 1) IN
     IF e = 0 \/ \E i \in p + 1..e - 1 : src[i] \notin IdCont THEN Fail /\ UNCHANGED soft
     ELSE Emit1("id", p, e + 1) /\ UNCHANGED <<st, soft>>
ScanPunct == /\ ~IsComment /\ At(p) \in Puncts /\ Emit1("punct", p, p + 1) /\ UNCHANGED <<st, soft>>

(* ---- operators ---- *)
OpFollow(c) == c \in {"sp"} \cup Puncts \cup Quotes
IsOp == \/ At(p) = "eq" \/ At(p) = "%"
        \/ (At(p) = "/" /\ At(p + 1) = "eq")
        \/ (At(p) \in {"+", "-", "*", "/"} /\ OpFollow(At(p + 1)))
ScanOp == /\ ~IsComment /\ IsOp
          /\ IF At(p) = "eq" THEN (IF At(p + 1) = "eq" THEN Emit1("op==", p, p + 2) ELSE Emit1("op=", p, p + 1))
             ELSE IF At(p) = "/" /\ At(p + 1) = "eq" THEN Emit1("op/=", p, p + 2)
             ELSE Emit1("op" \o At(p), p, p + 1)
          /\ UNCHANGED <<st, soft>>

(* ---- keyword ---- *)
Plain == ~IsComment /\ At(p) \notin {"sp", "lq", "bt", "EOF"} \cup Puncts /\ ~IsOp
ScanKeyword == /\ Plain /\ KwAt(p) > 0
               /\ Emit1("kw" \o KWName[KwAt(p)], p, p + Len(KW[KwAt(p)]))
               /\ UNCHANGED <<st, soft>>

(* ---- identifier: the run up to the next space / keyword / comment start / mark ---- *)
RECURSIVE IdEnd(_)
\* returns the index after the identifier, or 0 for an invalid character, or -1 for a not-demanded context
IdEnd(i) ==
  LET c == At(i) IN
  IF c \in {"EOF", "sp", "col", "eq"} THEN i
  ELSE IF KwAt(i) > 0 THEN i
  ELSE IF c = "/" /\ At(i + 1) \in {"/", "*", "eq"} THEN i
  ELSE IF c \in IdCont THEN IdEnd(i + 1)
  ELSE IF c \in Quotes \cup {"bt"} THEN -1        \* quote / back-tick glued to a name: the manual is silent
  ELSE 0
ScanIdent ==
  /\ Plain /\ KwAt(p) = 0
  /\ IF At(p) \notin IdStart THEN Fail /\ UNCHANGED soft                    \* * / . cannot start an identifier
     ELSE LET e == IdEnd(p + 1) IN
          IF e = -1 THEN Fail /\ soft' = TRUE
          ELSE IF e = 0 THEN Fail /\ UNCHANGED soft
          ELSE IF At(e - 1) = "/" THEN Fail /\ UNCHANGED soft                \* / cannot end an identifier
          ELSE Emit1("id", p, e) /\ UNCHANGED <<st, soft>>

Step == /\ st = "run"
        /\ \/ SkipSpace \/ AtEnd \/ ScanComment \/ ScanString \/ ScanVarQuote \/ ScanPunct \/ ScanOp \/ ScanKeyword \/ ScanIdent
        /\ UNCHANGED src
Next == Step

(* ---- properties ---- *)
\* every step consumes at least one character (or ends the scan)
Progress == [][st = "run" => (p' > p \/ st' # "run")]_vars
\* token spans are increasing, non-empty and inside the text
SpansOK == /\ \A j \in 1..Len(toks) : toks[j].a < toks[j].b /\ toks[j].b <= N
           /\ \A j \in 1..Len(toks) - 1 : toks[j].b <= toks[j + 1].a
\* everything that is not a space lies inside some token once the scan is done
Covers == st = "done" => \A i \in 1..N : src[i] # "sp" => \E j \in 1..Len(toks) : toks[j].a < i /\ i <= toks[j].b
\* the actions are mutually exclusive: the scanner is deterministic
Deterministic == st = "run" => Cardinality({x \in 1..9 :
     CASE x = 1 -> At(p) = "sp" [] x = 2 -> p = N + 1 [] x = 3 -> IsComment /\ p <= N
       [] x = 4 -> ~IsComment /\ At(p) = "lq" [] x = 5 -> ~IsComment /\ At(p) = "bt" [] x = 6 -> ~IsComment /\ At(p) \in Puncts
       [] x = 7 -> ~IsComment /\ IsOp [] x = 8 -> Plain /\ KwAt(p) > 0 [] x = 9 -> Plain /\ KwAt(p) = 0}) = 1
Emit == st # "run" => PrintT(ToJson([k |-> "lex", s |-> src, ok |-> (st = "done"), soft |-> soft, toks |-> toks]))
Spec == Init /\ [][Next]_vars
=============================================================================
