CONSTANTS
  Family = "R"
  NRandom = 30000
  RDepth = 4
INIT Init
NEXT Next
INVARIANTS AgreesWithReference ErrNeverValue LoweringAgrees ProbeOnce StackShape Emit
CHECK_DEADLOCK FALSE
