CONSTANTS
  MaxLen = 4
  BlockSizes = {1, 2, 3, 4, 5}
  EmitBS = 1
INIT Init
NEXT Next
INVARIANTS TypeOK Refines NeverAltered CarryIsTail ConcatLemma Emit
CHECK_DEADLOCK FALSE
