CONSTANTS
  MaxLen = 3
  Alphabet = {"L", "sp", "K1", "K2", "K3", "K4", "K5", "K6", "K7", "K8", "K9", "K10", "K11", "K12", "K13", "K14", "K15", "K16", "K17", "K18", "K19", "K20", "K21", "K22", "K23", "K24", "K25", "K26", "K27", "K28", "K29", "K30", "K31", "K32", "K33", "K34"}
SPECIFICATION Spec
INVARIANTS SpansOK Covers Deterministic Emit
PROPERTY Progress
CHECK_DEADLOCK FALSE
