------------------------------- MODULE ZnPrefork -------------------------------
(* C20 - the prefork master keeps the worker pool within its bounds.

   One action per critical section of pkg/server/pm_server.go:
     SpawnStart(s)     a spawn loop starts a child process (cmd.Start)            -> the child is LIVE
     MasterRecvAdd(s)  maintainChildState RECEIVES the registration (unbuffered addChan: the rendezvous releases the
                       spawn loop, which may start its next child at once)        -> got
     MasterAdd         ... and processes it (no other master step in between)     -> childs, refCount
     WorkerAccept(p,r) a live idle worker accepts request r and reports BUSY      -> pipe
     WorkerDone(p)     the worker finishes and reports IDLE                       -> pipe
     WorkerTimeout(p)  the request outlives --timeout: reports STOPPED and exits  -> pipe, live, waits
     WorkerCrash(p)    a worker dies                                              -> live, waits
     MasterUpdate      maintainChildState receives the next state report (FIFO pipe, updateChan): updates
                       the child's state and, when NO registered child is idle, RESERVES
                       min(refCount + Batch, Max) - refCount more and starts an asynchronous spawn loop
     MasterDel(p)      maintainChildState receives a child's exit (delChan): forgets it, and refills to
                       InitProcs with another asynchronous spawn loop
   Spawn loops are asynchronous: a loop has `left` children still to start and at most one child
   `pending` (started but not yet registered - spawnProcess blocks on the unbuffered addChan).

   Design "intended":  refCount = registered + reserved.  The initial children are reserved before they
                       are spawned, and a registration does not touch refCount.
   Design "lostexit":  (named deviation) as "intended", but the goroutine that reaps a child does not WAIT for the master to
                       take the exit notification: when the master is busy the notification is dropped (action ExitLost).
                       TLC must refute Refill for it.
   Design "ascoded":   (named deviation = the original code)  refCount starts at 0 and every registration
                       OVERWRITES it with len(childs), losing reservations that are still in flight. *)
EXTENDS Integers, Sequences, FiniteSets, TLC, Json

CONSTANTS InitProcs, MaxProcs, Batch, NReq, NFault, MaxPid, Design

Pids == 1..MaxPid
States == {"IDLE", "BUSY", "STOPPED"}

VARIABLES live,       \* processes started and not exited (ground truth)
          childs,     \* master's table: function from registered pids to their last reported state
          refCount,
          loops,      \* sequence of spawn loops [left, pending]
          pipe,       \* FIFO of state reports [pid, st]
          waits,      \* exited registered pids whose exit has not been received yet
          armed,      \* pids whose Wait goroutine is running (registered)
          wst,        \* worker's own state: function pid -> "idle" | "busy" | "hung"
          nextPid, reqs, faults,
          got         \* the registration the master has received and not yet processed (0 = none)
vars == <<live, childs, refCount, loops, pipe, waits, armed, wst, nextPid, reqs, faults, got>>

Loop(n) == [left |-> n, pending |-> 0]
Init == /\ live = {} /\ childs = <<>> /\ pipe = <<>> /\ waits = {} /\ armed = {} /\ wst = <<>>
        /\ refCount = IF Design # "ascoded" THEN InitProcs ELSE 0
        /\ loops = << Loop(InitProcs) >>
        /\ nextPid = 1 /\ reqs = 0 /\ faults = 0 /\ got = 0

Registered == DOMAIN childs
Exit(p) == /\ live' = live \ {p}
           /\ waits' = IF p \in armed THEN waits \cup {p} ELSE waits

\* (the actions are parameterised by the value of `loops` they start from, so that the trace spec can compose
\*  the unlogged receive step with the logged step that follows it)
AfterRecv(s) == [loops EXCEPT ![s].pending = 0, ![s].left = @ - 1]
SpawnStartL(L, s) ==
  /\ L[s].left > 0 /\ L[s].pending = 0 /\ nextPid <= MaxPid
  /\ live' = live \cup {nextPid}
  /\ wst' = [p \in DOMAIN wst \cup {nextPid} |-> IF p = nextPid THEN "idle" ELSE wst[p]]
  /\ loops' = [L EXCEPT ![s].pending = nextPid]
  /\ nextPid' = nextPid + 1
  /\ UNCHANGED <<childs, refCount, pipe, waits, armed, reqs, faults>>
SpawnStart(s) == SpawnStartL(loops, s) /\ UNCHANGED got

MasterRecvAdd(s) ==
  /\ got = 0 /\ loops[s].pending # 0
  /\ got' = loops[s].pending
  /\ loops' = AfterRecv(s)
  /\ UNCHANGED <<live, childs, refCount, pipe, waits, armed, wst, nextPid, reqs, faults>>
AddEffect(p) ==
  /\ childs' = [q \in Registered \cup {p} |-> IF q = p THEN "IDLE" ELSE childs[q]]
  /\ refCount' = IF Design # "ascoded" THEN refCount ELSE Cardinality(Registered \cup {p})
  /\ armed' = armed \cup {p}
  /\ waits' = IF p \notin live THEN waits \cup {p} ELSE waits       \* it died before it was registered
  /\ UNCHANGED <<live, pipe, wst, nextPid, reqs, faults>>
MasterAdd == got # 0 /\ AddEffect(got) /\ got' = 0 /\ UNCHANGED loops
\* compositions (receive immediately followed by the next step) - used by the history module and the trace spec
RecvThenAdd(s) == got = 0 /\ loops[s].pending # 0 /\ AddEffect(loops[s].pending) /\ loops' = AfterRecv(s) /\ got' = 0
RecvThenStart(s) == got = 0 /\ loops[s].pending # 0 /\ SpawnStartL(AfterRecv(s), s) /\ got' = loops[s].pending

WorkerAccept(p) ==
  /\ p \in live /\ wst[p] = "idle" /\ reqs < NReq
  /\ \E kind \in {"busy", "hung"} :
       /\ (kind = "hung") => faults < NFault
       /\ wst' = [wst EXCEPT ![p] = kind]
       /\ faults' = IF kind = "hung" THEN faults + 1 ELSE faults
  /\ pipe' = Append(pipe, [pid |-> p, st |-> "BUSY"])
  /\ reqs' = reqs + 1
  /\ UNCHANGED <<live, childs, refCount, loops, waits, armed, nextPid, got>>
WorkerDone(p) ==
  /\ p \in live /\ wst[p] = "busy"
  /\ wst' = [wst EXCEPT ![p] = "idle"]
  /\ pipe' = Append(pipe, [pid |-> p, st |-> "IDLE"])
  /\ UNCHANGED <<live, childs, refCount, loops, waits, armed, nextPid, reqs, faults, got>>
WorkerTimeout(p) ==
  /\ p \in live /\ wst[p] = "hung"
  /\ pipe' = Append(pipe, [pid |-> p, st |-> "STOPPED"])
  /\ Exit(p)
  /\ UNCHANGED <<childs, refCount, loops, armed, wst, nextPid, reqs, faults, got>>
WorkerCrash(p) ==
  /\ p \in live /\ faults < NFault
  /\ faults' = faults + 1
  /\ Exit(p)
  /\ UNCHANGED <<childs, refCount, loops, pipe, armed, wst, nextPid, reqs, got>>

HasIdle(c) == \E q \in DOMAIN c : c[q] = "IDLE"
Min(a, b) == IF a < b THEN a ELSE b
MasterUpdate ==
  /\ got = 0 /\ pipe # <<>>
  /\ LET u == Head(pipe)
         c2 == IF u.pid \in Registered THEN [childs EXCEPT ![u.pid] = u.st] ELSE childs
     IN /\ childs' = c2
        /\ pipe' = Tail(pipe)
        /\ IF HasIdle(c2) THEN UNCHANGED <<refCount, loops>>
           ELSE LET final == Min(refCount + Batch, MaxProcs)
                    add == final - refCount
                IN /\ refCount' = final
                   /\ loops' = IF add > 0 THEN Append(loops, Loop(add)) ELSE loops
  /\ UNCHANGED <<live, waits, armed, wst, nextPid, reqs, faults, got>>
MasterDel(p) ==
  /\ got = 0 /\ p \in waits
  /\ waits' = waits \ {p}
  /\ childs' = [q \in Registered \ {p} |-> childs[q]]
  /\ LET rc == refCount - 1 IN
     IF rc < InitProcs THEN /\ refCount' = InitProcs
                            /\ loops' = Append(loops, Loop(InitProcs - rc))
     ELSE refCount' = rc /\ UNCHANGED loops
  /\ UNCHANGED <<live, pipe, armed, wst, nextPid, reqs, faults, got>>

\* deviation "lostexit": an exit notification that nobody waits to deliver
ExitLost(p) == /\ Design = "lostexit" /\ p \in waits
               /\ waits' = waits \ {p}
               /\ UNCHANGED <<live, childs, refCount, loops, pipe, armed, wst, nextPid, reqs, faults, got>>

MasterStep == (\E s \in 1..Len(loops) : MasterRecvAdd(s)) \/ MasterAdd \/ MasterUpdate \/ (\E p \in Pids : MasterDel(p))
SpawnStep == \E s \in 1..Len(loops) : SpawnStart(s)
WorkerStep == \E p \in Pids : WorkerAccept(p) \/ WorkerDone(p) \/ WorkerTimeout(p) \/ WorkerCrash(p)
Next == MasterStep \/ SpawnStep \/ WorkerStep \/ (\E p \in Pids : ExitLost(p))
Spec == Init /\ [][Next]_vars /\ WF_vars(MasterStep) /\ WF_vars(SpawnStep)
             /\ \A p \in Pids : WF_vars(WorkerDone(p)) /\ WF_vars(WorkerTimeout(p))

(* ---- properties ---- *)
Bound == Cardinality(live) <= MaxProcs
Reserved == LET RECURSIVE Sum(_) Sum(k) == IF k = 0 THEN 0 ELSE loops[k].left + Sum(k - 1) IN Sum(Len(loops))
\* intended bookkeeping: refCount = registered + still to be registered (+ the registration being processed)
Bookkeeping == Design # "ascoded" => refCount = Cardinality(Registered) + Reserved + (IF got # 0 THEN 1 ELSE 0)
RefCountBounded == Design # "ascoded" => (refCount <= MaxProcs /\ refCount >= 0)
LiveAccounted == Design # "ascoded" => Cardinality(live) <= refCount
TypeOK == /\ live \subseteq Pids /\ waits \subseteq Pids /\ \A q \in Registered : childs[q] \in States
\* once requests and faults are used up, the pool returns to at least InitProcs live workers
Quiet == reqs = NReq /\ faults = NFault
Refill == <>[](Cardinality(live) >= InitProcs)
\* a hung worker's timeout changes no other worker's request (state of every other worker is untouched)
TimeoutIsolated == [][\A p \in Pids : (p \in live /\ wst[p] = "hung" /\ p \notin live') => (\A q \in DOMAIN wst \ {p} : wst'[q] = wst[q])]_vars
PidBound == nextPid <= MaxPid + 1
=============================================================================
