CONSTANTS
  Exported = {"m", "h", "t"}
  Others = {"p", "x"}
  MaxLen = 4
  MaxLen2 = 2
INIT Init
NEXT Next
INVARIANTS VisibleExact NeverOthers Emit
CHECK_DEADLOCK FALSE
