CONSTANTS
  DirLen = 5
  MaxLen = 5
INIT Init
NEXT Next
INVARIANTS Verbatim Emit
CHECK_DEADLOCK FALSE
