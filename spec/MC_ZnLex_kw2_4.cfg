CONSTANTS
  MaxLen = 4
  Alphabet = {"ru","guo","he","wei","jie","shu","xun","huan","de","L"}
SPECIFICATION Spec
INVARIANTS SpansOK Covers Deterministic Emit
PROPERTY Progress
CHECK_DEADLOCK FALSE
