----------------------------- MODULE MC_ZnGrammar -----------------------------
(* ZnGrammar over the programs of progs.ndjson (driver: grammar-covering families + seeded random programs). *)
EXTENDS ZnGrammar
Progs == ndJsonDeserialize("progs.ndjson")
Init == InitWith({Progs[j] : j \in 1..Len(Progs)})
=============================================================================
