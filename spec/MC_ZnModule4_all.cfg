CONSTANTS
  Mods = {"a", "b", "c", "e"}
  Missing = {}
  MainOrders <- Orders4
  NRandom = 0
INIT Init
NEXT Next
INVARIANTS BodyAtMostOnce ImportsBeforeBody CycleIffError NoErrorLoadsAllReachable Emit
CHECK_DEADLOCK FALSE
