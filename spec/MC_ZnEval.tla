----------------------------- MODULE MC_ZnEval -----------------------------
(* Model-checking / vector-generation instance of ZnEval: the programs are data read from
   progs.ndjson (written by the driver: exhaustive template families and seeded random programs). *)
EXTENDS ZnEval
Progs == ndJsonDeserialize("progs.ndjson")
Init == InitWith({Progs[j] : j \in 1..Len(Progs)})
=============================================================================
