---------------------------- MODULE ZnFileTwo ----------------------------
(* C17 under concurrency: two loads in flight at the same time (two requests of the HTTP server, each decoding its own
   source).  Each load is the chunked decoder of ZnFile, split into the two steps the code performs - Fill (the read
   system call puts the next block into a buffer) and Take (the buffer is decoded) - so that TLC interleaves them.
   Intended design: every load has its OWN block buffer; each load then refines the one-shot decoder of ITS file.
   Named deviation Shared = TRUE: one block buffer for the whole process ("reading a block does not allocate") - TLC
   must REFUTE Refines2 for it (the registered check fails with "model is vacuous" otherwise). *)
EXTENDS Integers, Sequences, FiniteSets, TLC
CONSTANTS Files, BS, Shared
Z == INSTANCE ZnFile WITH MaxLen <- 0, BlockSizes <- {BS}, EmitBS <- 0,
                          file <- <<>>, bs <- BS, pos <- 0, carry <- <<>>, out <- <<>>, st <- "run", started <- FALSE
VARIABLES f,       \* f[d]: the file load d decodes
          pos, carry, out, st, started,    \* per load, as in ZnFile
          buf,     \* buf[d]: the block buffer load d uses (buf[1] only when Shared)
          full     \* full[d]: load d has filled its buffer and not yet taken it
vars == <<f, pos, carry, out, st, started, buf, full>>
D == {1, 2}
B(d) == IF Shared THEN 1 ELSE d
Init == /\ f \in [D -> Files]
        /\ pos = [d \in D |-> 0] /\ carry = [d \in D |-> <<>>] /\ out = [d \in D |-> <<>>]
        /\ st = [d \in D |-> "run"] /\ started = [d \in D |-> FALSE]
        /\ buf = [d \in D |-> <<>>] /\ full = [d \in D |-> FALSE]
Min(a, b) == IF a < b THEN a ELSE b
Fill(d) == /\ st[d] = "run" /\ ~full[d]
           /\ LET hi == Min(pos[d] + BS, Len(f[d])) IN
              /\ buf' = [buf EXCEPT ![B(d)] = SubSeq(f[d], pos[d] + 1, hi)]
              /\ pos' = [pos EXCEPT ![d] = hi]
           /\ full' = [full EXCEPT ![d] = TRUE]
           /\ UNCHANGED <<f, carry, out, st, started>>
Take(d) == /\ st[d] = "run" /\ full[d]
           /\ LET chunk == buf[B(d)]
                  eof == chunk = <<>>
                  dd == Z!DecBuf(carry[d] \o chunk)
                  cs == IF ~started[d] /\ dd.chars # <<>> /\ dd.chars[1] = Z!BOM THEN Tail(dd.chars) ELSE dd.chars
              IN IF dd.bad THEN (st' = [st EXCEPT ![d] = "err"] /\ UNCHANGED <<carry, out, started>>)
                 ELSE IF eof THEN (st' = [st EXCEPT ![d] = (IF dd.rest # <<>> THEN "err" ELSE "done")] /\ UNCHANGED <<carry, out, started>>)
                 ELSE (/\ out' = [out EXCEPT ![d] = @ \o cs] /\ carry' = [carry EXCEPT ![d] = dd.rest]
                       /\ started' = [started EXCEPT ![d] = (@ \/ dd.chars # <<>>)] /\ UNCHANGED st)
           /\ full' = [full EXCEPT ![d] = FALSE]
           /\ UNCHANGED <<f, pos, buf>>
Next == \E d \in D : Fill(d) \/ Take(d)
\* each load decodes ITS file, whatever the other one does
Refines2 == \A d \in D : /\ (st[d] = "done" => (Z!Decode1(f[d]) # Z!Invalid /\ out[d] = Z!Decode1(f[d])))
                          /\ (st[d] = "err" => Z!Decode1(f[d]) = Z!Invalid)
=============================================================================
