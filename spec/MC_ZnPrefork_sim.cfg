CONSTANTS
  InitProcs = 1
  MaxProcs = 3
  Batch = 10
  NReq = 4
  NFault = 1
  MaxPid = 8
  Design = "intended"
INIT HInit
NEXT HNext
INVARIANTS TypeOK Bound Bookkeeping EmitSched
CHECK_DEADLOCK FALSE
