INIT DInit
NEXT DNext
INVARIANTS OrderIrrelevant DEmit
CHECK_DEADLOCK FALSE
