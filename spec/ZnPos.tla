------------------------------- MODULE ZnPos -------------------------------
(* C18 (syntax part) / C05: where a syntax error is reported.

   A source text is a sequence of character classes
       "a"  a narrow identifier character (display width 1)
       "W"  a wide (CJK) identifier character (display width 2)
       "LF" "CR"  line terminators - LF, CR, CRLF and LFCR each end ONE physical line
       "X"  the single offending character (not part of any token)
   The scanner position machine walks the text; when it reaches X the report must name the
   physical line of X (1-based) and put the column marker under X: marker offset = sum of the
   display widths of the characters before X on that line. *)
EXTENDS Integers, Sequences, FiniteSets, TLC, Json

CONSTANTS MaxLen
Cls == {"a", "W", "LF", "CR", "X"}

RECURSIVE Texts(_)
Texts(n) == IF n = 0 THEN {<<>>} ELSE LET S == Texts(n - 1) IN S \cup {Append(t, c) : t \in {u \in S : Len(u) = n - 1}, c \in Cls}
CountX(t) == Cardinality({j \in 1..Len(t) : t[j] = "X"})
\* texts the front end can reach X in: every line before X is a non-empty identifier (a statement),
\* exactly one X
IsTerm(c) == c \in {"LF", "CR"}
Width(c) == IF c = "W" THEN 2 ELSE 1

VARIABLES text, pos, line, col, pendingTerm, done
vars == <<text, pos, line, col, pendingTerm, done>>

Init == /\ text \in {t \in Texts(MaxLen) : CountX(t) = 1}
        /\ pos = 1 /\ line = 1 /\ col = 0 /\ pendingTerm = "" /\ done = FALSE

\* one character per step
Step == /\ ~done
        /\ LET c == text[pos] IN
           IF c = "X" THEN done' = TRUE /\ UNCHANGED <<pos, line, col, pendingTerm>>
           ELSE IF IsTerm(c) THEN
                  \* the second half of CRLF / LFCR belongs to the same line end
                  IF pendingTerm # "" /\ pendingTerm # c
                  THEN pendingTerm' = "" /\ pos' = pos + 1 /\ UNCHANGED <<line, col, done>>
                  ELSE pendingTerm' = c /\ line' = line + 1 /\ col' = 0 /\ pos' = pos + 1 /\ UNCHANGED done
           ELSE pendingTerm' = "" /\ col' = col + Width(c) /\ pos' = pos + 1 /\ UNCHANGED <<line, done>>
        /\ UNCHANGED text
Next == Step

\* independent characterisation of the line number: 1 + number of line ends before X, where a line
\* end is a maximal pairing LF CR / CR LF or a single terminator
RECURSIVE LineEnds(_, _)
LineEnds(t, j) == IF j > Len(t) \/ t[j] = "X" THEN 0
                  ELSE IF IsTerm(t[j]) THEN
                         IF j + 1 <= Len(t) /\ IsTerm(t[j + 1]) /\ t[j + 1] # t[j] THEN 1 + LineEnds(t, j + 2)
                         ELSE 1 + LineEnds(t, j + 1)
                  ELSE LineEnds(t, j + 1)
LineAgrees == done => line = 1 + LineEnds(text, 1)
TypeOK == pos \in 1..Len(text) /\ line >= 1 /\ col >= 0

\* the quoted line: from after the last terminator before X up to the next terminator
LineStart == LET T == {j \in 1..pos - 1 : IsTerm(text[j])} IN IF T = {} THEN 1 ELSE 1 + CHOOSE j \in T : \A q \in T : q <= j
LineStop == LET T == {j \in pos + 1..Len(text) : IsTerm(text[j])} IN IF T = {} THEN Len(text) ELSE (CHOOSE j \in T : \A q \in T : j <= q) - 1
Emit == done => PrintT(ToJson([k |-> "pos", t |-> text, line |-> line, col |-> col,
                               quoted |-> SubSeq(text, LineStart, LineStop)]))
=============================================================================
