------------------------------- MODULE ZnPos -------------------------------
(* C18 (syntax part) / C05: where a syntax error is reported.

   A source text is a sequence of character classes
       "a"  a narrow identifier character (display width 1)
       "W"  a wide (CJK) identifier character (display width 2)
       "LF" "CR"  line terminators - LF, CR, CRLF and LFCR each end ONE physical line
       "X"  the single offending character (not part of any token)
       "S"  a blank of a line's indentation; a text without X has exactly one run of them, at the start of a line,
            whose length is not a multiple of 4: the indentation itself is what offends, the report names THAT
            line, quotes it without its indentation and puts the marker at offset 0
   The scanner position machine walks the text; when it reaches X the report must name the
   physical line of X (1-based) and put the column marker under X: marker offset = sum of the
   display widths of the characters before X on that line. *)
EXTENDS Integers, Sequences, FiniteSets, TLC, Json

CONSTANTS MaxLen
Cls == {"a", "W", "LF", "CR", "X", "S"}

RECURSIVE Texts(_)
Texts(n) == IF n = 0 THEN {<<>>} ELSE LET S == Texts(n - 1) IN S \cup {Append(t, c) : t \in {u \in S : Len(u) = n - 1}, c \in Cls}
CountX(t) == Cardinality({j \in 1..Len(t) : t[j] = "X"})
\* texts the front end can reach X in: every line before X is a non-empty identifier (a statement),
\* exactly one X
IsTerm(c) == c \in {"LF", "CR"}
\* the indentation family: no X, one maximal run of S at a line start, length not a multiple of 4, a name character after it
SIdx(t) == {j \in 1..Len(t) : t[j] = "S"}
BadIndent(t) == /\ CountX(t) = 0 /\ SIdx(t) # {}
                /\ LET lo == CHOOSE j \in SIdx(t) : \A q \in SIdx(t) : j <= q
                       hi == CHOOSE j \in SIdx(t) : \A q \in SIdx(t) : q <= j
                   IN /\ \A j \in lo..hi : t[j] = "S"
                      /\ (lo = 1 \/ IsTerm(t[lo - 1]))
                      /\ (hi - lo + 1) % 4 # 0
                      /\ hi < Len(t) /\ t[hi + 1] \in {"a", "W"}
Width(c) == IF c = "W" THEN 2 ELSE 1

VARIABLES text, pos, line, col, pendingTerm, done
vars == <<text, pos, line, col, pendingTerm, done>>

\* both families built constructively (filtering all texts over six classes is needlessly slow); BadIndent / CountX are
\* kept as the defining predicates and checked on every initial state by FamilyOK
Plain == {"a", "W", "LF", "CR"}
RECURSIVE Base(_)
Base(n) == IF n = 0 THEN {<<>>} ELSE LET S == Base(n - 1) IN S \cup {Append(t, c) : t \in {u \in S : Len(u) = n - 1}, c \in Plain}
Run(k) == [j \in 1..k |-> "S"]
XTexts == UNION {{p \o <<"X">> \o q : q \in Base(MaxLen - 1 - Len(p))} : p \in Base(MaxLen - 1)}
ITexts == UNION {UNION {{p \o Run(k) \o <<c>> \o q : q \in Base(MaxLen - Len(p) - k - 1), c \in {"a", "W"}}
                        : k \in {n \in 1..(MaxLen - Len(p) - 1) : n % 4 # 0}}
                 : p \in {u \in Base(MaxLen - 2) : u = <<>> \/ IsTerm(u[Len(u)])}}
Init == /\ text \in XTexts \cup ITexts
        /\ pos = 1 /\ line = 1 /\ col = 0 /\ pendingTerm = "" /\ done = FALSE

\* one character per step
Step == /\ ~done
        /\ LET c == text[pos] IN
           IF c = "X" \/ c = "S" THEN done' = TRUE /\ UNCHANGED <<pos, line, col, pendingTerm>>
           ELSE IF IsTerm(c) THEN
                  \* the second half of CRLF / LFCR belongs to the same line end
                  IF pendingTerm # "" /\ pendingTerm # c
                  THEN pendingTerm' = "" /\ pos' = pos + 1 /\ UNCHANGED <<line, col, done>>
                  ELSE pendingTerm' = c /\ line' = line + 1 /\ col' = 0 /\ pos' = pos + 1 /\ UNCHANGED done
           ELSE pendingTerm' = "" /\ col' = col + Width(c) /\ pos' = pos + 1 /\ UNCHANGED <<line, done>>
        /\ UNCHANGED text
Next == Step

\* independent characterisation of the line number: 1 + number of line ends before X, where a line
\* end is a maximal pairing LF CR / CR LF or a single terminator
RECURSIVE LineEnds(_, _)
LineEnds(t, j) == IF j > Len(t) \/ t[j] = "X" \/ t[j] = "S" THEN 0
                  ELSE IF IsTerm(t[j]) THEN
                         IF j + 1 <= Len(t) /\ IsTerm(t[j + 1]) /\ t[j + 1] # t[j] THEN 1 + LineEnds(t, j + 2)
                         ELSE 1 + LineEnds(t, j + 1)
                  ELSE LineEnds(t, j + 1)
LineAgrees == done => line = 1 + LineEnds(text, 1)
FamilyOK == (CountX(text) = 1 /\ SIdx(text) = {}) \/ BadIndent(text)
TypeOK == pos \in 1..Len(text) /\ line >= 1 /\ col >= 0

\* the quoted line: from after the last terminator before X up to the next terminator
AfterIndent == CHOOSE j \in pos..Len(text) : text[j] # "S" /\ \A q \in pos..j - 1 : text[q] = "S"
LineStart0 == LET T == {j \in 1..pos - 1 : IsTerm(text[j])} IN IF T = {} THEN 1 ELSE 1 + CHOOSE j \in T : \A q \in T : q <= j
LineStart == IF text[pos] = "S" THEN AfterIndent ELSE LineStart0
LineStop == LET T == {j \in pos + 1..Len(text) : IsTerm(text[j])} IN IF T = {} THEN Len(text) ELSE (CHOOSE j \in T : \A q \in T : j <= q) - 1
Emit == done => PrintT(ToJson([k |-> "pos", t |-> text, line |-> line, col |-> col,
                               quoted |-> SubSeq(text, LineStart, LineStop)]))
=============================================================================
