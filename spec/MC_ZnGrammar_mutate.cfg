CONSTANTS
  MaxDev = 1
  MinBrace = FALSE
  Mutate = TRUE
  Globals = "canon"
INIT Init
NEXT Next
INVARIANTS Emit
CHECK_DEADLOCK FALSE
