CONSTANTS
  MaxDev = 1
  Mutate = TRUE
  Globals = "canon"
INIT Init
NEXT Next
INVARIANTS Emit
CHECK_DEADLOCK FALSE
