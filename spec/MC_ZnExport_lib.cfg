CONSTANTS
  Exported = {"g", "r"}
  Others = {"x"}
  MaxLen = 3
INIT Init
NEXT Next
INVARIANTS VisibleExact NeverOthers OrderIrrelevant Emit
CHECK_DEADLOCK FALSE
