CONSTANTS
  Exported = {"g", "r"}
  Others = {"x"}
  MaxLen = 3
  MaxLen2 = 2
INIT Init
NEXT Next
INVARIANTS VisibleExact NeverOthers OrderIrrelevant Emit
CHECK_DEADLOCK FALSE
