CONSTANTS
  MaxLen = 4
  EmitOneIn = 30
  Explore = FALSE
INIT Init
NEXT Next
INVARIANTS OnlyTheseOutcomes EmitSrc
CHECK_DEADLOCK FALSE
