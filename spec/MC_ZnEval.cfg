INIT Init
NEXT Next
INVARIANTS TypeOK ReturnStops ScopeBalanced NoDuplicateAtDepth HandlerShape Emit
CHECK_DEADLOCK FALSE
