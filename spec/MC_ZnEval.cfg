INIT Init
NEXT Next
INVARIANTS TypeOK ReturnStops ScopeBalanced NoDuplicateAtDepth HandlerShape FreshOnBind Emit
CHECK_DEADLOCK FALSE
