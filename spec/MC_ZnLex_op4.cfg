CONSTANTS
  MaxLen = 4
  Alphabet = {"L","D","+","-","*","/","%","sp","col","eq","zhu"}
SPECIFICATION Spec
INVARIANTS SpansOK Covers Deterministic Emit
PROPERTY Progress
CHECK_DEADLOCK FALSE
