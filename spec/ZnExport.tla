------------------------------- MODULE ZnExport -------------------------------
(* C15, export facet: "exactly the module's methods and types (all, or the listed ones) become available, as
   read-only names".  One or two import statements of ONE module (or registered library) in one file:
       导入“M”                 every exported name (methods and types of M) is declared in the importer, constant
       导入“M”之 n1、n2、…     exactly the listed names that M exports - in whatever ORDER they are written
   The statements are executed name by name (action Declare, one step per listed name); the set of names visible in
   the importer afterwards is compared with the independent set characterisation VisibleExact.  A second statement
   adds its names to those of the first (导入“M”之甲 and later 导入“M”之乙 make both available).
   Not demanded (flagged soft: either an error, or the rest takes effect): names the module does not export (a
   module-level variable, a name that does not exist) in a list; a name imported TWICE (by both statements) - that
   is a redeclaration in today's implementation and the manual is silent. *)
EXTENDS Integers, Sequences, FiniteSets, TLC, Json
CONSTANTS Exported,      \* names of the module's methods and types
          Others,        \* a module-level variable of the module, a name that does not exist
          MaxLen,        \* longest list of a single statement
          MaxLen2        \* longest lists when there are two statements (0 = single statements only)
VARIABLES stmts, si, i, visible, soft
vars == <<stmts, si, i, visible, soft>>
Names == Exported \cup Others
ListsUpTo(n) == {s \in UNION {[1..k -> Names] : k \in 1..n} : \A p, q \in DOMAIN s : p # q => s[p] # s[q]}
All == [mode |-> "all", sel |-> <<>>]
Sel(s) == [mode |-> "sel", sel |-> s]
Stmt1 == {All} \cup {Sel(s) : s \in ListsUpTo(MaxLen)}
Stmt2 == IF MaxLen2 = 0 THEN {} ELSE {All} \cup {Sel(s) : s \in ListsUpTo(MaxLen2)}
Init == /\ stmts \in {<<a>> : a \in Stmt1} \cup {<<a, b>> : a \in Stmt2, b \in Stmt2}
        /\ si = 1 /\ i = 1 /\ visible = {} /\ soft = FALSE
Cur == stmts[si]
\* import everything: one step
DeclareAll == /\ si <= Len(stmts) /\ Cur.mode = "all"
              /\ soft' = (soft \/ visible \cap Exported # {})
              /\ visible' = visible \cup Exported /\ si' = si + 1 /\ i' = 1 /\ UNCHANGED stmts
\* selective import: one listed name per step
Declare == /\ si <= Len(stmts) /\ Cur.mode = "sel" /\ i <= Len(Cur.sel)
           /\ IF Cur.sel[i] \in Exported THEN visible' = visible \cup {Cur.sel[i]} /\ soft' = (soft \/ Cur.sel[i] \in visible)
              ELSE soft' = TRUE /\ UNCHANGED visible
           /\ i' = i + 1 /\ UNCHANGED <<stmts, si>>
NextStmt == /\ si <= Len(stmts) /\ Cur.mode = "sel" /\ i = Len(Cur.sel) + 1
            /\ si' = si + 1 /\ i' = 1 /\ UNCHANGED <<stmts, visible, soft>>
Next == DeclareAll \/ Declare \/ NextStmt
Terminal == si = Len(stmts) + 1
Range(s) == {s[k] : k \in DOMAIN s}
NamesOf(st) == IF st.mode = "all" THEN Exported ELSE Exported \cap Range(st.sel)
\* the property, stated without the machine
VisibleExact == Terminal => visible = UNION {NamesOf(stmts[k]) : k \in 1..Len(stmts)}
NeverOthers == visible \cap Others = {}
OrderIrrelevant == (Terminal /\ Len(stmts) = 1 /\ stmts[1].mode = "sel") => \A t \in ListsUpTo(MaxLen) : Range(t) = Range(stmts[1].sel) => (Exported \cap Range(t)) = visible
Emit == Terminal => PrintT(ToJson([k |-> "exp", stmts |-> stmts, visible |-> visible, soft |-> soft]))
=============================================================================
