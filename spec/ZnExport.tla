------------------------------- MODULE ZnExport -------------------------------
(* C15, export facet: "exactly the module's methods and types (all, or the listed ones) become available, as
   read-only names".  One import statement of one module (or registered library):
       导入“M”                 every exported name (methods and types of M) is declared in the importer, constant
       导入“M”之 n1、n2、…     exactly the listed names that M exports - in whatever ORDER they are written
   The statement is executed name by name (action Declare, one step per listed name); the set of names visible in
   the importer afterwards is compared with the independent set characterisation VisibleExact.
   Names the module does not export (a module-level variable, a name that does not exist) may be listed: the manual
   does not say whether that is an error or ignored - such lists are flagged soft (either an error, or the rest of
   the list takes effect). *)
EXTENDS Integers, Sequences, FiniteSets, TLC, Json
CONSTANTS Exported,      \* names of the module's methods and types
          Others,        \* a module-level variable of the module, a name that does not exist
          MaxLen
VARIABLES mode, sel, i, visible, soft
vars == <<mode, sel, i, visible, soft>>
Names == Exported \cup Others
Lists == {s \in UNION {[1..n -> Names] : n \in 1..MaxLen} : \A p, q \in DOMAIN s : p # q => s[p] # s[q]}
Init == /\ \/ mode = "all" /\ sel = <<>>
           \/ mode = "sel" /\ sel \in Lists
        /\ i = 1 /\ visible = {} /\ soft = FALSE
\* import everything: one step
DeclareAll == mode = "all" /\ i = 1 /\ visible' = Exported /\ i' = 2 /\ UNCHANGED <<mode, sel, soft>>
\* selective import: one listed name per step
Declare == /\ mode = "sel" /\ i <= Len(sel)
           /\ IF sel[i] \in Exported THEN visible' = visible \cup {sel[i]} /\ UNCHANGED soft
              ELSE soft' = TRUE /\ UNCHANGED visible
           /\ i' = i + 1 /\ UNCHANGED <<mode, sel>>
Next == DeclareAll \/ Declare
Terminal == IF mode = "all" THEN i = 2 ELSE i = Len(sel) + 1
Range(s) == {s[k] : k \in DOMAIN s}
\* the property, stated without the machine
VisibleExact == Terminal => visible = (IF mode = "all" THEN Exported ELSE Exported \cap Range(sel))
NeverOthers == visible \cap Others = {}
OrderIrrelevant == Terminal /\ mode = "sel" => \A t \in Lists : Range(t) = Range(sel) => (Exported \cap Range(t)) = visible
Emit == Terminal => PrintT(ToJson([k |-> "exp", mode |-> mode, sel |-> sel, visible |-> visible, soft |-> soft]))
=============================================================================
