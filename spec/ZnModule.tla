------------------------------- MODULE ZnModule -------------------------------
(* C15 - modules load once, export read-only names, and cycles are reported.
   The main file imports a sequence of modules; every module imports a set of modules (an arbitrary
   digraph, self-loops included).  Loading is depth first, in import order:
       Load(m):  m is being loaded  -> CircularDependency
                 m already loaded   -> nothing (its body ran once already)
                 otherwise          -> load its imports in order, then run its body, once
   The machine below performs one step per action (BeginLoad / Import / RunBody / EndLoad); the trace of
   bodies, the final error and the names visible in the main module are the observables. *)
EXTENDS Integers, Sequences, FiniteSets, TLC, Json

CONSTANTS Mods, Missing,     \* Missing: module names that have no file
          MainOrders,        \* {} = every ordered non-empty import list of the main file; otherwise exactly these lists
          NRandom            \* 0 = every digraph; n > 0 = n digraphs drawn by TLC's RandomElement (-seed)

VARIABLES edges, mainImp, stack, loaded, trace, res
vars == <<edges, mainImp, stack, loaded, trace, res>>

\* import order inside a module: alphabetical
RECURSIVE SortSet(_)
Alpha == <<"a", "b", "c", "d", "e">>
MinOf(S) == CHOOSE x \in S : \A y \in S : x = y \/ \E k \in 1..4 : (Alpha[k] = x /\ \E q \in k + 1..5 : Alpha[q] = y)
SortSet(S) == IF S = {} THEN <<>> ELSE <<MinOf(S)>> \o SortSet(S \ {MinOf(S)})
Imports(m) == SortSet({y \in Mods \cup Missing : <<m, y>> \in edges})
Orders == {s \in UNION {[1..n -> Mods \cup Missing] : n \in 1..Cardinality(Mods)} : \A p, q \in DOMAIN s : p # q => s[p] # s[q]}

RandEdges(i) == RandomElement(SUBSET (Mods \X (Mods \cup Missing)))     \* the parameter only defeats TLC's caching of constant operators
Init == /\ IF NRandom = 0 THEN edges \in SUBSET ((Mods \X (Mods \cup Missing)))
           ELSE \E i \in 1..NRandom : edges = RandEdges(i)
        /\ mainImp \in (IF MainOrders = {} THEN Orders ELSE MainOrders)
        /\ stack = << [m |-> "main", next |-> 1] >> /\ loaded = {} /\ trace = <<>> /\ res = "run"
Top == stack[Len(stack)]
ImpsOf(m) == IF m = "main" THEN mainImp ELSE Imports(m)
Loading == {stack[j].m : j \in 1..Len(stack)}
\* one import statement of the module on top of the stack
Import ==
  /\ res = "run" /\ Top.next <= Len(ImpsOf(Top.m))
  /\ LET i == ImpsOf(Top.m)[Top.next] IN
     IF i \in Missing THEN res' = "missing" /\ UNCHANGED <<stack, loaded, trace>>
     ELSE IF i \in Loading THEN res' = "circular" /\ UNCHANGED <<stack, loaded, trace>>
     ELSE IF i \in loaded THEN stack' = [stack EXCEPT ![Len(stack)].next = @ + 1] /\ UNCHANGED <<loaded, trace, res>>
     ELSE stack' = Append([stack EXCEPT ![Len(stack)].next = @ + 1], [m |-> i, next |-> 1]) /\ UNCHANGED <<loaded, trace, res>>   \* BeginLoad
  /\ UNCHANGED <<edges, mainImp>>
\* all imports done: run the body, once
RunBody ==
  /\ res = "run" /\ Top.next = Len(ImpsOf(Top.m)) + 1
  /\ trace' = Append(trace, Top.m)
  /\ IF Top.m = "main" THEN res' = "done" /\ UNCHANGED <<stack, loaded>>
     ELSE loaded' = loaded \cup {Top.m} /\ stack' = SubSeq(stack, 1, Len(stack) - 1) /\ UNCHANGED res        \* EndLoad
  /\ UNCHANGED <<edges, mainImp>>
Next == Import \/ RunBody

(* ---- properties ---- *)
BodyAtMostOnce == \A p, q \in 1..Len(trace) : p # q => trace[p] # trace[q]
ImportsBeforeBody == \A p \in 1..Len(trace) : \A y \in {ImpsOf(trace[p])[k] : k \in 1..Len(ImpsOf(trace[p]))} :
                        y \in Mods => \E q \in 1..p - 1 : trace[q] = y
\* independent characterisation: a cycle is reachable from the main imports (transitive closure)
RECURSIVE ReachFrom(_, _)
ReachFrom(S, n) == IF n = 0 THEN S ELSE ReachFrom(S \cup {y \in Mods : \E x \in S : <<x, y>> \in edges}, n - 1)
Reachable == ReachFrom({mainImp[k] : k \in 1..Len(mainImp)} \cap Mods, Cardinality(Mods))
OnCycle(x) == x \in ReachFrom({y \in Mods : <<x, y>> \in edges}, Cardinality(Mods))
HasCycle == \E x \in Reachable : OnCycle(x)
Terminal == res # "run"
\* with no missing module on the way: the run ends with the circular-dependency error iff a cycle is reachable
CycleIffError == (Terminal /\ res # "missing") => ((res = "circular") = HasCycle)
NoErrorLoadsAllReachable == res = "done" => ({trace[k] : k \in 1..Len(trace)} = Reachable \cup {"main"})
Emit == Terminal => PrintT(ToJson([k |-> "mod", edges |-> edges, main |-> mainImp, res |-> res, trace |-> trace]))
=============================================================================
