CONSTANTS
  InitProcs = 1
  MaxProcs = 3
  Batch = 10
  NReq = 0
  NFault = 0
  MaxPid = 200
  Design = "intended"
SPECIFICATION TraceSpec
INVARIANTS TypeOK Bound Bookkeeping RefCountBounded LiveAccounted
POSTCONDITION TraceAccepted
CHECK_DEADLOCK FALSE
