------------------------------- MODULE Trace_ZnColl -------------------------------
(* Trace validation for C12: operation logs recorded from the REAL value.Array / value.HashMap
   (harness mode `collhist`: seeded random histories of 200-2000 operations over 8 keys) must be
   behaviours of ZnColl.  Every line binds: the action and its arguments, the reply, and the full
   projected state (list contents, dictionary key order, values, map size) after the step.
   The base of 寻找 (draft API 0-based, property "1-indexed") is not fixed by the property: it is
   INFERRED from the first hit and must stay the same for the whole log (variable fb). *)
EXTENDS ZnColl, Json, TLCExt
Tr == ndJsonDeserialize("trace.ndjson")
VARIABLES l, fb
tvars == <<lst, dk, dv, rep, kept, l, fb>>
TraceInit == CInit /\ l = 1 /\ fb = -1
RepOK(e) ==
  /\ rep'.k = e.r.k
  /\ (e.r.k = "val") => rep'.v = e.r.v
  /\ (e.r.k = "seq") => rep'.v = e.r.s
  /\ (e.r.k = "bool") => rep'.v = e.r.b
FindOK(e) ==
  /\ rep'.k = "find" /\ e.r.k \in {"find", "val"}
  /\ IF rep'.p = 0 THEN e.r.raw = -1 /\ fb' = fb
     ELSE /\ e.r.raw - (rep'.p - 1) \in {0, 1}
          /\ fb' = e.r.raw - (rep'.p - 1)
          /\ fb \in {-1, fb'}
\* e.kept = what the last handed-out NEW collection (the Go object itself, kept by the recorder) contains NOW
StateOK(e) == lst' = e.l /\ dk' = e.dk /\ dv' = e.dv /\ Len(dk') = e.dn /\ kept' = e.kept
TraceNext ==
  /\ l <= Len(Tr)
  /\ l' = l + 1
  /\ LET e == Tr[l] IN
     \/ (e.o = "reset" /\ lst' = <<>> /\ dk' = <<>> /\ dv' = <<>> /\ rep' = [k |-> "init"] /\ kept' = <<>> /\ fb' = fb)
     \/ (e.o = "lfind" /\ LFind(e.v) /\ FindOK(e) /\ StateOK(e))
     \/ /\ e.o \notin {"reset", "lfind"}
        /\ fb' = fb
        /\ CASE e.o = "lget" -> LGet(e.i)
             [] e.o = "lset" -> LSet(e.i, e.v)
             [] e.o = "llen" -> LLen
             [] e.o = "lfirst" -> LFirst
             [] e.o = "llast" -> LLast
             [] e.o = "lrev" -> LRev
             [] e.o = "lprepend" -> LPrepend(e.v)
             [] e.o = "lappend" -> LAppend(e.v)
             [] e.o = "lshift" -> LShift
             [] e.o = "lpop" -> LPop
             [] e.o = "lswap" -> LSwap(e.i, e.j)
             [] e.o = "lmerge" -> LMerge(e.other)
             [] e.o = "lcontains" -> LContains(e.v)
             [] e.o = "dget" -> DGet(e.key)
             [] e.o = "dset" -> DSet(e.key, e.v)
             [] e.o = "dread" -> DRead(e.key)
             [] e.o = "dwrite" -> DWrite(e.key, e.v)
             [] e.o = "dremove" -> DRemove(e.key)
             [] e.o = "dlen" -> DLen
             [] e.o = "dkeys" -> DKeys
             [] e.o = "dvals" -> DVals
        /\ RepOK(e) /\ StateOK(e)
TraceSpec == TraceInit /\ [][TraceNext]_tvars
Laws == RevTwice /\ DictWF
Props == [][(l <= Len(Tr) /\ Tr[l].o # "reset") => (FailedIsNoOp /\ ReinsertAppends)]_tvars
TraceAccepted == TLCGet("stats").diameter - 1 = Len(Tr)
=============================================================================
