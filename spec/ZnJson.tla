------------------------------- MODULE ZnJson -------------------------------
(* C19 - JSON generation and parsing are faithful inverses.
   Values:  atom | list(items) | dict(keys, vals)   (keys: distinct text atoms, in insertion order)
   Docs:    atom | arr(items)  | obj(members)        (members: sequence of (key, doc) in document order)
   ToJson / FromJson are the structural maps; the contract is FromJson(ToJson(v)) = v with the key
   order preserved in both directions.  Atoms are opaque symbols (the harness maps them to texts with
   quotes, backslashes, control characters, astral characters, and to doubles). *)
EXTENDS Integers, Sequences, FiniteSets, TLC, Json

CONSTANTS Family, NRandom

TextAtoms == {"t_empty", "t_a", "t_quote", "t_bslash", "t_lf", "t_ctl", "t_emoji", "t_script", "t_ls", "t_kctl", "t_uesc", "t_nesc"}
\* t_uesc / t_nesc: texts that LOOK like JSON escapes - a backslash followed by u003c, by n, by a quote, by u0041
NumAtoms == {"n_0", "n_m1", "n_1p5", "n_1e21", "n_2p53"}
OtherAtoms == {"true", "false", "null"}
Atoms == TextAtoms \cup NumAtoms \cup OtherAtoms
KeyAtoms == {"t_a", "t_quote", "t_emoji", "t_kctl"}     \* t_kctl: control characters, DEL, VT, a non-printable astral character, a backslash

A(a) == [t |-> "atom", a |-> a]
L(items) == [t |-> "list", items |-> items]
D(keys, vals) == [t |-> "dict", keys |-> keys, vals |-> vals]

RECURSIVE ToJson_(_), FromJson(_)
ToJson_(v) == CASE v.t = "atom" -> v
                [] v.t = "list" -> [t |-> "arr", items |-> [j \in 1..Len(v.items) |-> ToJson_(v.items[j])]]
                [] v.t = "dict" -> [t |-> "obj", members |-> [j \in 1..Len(v.keys) |-> [k |-> v.keys[j], d |-> ToJson_(v.vals[j])]]]
FromJson(d) == CASE d.t = "atom" -> d
                 [] d.t = "arr" -> L([j \in 1..Len(d.items) |-> FromJson(d.items[j])])
                 [] d.t = "obj" -> D([j \in 1..Len(d.members) |-> d.members[j].k], [j \in 1..Len(d.members) |-> FromJson(d.members[j].d)])

\* ---- value families
AtomVals == {A(a) : a \in Atoms}
KeySeqs(n) == {s \in UNION {[1..m -> KeyAtoms] : m \in 0..n} : \A a, b \in DOMAIN s : a # b => s[a] # s[b]}
V1 == AtomVals \cup {L(<<>>)} \cup {L(<<x>>) : x \in AtomVals} \cup {D(<<>>, <<>>)} \cup {D(<<"t_a">>, <<x>>) : x \in AtomVals}
FamE == {D(ks, vs) : ks \in KeySeqs(2), vs \in UNION {[1..m -> V1] : m \in 0..2}} 
FamEx == {v \in FamE : Len(v.keys) = Len(v.vals)}
RECURSIVE RandVal(_)
RandKeys(n) == LET s == RandomElement(KeySeqs(3)) IN s
RandVal(d) == IF d = 0 \/ RandomElement(1..3) = 1 THEN A(RandomElement(Atoms))
              ELSE IF RandomElement(1..2) = 1 THEN L([j \in 1..RandomElement(0..3) |-> RandVal(d - 1)])
              ELSE LET ks == RandKeys(3) IN D(ks, [j \in 1..Len(ks) |-> RandVal(d - 1)])
RandTop(i) == LET ks == RandKeys(i) IN D(ks, [j \in 1..Len(ks) |-> RandVal(2)])   \* parameter only defeats TLC's caching of constant operators

VARIABLES val, doc, back, phase
vars == <<val, doc, back, phase>>
Init == /\ \/ (Family = "E" /\ val \in FamEx)
           \/ (Family = "R" /\ \E i \in 1..NRandom : val = RandTop(i))
        /\ doc = A("null") /\ back = A("null") /\ phase = "gen"
Generate == phase = "gen" /\ doc' = ToJson_(val) /\ phase' = "parse" /\ UNCHANGED <<val, back>>
Parse == phase = "parse" /\ back' = FromJson(doc) /\ phase' = "done" /\ UNCHANGED <<val, doc>>
Next == Generate \/ Parse
RoundTrip == phase = "done" => back = val
\* generation keeps the key order (object members in the dictionary's order)
OrderKept == (phase # "gen" /\ val.t = "dict") => [j \in 1..Len(doc.members) |-> doc.members[j].k] = val.keys
Emit == phase = "done" => PrintT(ToJson([k |-> "json", v |-> val]))
=============================================================================
