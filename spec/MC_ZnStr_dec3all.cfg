CONSTANTS
  MaxLen = 3
  Alphabet = {"ql1","qr1","ql2","qr2","ql3","qr3","ql4","qr4","ql5","qr5","bt","CR","LF","C","R","L","F","T","A","B","S","P","K","U","+","1","8","D","x"}
  Mode = "decode"
  Openers = {"ql1","ql3","ql5"}
SPECIFICATION Spec
INVARIANTS RoundTrip DepthPositive Emit
PROPERTY Progress
CHECK_DEADLOCK FALSE
