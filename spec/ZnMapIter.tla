------------------------------- MODULE ZnMapIter -------------------------------
(* C11 - execution is deterministic.
   Every `range` over a Go map in the interpreter is a fold whose iteration order the Go runtime
   chooses afresh on every execution.  This module models each KIND of loop body found at those
   sites as a fold with a nondeterministic Pick(k) action, and states CONFLUENCE: whatever order is
   picked, the observable result equals the result of the canonical (sorted) order.

   Site kinds (the driver checks that the static inventory of range-over-map sites of the source
   tree - file:function:operand#hash-of-the-loop-text - equals the site table below, so a new or
   changed loop is "unmodelled" until it is (re-)classified here):
     "build"   copy every entry into a fresh map / set, or collect the keys that are then SORTED
                                                                 (NewObject defaults, library exports, response
                                                                  headers, verif snapshot, key collection before sort)
     "exists"  is there an entry satisfying a predicate          (idle worker?, cycle search start node)
     "effect"  perform an idempotent effect per entry            (kill every child on shutdown)
     "collectsort"  collect the keys in iteration order, then STABLE-SORT them by a total order on keys and
                    build an insertion-ordered dictionary in that order          (request headers / query parameters)
   Named deviations (NOT allowed in the code; kept to show that the model detects them):
     "firstfail"  stop at the first entry whose check is not "ok" and report THAT entry
                  (dictionary comparison returning inside the first pass; import of colliding names;
                   evaluation of several input expressions)
     "ordered"    append every entry to an insertion-ordered dictionary  (request headers / query)
     "collectsortfold"  as collectsort, but the sort compares a NON-INJECTIVE image of the keys (e.g. their
                  lower-case form): keys with the same image keep the order the map iteration produced
   Module ZnDictEq enumerates pairs of small dictionaries and emits their contents-only equality:
   the replay vectors for 为 / 不为 / == / 包含 / 寻找 under repeated execution. *)
EXTENDS Integers, Sequences, FiniteSets, TLC, Json

CONSTANTS Kinds

Keys == {"a", "b", "c"}
Marks == {"ok", "bad1", "bad2"}          \* per-entry check outcome for firstfail / predicate value for exists
Maps == UNION {[S -> Marks] : S \in SUBSET Keys}

SITES == <<
  [site |-> "pkg/runtime/module.go:checkCircularDepedencyDFS:adj#d921dcb2", kind |-> "exists"],
  [site |-> "pkg/runtime/verif_on.go:VerifSnapshot:vm.valueStack#837a36f1", kind |-> "build"],
  [site |-> "pkg/value/object.go:NewObject:model.GetPropList()#998ef5f1", kind |-> "build"],
  [site |-> "pkg/exec/globals.go:newExecGlobalValues:GlobalValues#9c73dc7c", kind |-> "build"],
  [site |-> "pkg/exec/eval.go:evalImportStmt:library.GetAllExportValues()#d5e3dd7b", kind |-> "build"],
  [site |-> "pkg/exec/eval.go:evalImportStmt:exportValues#59f3bb24", kind |-> "build"],
  [site |-> "pkg/exec/exec_varinput.go:ExecExpressionInputText:exprStrMap#966fa845", kind |-> "build"],
  [site |-> "pkg/server/http_handler.go:buildSortedDict:items#fd7b0a61", kind |-> "collectsort"],
  [site |-> "pkg/server/http_handler.go:sendHTTPResponse:respHeader.(*value.HashMap).GetValue()#e38add61", kind |-> "build"],
  [site |-> "pkg/server/pm_server.go:StartMaster:zns.childs#88b0706e", kind |-> "effect"],
  [site |-> "pkg/server/pm_server.go:maintainChildState:zns.childs#c8602417", kind |-> "exists"]
>>

VARIABLES kind, m, remaining, acc, done, canon
vars == <<kind, m, remaining, acc, done, canon>>

\* canonical order: alphabetical
RECURSIVE SortedSeq(_)
Min(S) == CHOOSE x \in S : \A y \in S : (x = y) \/ (x = "a") \/ (x = "b" /\ y = "c")
SortedSeq(S) == IF S = {} THEN <<>> ELSE <<Min(S)>> \o SortedSeq(S \ {Min(S)})

InitAcc(k) == CASE k = "build" -> [set |-> {}]
                [] k = "exists" -> [found |-> FALSE]
                [] k = "effect" -> [done |-> {}]
                [] k = "firstfail" -> [res |-> "ok", at |-> ""]
                [] k = "ordered" -> [seq |-> <<>>]
                [] k \in {"collectsort", "collectsortfold"} -> [seq |-> <<>>]
\* one loop pass; returns [acc, stop]
Body(k, a, key, mark) ==
  CASE k = "build" -> [acc |-> [set |-> a.set \cup {<<key, mark>>}], stop |-> FALSE]
    [] k = "exists" -> IF mark = "ok" THEN [acc |-> [found |-> TRUE], stop |-> TRUE] ELSE [acc |-> a, stop |-> FALSE]
    [] k = "effect" -> [acc |-> [done |-> a.done \cup {key}], stop |-> FALSE]
    [] k = "firstfail" -> IF mark = "ok" THEN [acc |-> a, stop |-> FALSE] ELSE [acc |-> [res |-> mark, at |-> key], stop |-> TRUE]
    [] k = "ordered" -> [acc |-> [seq |-> Append(a.seq, key)], stop |-> FALSE]
    [] k \in {"collectsort", "collectsortfold"} -> [acc |-> [seq |-> Append(a.seq, key)], stop |-> FALSE]
RECURSIVE Run(_, _, _, _)
Run(k, a, mm, order) == IF order = <<>> THEN a
                        ELSE LET r == Body(k, a, order[1], mm[order[1]])
                             IN IF r.stop THEN r.acc ELSE Run(k, r.acc, mm, Tail(order))

\* the sort after the loop: stable insertion sort by Rank
Rank(k, key) == IF k = "collectsortfold" THEN (IF key = "c" THEN 2 ELSE 1)          \* "a" and "b" have the same image
                ELSE (CASE key = "a" -> 1 [] key = "b" -> 2 [] key = "c" -> 3)
RECURSIVE InsertBy(_, _, _), SortBy(_, _)
InsertBy(k, s, x) == IF s = <<>> THEN <<x>>
                     ELSE IF Rank(k, x) < Rank(k, s[1]) THEN <<x>> \o s ELSE <<s[1]>> \o InsertBy(k, Tail(s), x)
SortBy(k, s) == IF s = <<>> THEN <<>> ELSE InsertBy(k, SortBy(k, SubSeq(s, 1, Len(s) - 1)), s[Len(s)])
Result(k, a) == IF k \in {"collectsort", "collectsortfold"} THEN [seq |-> SortBy(k, a.seq)] ELSE a

Init == /\ kind \in Kinds /\ m \in Maps
        /\ remaining = DOMAIN m /\ acc = InitAcc(kind) /\ done = FALSE
        /\ canon = Run(kind, InitAcc(kind), m, SortedSeq(DOMAIN m))
Pick(k) == /\ ~done /\ k \in remaining
           /\ LET r == Body(kind, acc, k, m[k]) IN
              /\ acc' = r.acc
              /\ remaining' = remaining \ {k}
              /\ done' = (r.stop \/ remaining' = {})
           /\ UNCHANGED <<kind, m, canon>>
Finish == ~done /\ remaining = {} /\ done' = TRUE /\ UNCHANGED <<kind, m, remaining, acc, canon>>
Next == (\E k \in Keys : Pick(k)) \/ Finish
Confluent == done => Result(kind, acc) = Result(kind, canon)
SiteKindsModelled == \A j \in 1..Len(SITES) : SITES[j].kind \in {"build", "exists", "effect", "collectsort"}
EmitSites == PrintT(ToJson([k |-> "sites", sites |-> SITES]))
ASSUME EmitSites
=============================================================================
