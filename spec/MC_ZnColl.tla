------------------------------- MODULE MC_ZnColl -------------------------------
(* Open client of ZnColl: every history of length <= N of list operations (Kind = "list") or dictionary
   operations (Kind = "dict") from every start state in Starts; the history with replies and the state
   after each step is the replay vector. *)
EXTENDS ZnColl, Json
CONSTANTS N, Kind, EmitOneIn     \* EmitOneIn: emit a pseudo-random 1/EmitOneIn of the histories (TLC -seed)
VARIABLES hist, start
vars == <<lst, dk, dv, rep, kept, hist, start>>

ListStarts == {<<>>, <<1>>, <<1, 2>>, <<2, 1, 2>>, <<3, 1, 2, 1>>}
DictStarts == {<<>>, <<"a">>, <<"b", "a">>, <<"c", "a", "b">>}
Init == /\ hist = <<>> /\ rep = [k |-> "init"] /\ kept = <<>>
        /\ IF Kind = "list" THEN lst \in ListStarts /\ dk = <<>> /\ dv = <<>>
           ELSE lst = <<>> /\ dk \in DictStarts /\ dv = [j \in 1..Len(dk) |-> j]
        /\ start = IF Kind = "list" THEN [l |-> lst] ELSE [k |-> dk, v |-> dv]
St == IF Kind = "list" THEN [l |-> lst'] ELSE [k |-> dk', v |-> dv']
H(o, i, j, v, key, other) == hist' = Append(hist, [o |-> o, i |-> i, j |-> j, v |-> v, key |-> key, other |-> other, r |-> rep', s |-> St])
Others == {<<>>, <<1>>, <<2, 3>>}
ListNext ==
  \/ \E i \in 0..MaxIdx : LGet(i) /\ H("lget", i, 0, 0, "", <<>>)
  \/ \E i \in 0..MaxIdx, v \in Vals : LSet(i, v) /\ H("lset", i, 0, v, "", <<>>)
  \/ LLen /\ H("llen", 0, 0, 0, "", <<>>)
  \/ LFirst /\ H("lfirst", 0, 0, 0, "", <<>>)
  \/ LLast /\ H("llast", 0, 0, 0, "", <<>>)
  \/ LRev /\ H("lrev", 0, 0, 0, "", <<>>)
  \/ \E v \in Vals : LPrepend(v) /\ H("lprepend", 0, 0, v, "", <<>>)
  \/ \E v \in Vals : LAppend(v) /\ H("lappend", 0, 0, v, "", <<>>)
  \/ LShift /\ H("lshift", 0, 0, 0, "", <<>>)
  \/ LPop /\ H("lpop", 0, 0, 0, "", <<>>)
  \/ \E i \in 0..MaxIdx, j \in 0..MaxIdx : (i <= j) /\ LSwap(i, j) /\ H("lswap", i, j, 0, "", <<>>)
  \/ \E o \in Others : LMerge(o) /\ H("lmerge", 0, 0, 0, "", o)
  \/ \E v \in Vals : LContains(v) /\ H("lcontains", 0, 0, v, "", <<>>)
  \/ \E v \in Vals : LFind(v) /\ H("lfind", 0, 0, v, "", <<>>)
DictNext ==
  \/ \E k \in Keys : DGet(k) /\ H("dget", 0, 0, 0, k, <<>>)
  \/ \E k \in Keys, v \in Vals : DSet(k, v) /\ H("dset", 0, 0, v, k, <<>>)
  \/ \E k \in Keys : DRead(k) /\ H("dread", 0, 0, 0, k, <<>>)
  \/ \E k \in Keys, v \in Vals : DWrite(k, v) /\ H("dwrite", 0, 0, v, k, <<>>)
  \/ \E k \in Keys : DRemove(k) /\ H("dremove", 0, 0, 0, k, <<>>)
  \/ DLen /\ H("dlen", 0, 0, 0, "", <<>>)
  \/ DKeys /\ H("dkeys", 0, 0, 0, "", <<>>)
  \/ DVals /\ H("dvals", 0, 0, 0, "", <<>>)
Next == /\ Len(hist) < N /\ Len(lst) <= MaxIdx
        /\ IF Kind = "list" THEN ListNext ELSE DictNext
        /\ UNCHANGED start
Spec == Init /\ [][Next]_vars
Props == [][FailedIsNoOp /\ ReinsertAppends]_vars
Laws == RevTwice /\ PrependShift /\ DictWF
Emit == (Len(hist) = N /\ (EmitOneIn = 1 \/ RandomElement(1..EmitOneIn) = 1)) => PrintT(ToJson([k |-> "coll", kind |-> Kind, start |-> start, h |-> hist]))
View == <<lst, dk, dv, rep, Len(hist)>>
=============================================================================
