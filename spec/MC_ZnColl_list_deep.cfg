CONSTANTS
  Vals = {1, 2, 3}
  Keys = {"a", "b", "c"}
  MaxIdx = 5
  N = 8
  EmitOneIn = 1
  Kind = "list"
SPECIFICATION Spec
INVARIANTS Laws
PROPERTY Props
VIEW View
CHECK_DEADLOCK FALSE
