---------------------------- MODULE MC_ZnExpr_I ----------------------------
(* emits family I of ZnExpr (slot trees + lowered primitive code) once *)
EXTENDS ZnExpr
ASSUME EmitI
InitI == Init /\ tree = Bin("add", Leaf(Num(1, 1)), Leaf(Num(1, 1)))
=============================================================================
