CONSTANTS
  Design = "ascoded"
  Mode = "conc"
  MaxN = 1
  Conc = 2
INIT CInit
NEXT CNext
INVARIANTS OwnProgram
CHECK_DEADLOCK FALSE
