CONSTANTS
  MaxLen = 5
  Alphabet = {"ql1","qr1","ql3","qr3","bt","x"}
  Mode = "roundtrip"
  Openers = {"ql1","ql3","ql5"}
SPECIFICATION Spec
INVARIANTS RoundTrip DepthPositive Emit
PROPERTY Progress
CHECK_DEADLOCK FALSE
