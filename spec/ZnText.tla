------------------------------- MODULE ZnText -------------------------------
(* C14 (text part) - text operations count characters.
   A text is a sequence of CHARACTERS; each character belongs to a class that only matters for its
   encoded width:  "a" ASCII (1 byte), "e" Latin with diacritic (2), "z" CJK (3), "m" astral (4),
   "c" a combining mark (2 bytes; a character of its own).  All operations are defined on the character
   sequence, never on bytes:
     长度 = Len, 字符组 = the singletons, 取样(i, j) for 1 <= i <= j <= Len = characters i..j,
     分隔 by the empty text = 字符组, Join(Split(s, sep), sep) = s. *)
EXTENDS Integers, Sequences, FiniteSets, TLC, Json
CONSTANTS MaxLen
IdxRange == {-6, -2, -1} \cup 0..6
Cls == {"a", "e", "z", "m", "c"}
RECURSIVE Texts(_)
Texts(n) == IF n = 0 THEN {<<>>} ELSE LET S == Texts(n - 1) IN S \cup {Append(t, c) : t \in {u \in S : Len(u) = n - 1}, c \in Cls}
VARIABLES t, i, j, phase, res
vars == <<t, i, j, phase, res>>
Init == t \in Texts(MaxLen) /\ i \in IdxRange /\ j \in IdxRange /\ phase = "slice" /\ res = [k |-> "none"]
\* slicing: defined for 1 <= i <= j <= Len; elsewhere the manual is silent: an error or a contiguous run of whole characters
Slice == /\ phase = "slice"
         /\ res' = IF 1 <= i /\ i <= j /\ j <= Len(t) THEN [k |-> "chars", v |-> SubSeq(t, i, j)] ELSE [k |-> "weak"]
         /\ phase' = "done" /\ UNCHANGED <<t, i, j>>
Next == Slice
\* split / join law on the spec: splitting by a one-character separator and joining gives the text back
RECURSIVE Split(_, _, _)
Split(s, sep, cur) == IF s = <<>> THEN <<cur>> ELSE IF s[1] = sep THEN <<cur>> \o Split(Tail(s), sep, <<>>) ELSE Split(Tail(s), sep, Append(cur, s[1]))
RECURSIVE Join(_, _)
Join(parts, sep) == IF Len(parts) = 1 THEN parts[1] ELSE parts[1] \o <<sep>> \o Join(Tail(parts), sep)
SplitJoin == \A sep \in Cls : Join(Split(t, sep, <<>>), sep) = t
SliceWhole == (phase = "done" /\ res.k = "chars") => (Len(res.v) = j - i + 1 /\ \A q \in 1..Len(res.v) : res.v[q] = t[i + q - 1])
Emit == phase = "done" => PrintT(ToJson([k |-> "text", t |-> t, i |-> i, j |-> j, r |-> res, len |-> Len(t),
                                        parts |-> [c \in Cls |-> Split(t, c, <<>>)]]))
=============================================================================
