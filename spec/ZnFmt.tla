------------------------------- MODULE ZnFmt -------------------------------
(* C14 (format part) - `template % list` replaces the k-th { } placeholder by the k-th list element.
   Template characters are symbols: "x" literal text, "_" a blank, "{" "}" braces, "#" "+" "." "0" "2" (digits) "E" "%".
   The scanner is a state machine (begin | literal | format), one character per step, producing
   segments; a placeholder's directive must follow the documented grammar
        ""                    display form of the element
        # [+] [.N] [E | %]    numeric renderings (numbers only)
   Errors: unbalanced or nested braces, unknown directive, numeric directive on a non-number,
   placeholder count /= argument count.
   The spec decides, for every placeholder, the RENDER PLAN (sign flag, precision, verb) - and, when the
   value is an exact decimal with no more fraction digits than the precision, the digits themselves. *)
EXTENDS Integers, Sequences, FiniteSets, TLC, Json
CONSTANTS MaxLen, DirLen
Sigma == {"x", "_", "{", "}", "#", "+", ".", "0", "2", "E", "%"}     \* "_" a blank (space, TAB, line break, U+3000 ...): literal text like any other, never part of a directive; "0" "2" digits
RECURSIVE StrUpTo(_)
StrUpTo(n) == IF n = 0 THEN {<<>>} ELSE LET S == StrUpTo(n - 1) IN S \cup {Append(t, c) : t \in {u \in S : Len(u) = n - 1}, c \in Sigma}

\* directive -> plan.  [ok, soft, plus, prec (-1 none), verb: "disp" | "g" | "f" | "E" | "pct"]
RECURSIVE Digits(_)
IsDigit(c) == c \in {"0", "2"}
Digits(d) == d = <<>> \/ (IsDigit(d[1]) /\ Digits(Tail(d)))
RECURSIVE DigVal(_, _)
DigVal(d, acc) == IF d = <<>> THEN acc ELSE IF acc > 9999999 THEN 99999999 ELSE DigVal(Tail(d), acc * 10 + (IF d[1] = "0" THEN 0 ELSE 2))    \* saturates: "absurdly large"
Plan(d) ==
  IF d = <<>> THEN [ok |-> TRUE, soft |-> FALSE, plus |-> FALSE, prec |-> -1, verb |-> "disp"]
  ELSE IF d[1] # "#" THEN [ok |-> FALSE, soft |-> FALSE, plus |-> FALSE, prec |-> -1, verb |-> "bad"]
  ELSE LET r1 == Tail(d)
           plus == r1 # <<>> /\ r1[1] = "+"
           r2 == IF plus THEN Tail(r1) ELSE r1
           hasdot == r2 # <<>> /\ r2[1] = "."
           r3 == IF hasdot THEN Tail(r2) ELSE r2
           nd == IF hasdot THEN (CHOOSE n \in 0..Len(r3) : Digits(SubSeq(r3, 1, n)) /\ (n = Len(r3) \/ ~IsDigit(r3[n + 1]))) ELSE 0
           r4 == SubSeq(r3, nd + 1, Len(r3))
           verb == IF r4 = <<>> THEN (IF hasdot THEN "f" ELSE "g") ELSE IF r4 = <<"E">> THEN "E" ELSE IF r4 = <<"%">> THEN "pct" ELSE "bad"
       IN [ok |-> verb # "bad",
           soft |-> (hasdot /\ nd = 0) \/ (~hasdot /\ verb \in {"E", "pct"}),     \* {#.} {#E} {#%}: not in the documented forms
           plus |-> plus, prec |-> IF hasdot THEN DigVal(SubSeq(r3, 1, nd), 0) ELSE -1, verb |-> verb]

VARIABLES tpl, pos, state, segs, cur, err
vars == <<tpl, pos, state, segs, cur, err>>
\* plus a few templates with a very long precision
LongPrec == {<<"{", "#", ".">> \o [q \in 1..n |-> "2"] \o <<"}">> : n \in {3, 8, 12, 20, 25}} \cup {<<"{", "#", "+", ".">> \o [q \in 1..n |-> "2"] \o <<"E", "}">> : n \in {10, 22}}
\* plus every single placeholder whose directive is a string of up to DirLen directive symbols (the directive grammar
\* has more depth than a template of MaxLen symbols reaches: {#+.22E} , {#.2E2} , {#.2%%} ...)
DSigma == {"#", "+", ".", "0", "2", "E", "%", "_"}
RECURSIVE DirUpTo(_)
DirUpTo(n) == IF n = 0 THEN {<<>>} ELSE LET S == DirUpTo(n - 1) IN S \cup {Append(t, c) : t \in {u \in S : Len(u) = n - 1}, c \in DSigma}
OnePh == {<<"{">> \o d \o <<"}">> : d \in DirUpTo(DirLen)}
Init == tpl \in StrUpTo(MaxLen) \cup LongPrec \cup OnePh /\ pos = 1 /\ state = "begin" /\ segs = <<>> /\ cur = <<>> /\ err = ""
Lit(s) == [t |-> "lit", s |-> s]
Ph(d) == [t |-> "ph", d |-> d, plan |-> Plan(d)]
Step ==
  /\ err = "" /\ pos <= Len(tpl)
  /\ LET c == tpl[pos] IN
     CASE c = "{" ->
            IF state = "format" THEN err' = "nested" /\ UNCHANGED <<state, segs, cur>>
            ELSE /\ segs' = IF state = "literal" THEN Append(segs, Lit(cur)) ELSE segs
                 /\ cur' = <<>> /\ state' = "format" /\ UNCHANGED err
       [] c = "}" ->
            IF state # "format" THEN err' = "unbalanced" /\ UNCHANGED <<state, segs, cur>>
            ELSE IF ~Plan(cur).ok THEN err' = "directive" /\ UNCHANGED <<state, segs, cur>>
            ELSE segs' = Append(segs, Ph(cur)) /\ cur' = <<>> /\ state' = "begin" /\ UNCHANGED err
       [] OTHER ->
            /\ cur' = Append(cur, c)
            /\ state' = IF state = "begin" THEN "literal" ELSE state
            /\ UNCHANGED <<segs, err>>
  /\ pos' = pos + 1 /\ UNCHANGED tpl
Finish == /\ err = "" /\ pos = Len(tpl) + 1 /\ state # "end"
          /\ IF state = "format" THEN err' = "unterminated" /\ UNCHANGED <<segs, state>>
             ELSE segs' = (IF state = "literal" THEN Append(segs, Lit(cur)) ELSE segs) /\ state' = "end" /\ UNCHANGED err
          /\ UNCHANGED <<tpl, pos, cur>>
Next == Step \/ Finish
Done == err # "" \/ state = "end"
NPh == Cardinality({q \in 1..Len(segs) : segs[q].t = "ph"})
\* all literal text is copied verbatim: the segments' characters, in order, are the template without braces
RECURSIVE Flat(_)
Flat(ss) == IF ss = <<>> THEN <<>> ELSE (IF ss[1].t = "lit" THEN ss[1].s ELSE ss[1].d) \o Flat(Tail(ss))
Verbatim == state = "end" => Flat(segs) = SelectSeq(tpl, LAMBDA c : c \notin {"{", "}"})
Emit == Done => PrintT(ToJson([k |-> "fmt", tpl |-> tpl, err |-> err, segs |-> segs, nph |-> NPh,
                               soft |-> \E q \in 1..Len(segs) : segs[q].t = "ph" /\ segs[q].plan.soft]))
=============================================================================
