------------------------------- MODULE ZnVM -------------------------------
(* C06 (substrate) - the symbol table as an environment: a stack of blocks, each block an ordered
   list of bindings.  This is the classic block-structured environment; the implementation
   (runtime.Scope: one flat array of symbols with a depth tag) must behave like it under EVERY
   history of begin/end-scope, declare, declare-const, assign and lookup.

   One action per operation; every action also sets `rep`, the reply the caller observes. *)
EXTENDS Integers, Sequences, FiniteSets, TLC

CONSTANTS Names,      \* ordinary names
          Globals     \* predefined names (always visible, never declarable / assignable)

VARIABLES env,        \* Seq of blocks; block = Seq of [name, const, val]; env[1] is the outermost block
          rep         \* reply of the last operation
zvars == <<env, rep>>

ZInit == env = << <<>> >> /\ rep = [k |-> "init"]

Last(s) == s[Len(s)]
Front(s) == SubSeq(s, 1, Len(s) - 1)
InBlock(blk, n) == \E j \in 1..Len(blk) : blk[j].name = n
Pos(blk, n) == CHOOSE j \in 1..Len(blk) : blk[j].name = n
\* innermost block that binds n (0 if none)
RECURSIVE Innermost(_, _)
Innermost(n, d) == IF d = 0 THEN 0 ELSE IF InBlock(env[d], n) THEN d ELSE Innermost(n, d - 1)
Live == LET RECURSIVE Sum(_) Sum(d) == IF d = 0 THEN 0 ELSE Len(env[d]) + Sum(d - 1) IN Sum(Len(env))
Depth == Len(env) - 1

Begin == /\ env' = Append(env, <<>>) /\ rep' = [k |-> "ok"]
End == /\ Len(env) > 1
       /\ env' = Front(env) /\ rep' = [k |-> "ok"]
Decl(n, c, v) ==
  IF n \in Globals \/ InBlock(Last(env), n)
  THEN /\ rep' = [k |-> "redeclared"] /\ UNCHANGED env                    \* a rejected operation changes nothing
  ELSE /\ env' = [env EXCEPT ![Len(env)] = Append(@, [name |-> n, const |-> c, val |-> v])]
       /\ rep' = [k |-> "ok"]
Set(n, v) ==
  LET d == Innermost(n, Len(env)) IN
  IF d = 0 THEN /\ rep' = [k |-> IF n \in Globals THEN "global" ELSE "undefined"] /\ UNCHANGED env
  ELSE IF env[d][Pos(env[d], n)].const THEN /\ rep' = [k |-> "const"] /\ UNCHANGED env
  ELSE /\ env' = [env EXCEPT ![d][Pos(env[d], n)].val = v] /\ rep' = [k |-> "ok"]
Get(n) ==
  LET d == Innermost(n, Len(env)) IN
  /\ UNCHANGED env
  /\ rep' = IF n \in Globals THEN [k |-> "global"]
            ELSE IF d = 0 THEN [k |-> "undefined"]
            ELSE [k |-> "val", v |-> env[d][Pos(env[d], n)].val]

(* ---- properties (action properties over [Next]_zvars of any client) ---- *)
\* a binding that is a constant keeps its value for as long as its block lives
ConstNeverChanges ==
  \A d \in 1..Len(env) : d <= Len(env') =>
     \A j \in 1..Len(env[d]) : (j <= Len(env'[d]) /\ env[d][j].const /\ env'[d][j].name = env[d][j].name)
                                 => env'[d][j] = env[d][j]
\* ending a block restores exactly the enclosing blocks (values assigned to outer variables stay)
EndRestores == (Len(env') = Len(env) - 1) => env' = Front(env)
\* no block binds a name twice; predefined names are never bound
NoDuplicate == \A d \in 1..Len(env) : \A a, b \in 1..Len(env[d]) : (a # b) => env[d][a].name # env[d][b].name
GlobalsNeverBound == \A d \in 1..Len(env) : \A j \in 1..Len(env[d]) : env[d][j].name \notin Globals
\* a failed operation is a no-op
FailedIsNoOp == (rep'.k \in {"redeclared", "const", "undefined", "global"}) => env' = env
=============================================================================
