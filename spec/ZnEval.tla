------------------------------- MODULE ZnEval -------------------------------
(* The Zn evaluator as an explicit state machine (DESIGN.md section 4.2).

   A program is DATA (a record tree; see the grammar below).  Compile flattens every body into an
   instruction sequence with relative jumps; the machine executes one instruction per step over
     frames   call stack (script / function / handler frames, each with code, pc, operand stack)
     syms     the symbol table of the module (name, depth, const, value)   = runtime.Scope
     depth    current scope depth
     heap     cells of lists, dictionaries, objects and exception values (reference semantics)
     out      display trace          tr   executed-statement trace (path, call depth, activation)
     exc      in-flight exception    res  final outcome
   This one machine serves the properties C02 (control flow), C06 (scoping), C07 (copy/share),
   C08 (calls/objects), C09 (exceptions) and C18 (fault position and call chain); each property
   is an invariant over its states plus a comparison of its behaviour with the real interpreter.

   Program grammar (all records; `k` is the kind):
     prog  = [funcs: Seq(func), classes: Seq(class), main: Seq(stmt), catches: Seq(catch), inputs: Seq(Str)]
     func  = [name, params: Seq(Str), body: Seq(stmt), catches: Seq(catch), mod: Nat (optional; 0 = main module,
              k = the k-th imported module file: its bodies see only their own module's symbols)]
     catch = [cls: Str, body: Seq(stmt)]
     class = [name, props: Seq([n, e]), ctor: Seq(func) (0/1), methods: Seq(func)]
     stmt  = decl(names, const, e) | declblock(pairs: Seq([names, const, e])) | expr(e) | if(conds, blocks, els) | while(c, body)
           | iter(names, e, body) | break | cont | ret(e) | throw(cls, args)
     expr  = num(v) | str(v) | bool(v) | null | var(n) | bin(op, l, r) | list(items)
           | dict(keys, vals) | idx(e, i) | mem(e, p) | this(p) | call(f, args, y)
           | mcall(e, m, args [, y]) | new(cls, args) | asg(tgt, e)          (y: 得到 name, methods of objects only)
   Statement paths: <<b, j>> = j-th statement of body b (0 main, i function i, 100c+m method m of
   class c, 100c constructor); nested blocks append <<arm, j>>; catch block q of a body: <<b, -q, j>>.
   Names are ASCII symbols (TLC's Json module cannot carry non-ASCII text): "@display" = 显示,
   "@exc" = 异常, "@content" = 内容, "@len" 长度, "@first" 首项, "@last" 末项, "@append" 后增,
   "@self" 自身, "@prepend" 前增, "@shift" 左移, "@pop" 右移, "@put" 写入, "@remove" 移除, "@true" 真 ...; the
   harness's symbol table maps them (and user identifiers) to glyphs. *)
EXTENDS Integers, Sequences, FiniteSets, TLC, Json

(* ------------------------------------------------------------------ values *)
VNum(i) == [t |-> "num", v |-> i]
VBool(b) == [t |-> "bool", v |-> b]
VStr(s) == [t |-> "str", v |-> s]
VNull == [t |-> "null"]
VRef(i) == [t |-> "ref", id |-> i]
VSkip == [t |-> "skip"]        \* outside the integer model (inexact division): vector is dropped

Last(s) == s[Len(s)]
Front(s) == SubSeq(s, 1, Len(s) - 1)
Take(s, n) == SubSeq(s, 1, n)
Drop(s, n) == SubSeq(s, n + 1, Len(s))
SeqMap(F(_), s) == [j \in 1..Len(s) |-> F(s[j])]
RECURSIVE Flat(_)
Flat(ss) == IF ss = <<>> THEN <<>> ELSE ss[1] \o Flat(Tail(ss))
RECURSIVE IndexOf(_, _, _)
IndexOf(s, x, j) == IF j > Len(s) THEN 0 ELSE IF s[j] = x THEN j ELSE IndexOf(s, x, j + 1)

(* ------------------------------------------------------------------ compilation *)
Ins(i) == [i |-> i]
LogOps == {"and", "or"}

RECURSIVE CE(_), CEs(_)
CEs(es) == IF es = <<>> THEN <<>> ELSE CE(es[1]) \o CEs(Tail(es))
CE(e) ==
  CASE e.k \in {"num", "str", "bool"} -> << [i |-> "push", v |-> [t |-> e.k, v |-> e.v]] >>
    [] e.k = "null" -> << [i |-> "push", v |-> VNull] >>
    [] e.k = "var" -> << [i |-> "load", n |-> e.n] >>
    [] e.k = "bin" ->
         IF e.op \in LogOps
         THEN LET cr == CE(e.r)
              IN CE(e.l) \o << [i |-> "jsc", op |-> e.op, off |-> Len(cr) + 1] >> \o cr \o << Ins("chkbool") >>
         ELSE CE(e.l) \o CE(e.r) \o << [i |-> "bin", op |-> e.op] >>
    [] e.k = "list" -> CEs(e.items) \o << [i |-> "mklist", n |-> Len(e.items)] >>
    [] e.k = "dict" -> CEs(e.vals) \o << [i |-> "mkdict", keys |-> e.keys] >>
    [] e.k = "idx" -> CE(e.e) \o CE(e.i) \o << Ins("index") >>
    [] e.k = "mem" -> CE(e.e) \o << [i |-> "member", p |-> e.p] >>
    [] e.k = "this" -> << [i |-> "this", p |-> e.p] >>
    [] e.k = "call" -> CEs(e.args) \o << [i |-> "call", f |-> e.f, n |-> Len(e.args), y |-> e.y] >>
    [] e.k = "mcall" ->
         \* 自增 / 自减 of a number change the value IN PLACE: on a variable, element or property that is a
         \* read-modify-write of that place (numbers are copied whenever they are bound, so no other place sees it)
         IF e.m \in {"@incr", "@decr"} /\ Len(e.args) = 1 /\ e.e.k \in {"var", "idx", "mem", "this"}
         THEN LET v == [k |-> "bin", op |-> IF e.m = "@incr" THEN "add" ELSE "sub", l |-> e.e, r |-> e.args[1]]
              IN CASE e.e.k = "var" -> CE(v) \o << [i |-> "store", n |-> e.e.n] >>
                   [] e.e.k = "idx" -> CE(v) \o CE(e.e.e) \o CE(e.e.i) \o << Ins("storeidx") >>
                   [] e.e.k = "mem" -> CE(v) \o CE(e.e.e) \o << [i |-> "storemem", p |-> e.e.p] >>
                   [] e.e.k = "this" -> CE(v) \o << [i |-> "storethis", p |-> e.e.p] >>
         ELSE CE(e.e) \o CEs(e.args) \o << [i |-> "mcall", m |-> e.m, n |-> Len(e.args), y |-> IF "y" \in DOMAIN e THEN e.y ELSE ""] >>
    [] e.k = "new" -> CEs(e.args) \o << [i |-> "new", cls |-> e.cls, n |-> Len(e.args)] >>
    [] e.k = "asg" ->
         CASE e.tgt.k = "var" -> CE(e.e) \o << [i |-> "store", n |-> e.tgt.n] >>
           [] e.tgt.k = "idx" -> CE(e.e) \o CE(e.tgt.e) \o CE(e.tgt.i) \o << Ins("storeidx") >>
           [] e.tgt.k = "mem" -> CE(e.e) \o CE(e.tgt.e) \o << [i |-> "storemem", p |-> e.tgt.p] >>
           [] e.tgt.k = "this" -> CE(e.e) \o << [i |-> "storethis", p |-> e.tgt.p] >>

\* replace the break / continue placeholders of ONE loop by jumps (inner loops were patched before)
Patch(code, headPos, exitPos) ==
  [j \in 1..Len(code) |->
     IF code[j].i = "brk" THEN [i |-> "jmpx", ends |-> code[j].n, off |-> exitPos - j]
     ELSE IF code[j].i = "cnt" THEN [i |-> "jmpx", ends |-> code[j].n, off |-> headPos - j]
     ELSE code[j]]

\* cx = [top: is this the body's own statement list, since: scopes opened since the innermost loop body began (-1: no loop)]
RECURSIVE CS(_, _, _), CSs(_, _, _, _), CArms(_, _, _, _), CPairs(_)
CPairs(ps) == IF ps = <<>> THEN <<>> ELSE CE(ps[1].e) \o << [i |-> "decl", names |-> ps[1].names, const |-> ps[1].const] >> \o CPairs(Tail(ps))
CSs(ss, pfx, cx, j) == IF j > Len(ss) THEN <<>> ELSE CS(ss[j], pfx \o <<j>>, cx) \o CSs(ss, pfx, cx, j + 1)
Inner(cx) == [top |-> FALSE, since |-> IF cx.since < 0 THEN -1 ELSE cx.since + 1]
Block(ss, pfx, cx) == << Ins("begin") >> \o CSs(ss, pfx, Inner(cx), 1) \o << Ins("end") >>
Tail0(cx, isExpr) == IF cx.top THEN << [i |-> "last", ex |-> isExpr] >> ELSE IF isExpr THEN << Ins("pop") >> ELSE <<>>
\* arms of 如果/再如/否则: each arm = cond, jmpf over block, block, jmp to end
CArms(s, p, cx, a) ==
  IF a > Len(s.conds) THEN (IF s.els = <<>> THEN <<>> ELSE Block(s.els[1], p \o <<a>>, cx))
  ELSE LET blk == Block(s.blocks[a], p \o <<a>>, cx)
           rest == CArms(s, p, cx, a + 1)
       IN CE(s.conds[a]) \o << [i |-> "jmpf", off |-> Len(blk) + 2] >> \o blk
             \o << [i |-> "jmp", off |-> Len(rest) + 1] >> \o rest
CS(s, p, cx) ==
  << [i |-> "line", p |-> p] >> \o
  CASE s.k = "decl" -> CE(s.e) \o << [i |-> "decl", names |-> s.names, const |-> s.const] >> \o Tail0(cx, FALSE)
    \* 令： with one line per pair - ONE statement that performs the declarations in order, each pair with its own 恒为 / =
    [] s.k = "declblock" -> CPairs(s.pairs) \o Tail0(cx, FALSE)
    [] s.k = "expr" -> CE(s.e) \o Tail0(cx, TRUE)
    [] s.k = "if" -> CArms(s, p, cx, 1) \o Tail0(cx, FALSE)
    [] s.k = "while" ->
         LET cc == CE(s.c)
             body == << Ins("begin") >> \o CSs(s.body, p \o <<1>>, [top |-> FALSE, since |-> 1], 1) \o << Ins("end") >>
             loop == cc \o << [i |-> "jmpf", off |-> Len(body) + 2] >> \o body
                        \o << [i |-> "jmp", off |-> -(Len(cc) + 1 + Len(body))] >>
         IN Patch(loop, 1, Len(loop) + 1) \o Tail0(cx, FALSE)
    [] s.k = "iter" ->
         LET body == << Ins("begin") >> \o CSs(s.body, p \o <<1>>, [top |-> FALSE, since |-> 1], 1) \o << Ins("end") >>
             \* positions: 1 iternext, 2.. body, then jmp back to 1, then iterpop (= exit)
             loop == << [i |-> "iternext", names |-> s.names, off |-> Len(body) + 2] >> \o body
                        \o << [i |-> "jmp", off |-> -(Len(body) + 1)] >>
         IN CE(s.e) \o << [i |-> "iterinit", names |-> s.names] >> \o Patch(loop, 1, Len(loop) + 1)
               \o << Ins("iterpop") >> \o Tail0(cx, FALSE)
    [] s.k = "break" -> << [i |-> "brk", n |-> cx.since] >>
    [] s.k = "cont" -> << [i |-> "cnt", n |-> cx.since] >>
    [] s.k = "ret" -> CE(s.e) \o << Ins("ret") >>
    [] s.k = "throw" -> CEs(s.args) \o << [i |-> "throw", cls |-> s.cls, n |-> Len(s.args)] >>

TopCx == [top |-> TRUE, since |-> -1]
BodyCode(ss, pfx) == << Ins("begin") >> \o CSs(ss, pfx, TopCx, 1) \o << Ins("endbody") >>
HandlerCode(ss, pfx) == << Ins("begin") >> \o CSs(ss, pfx, [top |-> FALSE, since |-> -1], 1) \o << Ins("endhandler") >>
Catches(cs, pfx) == [q \in 1..Len(cs) |-> [cls |-> cs[q].cls, code |-> HandlerCode(cs[q].body, pfx \o <<-q>>)]]

(* ------------------------------------------------------------------ state *)
VARIABLES prog, frames, syms, depth, heap, out, tr, exc, res, nact
vars == <<prog, frames, syms, depth, heap, out, tr, exc, res, nact>>

NoExc == [on |-> FALSE]
Running == res.k = "run"

Frame(kind, code, catches, this, sd0, site, act, owner) ==
  [kind |-> kind, code |-> code, catches |-> catches, pc |-> 1, stack |-> <<>>, this |-> this,
   hasRet |-> FALSE, ret |-> VNull, last |-> VNull, sd0 |-> sd0, site |-> site, cur |-> <<>>,
   act |-> act, owner |-> owner, y |-> "",
   \* module of the code this frame runs, and the part of the symbol stack it can see: a body of ANOTHER module than its
   \* caller's starts from that module's own (here: empty) symbols - syms[1..base] belong to other modules
   mod |-> 0, base |-> 0]

InitWith(P) ==
  /\ prog \in P
  /\ frames = << Frame("script", BodyCode(prog.main, <<0>>), Catches(prog.catches, <<0>>), VNull, 0, <<>>, 1, 0) >>
  \* the exec block's own scope is open; the program's 输入 names are bound there as constants
  \* (the harness passes the value j for the j-th input)
  /\ syms = [j \in 1..Len(prog.inputs) |-> [name |-> prog.inputs[j], depth |-> 1, const |-> TRUE, val |-> VNum(j)]]
  /\ depth = 1
  \* the definitions of a text are statements of its block, executed before the first ordinary statement: a method (or type) name
  \* defined twice in one text is a redeclaration fault before anything else runs
  /\ LET FMod(j) == IF "mod" \in DOMAIN prog.funcs[j] THEN prog.funcs[j].mod ELSE 0
         \* (the types of a text are written before its methods)
         DupC == {j \in 1..Len(prog.classes) : \E i \in 1..j - 1 : prog.classes[i].name = prog.classes[j].name}
         DupF == {j \in 1..Len(prog.funcs) : FMod(j) = 0 /\ (\/ \E i \in 1..j - 1 : FMod(i) = 0 /\ prog.funcs[i].name = prog.funcs[j].name
                                                             \/ \E i \in 1..Len(prog.classes) : prog.classes[i].name = prog.funcs[j].name)}
         Min(S) == CHOOSE x \in S : \A y \in S : x <= y
         \* the fault arises AT the second definition: its header line (path <<100 * j>> of type j, <<j>> of method j)
         at == IF DupC # {} THEN <<100 * Min(DupC)>> ELSE <<Min(DupF)>>
     IN IF DupC # {} \/ DupF # {}
        THEN /\ heap = << [k |-> "exc", msg |-> "redeclared", bi |-> TRUE] >>
             /\ exc = [on |-> TRUE, v |-> VRef(1), cls |-> "@exc", msg |-> "redeclared", builtin |-> TRUE,
                       path |-> at, chain |-> << at >>, arity |-> FALSE]
        ELSE heap = <<>> /\ exc = NoExc
  /\ out = <<>> /\ tr = <<>> /\ nact = 1
  /\ res = [k |-> "run"]

(* ------------------------------------------------------------------ symbol table = runtime.Scope *)
RECURSIVE FindSym(_, _, _)
FindSym(ss, name, j) == IF j = 0 THEN 0 ELSE IF ss[j].name = name THEN j ELSE FindSym(ss, name, j - 1)
Lookup(name) == LET j == FindSym(syms, name, Len(syms)) IN IF frames # <<>> /\ j <= Last(frames).base THEN 0 ELSE j
RECURSIVE TrimTo(_, _)
TrimTo(ss, d) == IF ss # <<>> /\ Last(ss).depth > d THEN TrimTo(Front(ss), d) ELSE ss
DeclaredHere(name) == \E j \in 1..Len(syms) : syms[j].name = name /\ syms[j].depth = depth
Sym(name, const, v) == [name |-> name, depth |-> depth, const |-> const, val |-> v]
Globals == {"@true", "@false", "@null", "@exc", "@display", "@random", "@num"}
FuncNames == {prog.funcs[j].name : j \in 1..Len(prog.funcs)}
ClassNames == {prog.classes[j].name : j \in 1..Len(prog.classes)}
FuncIdx(n) == CHOOSE j \in 1..Len(prog.funcs) : prog.funcs[j].name = n
ClassIdx(n) == CHOOSE j \in 1..Len(prog.classes) : prog.classes[j].name = n

(* ------------------------------------------------------------------ heap *)
RECURSIVE DupV(_, _), DupSeq(_, _)
\* deep copy of lists and dictionaries; objects, exceptions and scalars are returned as they are
\* result: [v |-> value, h |-> heap]
DupSeq(vs, h) == IF vs = <<>> THEN [vs |-> <<>>, h |-> h]
                 ELSE LET a == DupV(vs[1], h)
                          b == DupSeq(Tail(vs), a.h)
                      IN [vs |-> <<a.v>> \o b.vs, h |-> b.h]
DupV(v, h) ==
  IF v.t # "ref" THEN [v |-> v, h |-> h]
  ELSE LET c == h[v.id] IN
       IF c.k = "list" THEN LET r == DupSeq(c.items, h)
                            IN [v |-> VRef(Len(r.h) + 1), h |-> Append(r.h, [k |-> "list", items |-> r.vs])]
       ELSE IF c.k = "dict" THEN LET r == DupSeq(c.vals, h)
                                 IN [v |-> VRef(Len(r.h) + 1), h |-> Append(r.h, [k |-> "dict", keys |-> c.keys, vals |-> r.vs])]
       ELSE [v |-> v, h |-> h]

RECURSIVE Deref(_, _, _)
Deref(v, h, fuel) ==
  IF v.t # "ref" THEN v
  ELSE IF fuel = 0 THEN [t |-> "deep"]
  ELSE LET c == h[v.id] IN
       CASE c.k = "list" -> [t |-> "list", v |-> [j \in 1..Len(c.items) |-> Deref(c.items[j], h, fuel - 1)]]
         [] c.k = "dict" -> [t |-> "dict", k |-> c.keys, v |-> [j \in 1..Len(c.vals) |-> Deref(c.vals[j], h, fuel - 1)]]
         [] c.k = "obj" -> [t |-> "obj", cls |-> c.cls]
         [] c.k = "exc" -> [t |-> "exc", msg |-> c.msg]

\* cells reachable through lists/dictionaries (stopping at objects): used by FreshOnBind
RECURSIVE Reach(_, _, _)
Reach(v, h, fuel) ==
  IF v.t # "ref" \/ fuel = 0 THEN {}
  ELSE LET c == h[v.id] IN
       IF c.k = "list" THEN {v.id} \cup UNION {Reach(c.items[j], h, fuel - 1) : j \in 1..Len(c.items)}
       ELSE IF c.k = "dict" THEN {v.id} \cup UNION {Reach(c.vals[j], h, fuel - 1) : j \in 1..Len(c.vals)}
       ELSE {}

RECURSIVE VEq(_, _, _, _)
VEq(a, b, h, fuel) ==
  IF fuel = 0 THEN FALSE
  ELSE IF a.t # b.t THEN FALSE
  ELSE IF a.t = "null" THEN TRUE
  ELSE IF a.t # "ref" THEN a.v = b.v
  ELSE LET x == h[a.id]
           y == h[b.id]
       IN IF x.k # y.k THEN FALSE
          ELSE IF x.k = "list" THEN /\ Len(x.items) = Len(y.items)
                                    /\ \A j \in 1..Len(x.items) : VEq(x.items[j], y.items[j], h, fuel - 1)
          ELSE IF x.k = "dict" THEN /\ Len(x.keys) = Len(y.keys)
                                    /\ \A j \in 1..Len(x.keys) :
                                         LET q == IndexOf(y.keys, x.keys[j], 1)
                                         IN q > 0 /\ VEq(x.vals[j], y.vals[q], h, fuel - 1)
          ELSE a.id = b.id

(* ------------------------------------------------------------------ helpers on the top frame *)
F == Last(frames)
I == F.code[F.pc]
Stk == F.stack
TopV == Last(Stk)
SetTop(f) == [frames EXCEPT ![Len(frames)] = f]
Adv(stack2) == SetTop([F EXCEPT !.pc = @ + 1, !.stack = stack2])
JmpTo(off, stack2) == SetTop([F EXCEPT !.pc = @ + off, !.stack = stack2])
CallDepth == Len(frames)

\* raise a built-in fault (class 异常): one new exception cell
Fault(msg) ==
  /\ heap' = Append(heap, [k |-> "exc", msg |-> msg, bi |-> TRUE])
  /\ exc' = [on |-> TRUE, v |-> VRef(Len(heap) + 1), cls |-> "@exc", msg |-> msg, builtin |-> TRUE,
             path |-> F.cur, chain |-> [j \in 1..Len(frames) |-> frames[j].cur], arity |-> FALSE]
  /\ UNCHANGED <<prog, frames, syms, depth, out, tr, res, nact>>
FaultA(msg) ==          \* same, flagged: raised while binding a call (no statement of the callee ran; whether the
                        \* report lists the half-made call as an extra innermost entry is not demanded)
  /\ heap' = Append(heap, [k |-> "exc", msg |-> msg, bi |-> TRUE])
  /\ exc' = [on |-> TRUE, v |-> VRef(Len(heap) + 1), cls |-> "@exc", msg |-> msg, builtin |-> TRUE,
             path |-> F.cur, chain |-> [j \in 1..Len(frames) |-> frames[j].cur], arity |-> TRUE]
  /\ UNCHANGED <<prog, frames, syms, depth, out, tr, res, nact>>

Abs(x) == IF x < 0 THEN -x ELSE x
OkInt(x) == Abs(x) <= 1000000

(* ------------------------------------------------------------------ instructions *)
ILine == /\ I.i = "line"
         /\ frames' = SetTop([F EXCEPT !.pc = @ + 1, !.cur = I.p])
         /\ tr' = Append(tr, [p |-> I.p, cd |-> CallDepth, act |-> F.act, d |-> depth])
         /\ UNCHANGED <<prog, syms, depth, heap, out, exc, res, nact>>

IPush == /\ I.i = "push"
         /\ frames' = Adv(Append(Stk, I.v))
         /\ UNCHANGED <<prog, syms, depth, heap, out, tr, exc, res, nact>>

ILoad == /\ I.i = "load"
         /\ LET j == Lookup(I.n) IN
            IF I.n = "@true" THEN frames' = Adv(Append(Stk, VBool(TRUE))) /\ UNCHANGED <<heap, exc>>
            ELSE IF I.n = "@false" THEN frames' = Adv(Append(Stk, VBool(FALSE))) /\ UNCHANGED <<heap, exc>>
            ELSE IF I.n = "@null" THEN frames' = Adv(Append(Stk, VNull)) /\ UNCHANGED <<heap, exc>>
            ELSE IF j > 0 THEN frames' = Adv(Append(Stk, syms[j].val)) /\ UNCHANGED <<heap, exc>>
            ELSE IF I.n \in FuncNames THEN frames' = Adv(Append(Stk, [t |-> "func", v |-> I.n])) /\ UNCHANGED <<heap, exc>>
            ELSE Fault("undefined") /\ UNCHANGED frames
         /\ UNCHANGED <<prog, syms, depth, out, tr, res, nact>>

\* arithmetic / comparison on two evaluated operands
BinVal(op, a, b) ==
  IF op \in {"add", "sub", "mul", "div", "idiv", "mod"} THEN
       IF a.t # "num" \/ b.t # "num" THEN [f |-> "type"]
       ELSE IF op \in {"div", "idiv", "mod"} /\ b.v = 0 THEN [f |-> "divzero"]
       ELSE IF ~OkInt(a.v) \/ ~OkInt(b.v) THEN [f |-> "", v |-> VSkip]
       ELSE CASE op = "add" -> [f |-> "", v |-> VNum(a.v + b.v)]
              [] op = "sub" -> [f |-> "", v |-> VNum(a.v - b.v)]
              [] op = "mul" -> IF Abs(a.v) > 30000 \/ Abs(b.v) > 30000 THEN [f |-> "", v |-> VSkip]
                               ELSE [f |-> "", v |-> VNum(a.v * b.v)]
              [] op = "div" -> IF a.v % Abs(b.v) = 0 THEN [f |-> "", v |-> VNum(IF b.v > 0 THEN a.v \div b.v ELSE (-a.v) \div (-b.v))]
                               ELSE [f |-> "", v |-> VSkip]
              [] op = "idiv" -> [f |-> "", v |-> VNum(IF b.v > 0 THEN a.v \div b.v ELSE (-a.v) \div (-b.v))]
              [] op = "mod" -> LET q == IF b.v > 0 THEN a.v \div b.v ELSE (-a.v) \div (-b.v)
                               IN [f |-> "", v |-> VNum(a.v - q * b.v)]
  ELSE IF op \in {"gt", "lt", "ge", "le"} THEN
       IF a.t # "num" \/ b.t # "num" THEN [f |-> "type"]
       ELSE [f |-> "", v |-> VBool(CASE op = "gt" -> a.v > b.v [] op = "lt" -> a.v < b.v
                                     [] op = "ge" -> a.v >= b.v [] op = "le" -> a.v <= b.v)]
  ELSE IF a.t \in {"func", "skip"} \/ b.t \in {"func", "skip"} THEN [f |-> "", v |-> VSkip]
  ELSE IF op \in {"eq", "xeq"} THEN [f |-> "", v |-> VBool(VEq(a, b, heap, 6))]
  ELSE [f |-> "", v |-> VBool(~VEq(a, b, heap, 6))]

IBin == /\ I.i = "bin"
        /\ LET a == Stk[Len(Stk) - 1]
               b == Stk[Len(Stk)]
               r == BinVal(I.op, a, b)
           IN IF r.f # "" THEN Fault(r.f) /\ UNCHANGED frames
              ELSE frames' = Adv(Append(SubSeq(Stk, 1, Len(Stk) - 2), r.v)) /\ UNCHANGED <<heap, exc>>
        /\ UNCHANGED <<prog, syms, depth, out, tr, res, nact>>

IJsc == /\ I.i = "jsc"
        /\ IF TopV.t # "bool" THEN Fault("type") /\ UNCHANGED frames
           ELSE IF (I.op = "and" /\ ~TopV.v) \/ (I.op = "or" /\ TopV.v)
                THEN frames' = JmpTo(I.off + 1, Stk) /\ UNCHANGED <<heap, exc>>
                ELSE frames' = Adv(Front(Stk)) /\ UNCHANGED <<heap, exc>>
        /\ UNCHANGED <<prog, syms, depth, out, tr, res, nact>>
IChk == /\ I.i = "chkbool"
        /\ IF TopV.t # "bool" THEN Fault("type") /\ UNCHANGED frames
           ELSE frames' = Adv(Stk) /\ UNCHANGED <<heap, exc>>
        /\ UNCHANGED <<prog, syms, depth, out, tr, res, nact>>

IJmp == /\ I.i = "jmp"
        /\ frames' = JmpTo(I.off, Stk)
        /\ UNCHANGED <<prog, syms, depth, heap, out, tr, exc, res, nact>>
IJmpF == /\ I.i = "jmpf"
         /\ IF TopV.t # "bool" THEN Fault("type") /\ UNCHANGED frames
            ELSE IF TopV.v THEN frames' = Adv(Front(Stk)) /\ UNCHANGED <<heap, exc>>
            ELSE frames' = JmpTo(I.off, Front(Stk)) /\ UNCHANGED <<heap, exc>>
         /\ UNCHANGED <<prog, syms, depth, out, tr, res, nact>>
\* break / continue: leave `ends` scopes, then jump
IJmpX == /\ I.i = "jmpx"
         /\ depth' = depth - I.ends
         /\ syms' = TrimTo(syms, depth - I.ends)
         /\ frames' = JmpTo(I.off, Stk)
         /\ UNCHANGED <<prog, heap, out, tr, exc, res, nact>>

IBegin == /\ I.i = "begin"
          /\ depth' = depth + 1 /\ frames' = Adv(Stk)
          /\ UNCHANGED <<prog, syms, heap, out, tr, exc, res, nact>>
IEnd == /\ I.i = "end"
        /\ depth' = depth - 1 /\ syms' = TrimTo(syms, depth - 1) /\ frames' = Adv(Stk)
        /\ UNCHANGED <<prog, heap, out, tr, exc, res, nact>>
IPop == /\ I.i = "pop"
        /\ frames' = Adv(Front(Stk))
        /\ UNCHANGED <<prog, syms, depth, heap, out, tr, exc, res, nact>>
ILast == /\ I.i = "last"
         /\ IF I.ex THEN frames' = SetTop([F EXCEPT !.pc = @ + 1, !.stack = Front(Stk), !.last = TopV])
                    ELSE frames' = SetTop([F EXCEPT !.pc = @ + 1, !.last = VNull])
         /\ UNCHANGED <<prog, syms, depth, heap, out, tr, exc, res, nact>>

\* 令 a、b = v : each name gets its own deep copy
RECURSIVE DeclAll(_, _, _, _, _)
DeclAll(names, const, v, ss, h) ==
  IF names = <<>> THEN [ss |-> ss, h |-> h, ok |-> TRUE]
  ELSE IF names[1] \in Globals \/ (\E j \in 1..Len(ss) : ss[j].name = names[1] /\ ss[j].depth = depth)
       THEN [ss |-> ss, h |-> h, ok |-> FALSE]
  ELSE LET d == DupV(v, h)
       IN DeclAll(Tail(names), const, v, Append(ss, [name |-> names[1], depth |-> depth, const |-> const, val |-> d.v]), d.h)
IDecl == /\ I.i = "decl"
         /\ LET r == DeclAll(I.names, I.const, TopV, syms, heap) IN
            IF r.ok THEN /\ syms' = r.ss /\ heap' = r.h /\ frames' = Adv(Front(Stk)) /\ UNCHANGED exc
            ELSE Fault("redeclared") /\ UNCHANGED <<frames, syms>>
         /\ UNCHANGED <<prog, depth, out, tr, res, nact>>

IStore == /\ I.i = "store"
          /\ LET j == Lookup(I.n) IN
             IF j = 0 THEN (IF I.n \in Globals \/ I.n \in FuncNames \/ I.n \in ClassNames
                            THEN Fault("const") ELSE Fault("undefined")) /\ UNCHANGED <<frames, syms>>
             ELSE IF syms[j].const THEN Fault("const") /\ UNCHANGED <<frames, syms>>
             ELSE LET d == DupV(TopV, heap)
                  IN /\ syms' = [syms EXCEPT ![j].val = d.v] /\ heap' = d.h
                     /\ frames' = Adv(Append(Front(Stk), d.v)) /\ UNCHANGED exc
          /\ UNCHANGED <<prog, depth, out, tr, res, nact>>

IMkList == /\ I.i = "mklist"
           /\ LET items == SubSeq(Stk, Len(Stk) - I.n + 1, Len(Stk))
              IN /\ heap' = Append(heap, [k |-> "list", items |-> items])
                 /\ frames' = Adv(Append(SubSeq(Stk, 1, Len(Stk) - I.n), VRef(Len(heap) + 1)))
           /\ UNCHANGED <<prog, syms, depth, out, tr, exc, res, nact>>
\* literal with duplicate keys: first position, last value
RECURSIVE MkDict(_, _, _, _)
MkDict(keys, vals, ks, vs) ==
  IF keys = <<>> THEN [ks |-> ks, vs |-> vs]
  ELSE LET q == IndexOf(ks, keys[1], 1)
       IN IF q > 0 THEN MkDict(Tail(keys), Tail(vals), ks, [vs EXCEPT ![q] = vals[1]])
          ELSE MkDict(Tail(keys), Tail(vals), Append(ks, keys[1]), Append(vs, vals[1]))
IMkDict == /\ I.i = "mkdict"
           /\ LET n == Len(I.keys)
                  d == MkDict(I.keys, SubSeq(Stk, Len(Stk) - n + 1, Len(Stk)), <<>>, <<>>)
              IN /\ heap' = Append(heap, [k |-> "dict", keys |-> d.ks, vals |-> d.vs])
                 /\ frames' = Adv(Append(SubSeq(Stk, 1, Len(Stk) - n), VRef(Len(heap) + 1)))
           /\ UNCHANGED <<prog, syms, depth, out, tr, exc, res, nact>>

KeyOf(v) == IF v.t = "str" THEN v.v ELSE ToString(v.v)
IIndex == /\ I.i = "index"
          /\ LET root == Stk[Len(Stk) - 1]
                 ix == Stk[Len(Stk)]
                 rest == SubSeq(Stk, 1, Len(Stk) - 2)
             IN IF root.t # "ref" \/ heap[root.id].k \notin {"list", "dict"} THEN Fault("type") /\ UNCHANGED frames
                ELSE LET c == heap[root.id] IN
                     IF c.k = "list" THEN
                          IF ix.t # "num" THEN Fault("type") /\ UNCHANGED frames
                          ELSE IF ix.v < 1 \/ ix.v > Len(c.items) THEN Fault("index") /\ UNCHANGED frames
                          ELSE frames' = Adv(Append(rest, c.items[ix.v])) /\ UNCHANGED <<heap, exc>>
                     ELSE IF ix.t \notin {"num", "str"} THEN Fault("type") /\ UNCHANGED frames
                          ELSE LET q == IndexOf(c.keys, KeyOf(ix), 1)
                               IN IF q = 0 THEN Fault("key") /\ UNCHANGED frames
                                  ELSE frames' = Adv(Append(rest, c.vals[q])) /\ UNCHANGED <<heap, exc>>
          /\ UNCHANGED <<prog, syms, depth, out, tr, res, nact>>

\* A#i = v / A#k = v  (stack: value, root, index); the stored value is the copy made at evaluation of the right side
IStoreIdx == /\ I.i = "storeidx"
             /\ LET v0 == Stk[Len(Stk) - 2]
                    root == Stk[Len(Stk) - 1]
                    ix == Stk[Len(Stk)]
                    rest == SubSeq(Stk, 1, Len(Stk) - 3)
                    d == DupV(v0, heap)
                IN IF root.t # "ref" \/ heap[root.id].k \notin {"list", "dict"} THEN Fault("type") /\ UNCHANGED frames
                   ELSE LET c == heap[root.id] IN
                        IF c.k = "list" THEN
                             IF ix.t # "num" THEN Fault("type") /\ UNCHANGED frames
                             ELSE IF ix.v < 1 \/ ix.v > Len(c.items) THEN Fault("index") /\ UNCHANGED frames
                             ELSE /\ heap' = [d.h EXCEPT ![root.id].items[ix.v] = d.v]
                                  /\ frames' = Adv(Append(rest, d.v)) /\ UNCHANGED exc
                        ELSE IF ix.t \notin {"num", "str"} THEN Fault("type") /\ UNCHANGED frames
                             ELSE LET q == IndexOf(c.keys, KeyOf(ix), 1)
                                  IN /\ heap' = IF q > 0 THEN [d.h EXCEPT ![root.id].vals[q] = d.v]
                                                ELSE [d.h EXCEPT ![root.id].keys = Append(@, KeyOf(ix)), ![root.id].vals = Append(@, d.v)]
                                     /\ frames' = Adv(Append(rest, d.v)) /\ UNCHANGED exc
             /\ UNCHANGED <<prog, syms, depth, out, tr, res, nact>>

\* property read: object property, 其内容 of an exception, built-in getters 长度 首项 末项
PropOf(v, p) ==
  IF v.t = "ref" THEN
       LET c == heap[v.id] IN
       IF c.k = "obj" THEN (IF p = "@self" THEN [f |-> "", v |-> v]
                            ELSE LET q == IndexOf(c.keys, p, 1) IN IF q = 0 THEN [f |-> "prop"] ELSE [f |-> "", v |-> c.vals[q]])
       ELSE IF c.k = "exc" THEN (IF p = "@content"
                                 THEN [f |-> "", v |-> IF c.bi THEN [t |-> "faultmsg", v |-> c.msg] ELSE VStr(c.msg)]
                                 ELSE [f |-> "prop"])
       ELSE IF c.k = "list" THEN
              (IF p = "@len" THEN [f |-> "", v |-> VNum(Len(c.items))]
               ELSE IF p = "@first" THEN [f |-> "", v |-> IF c.items = <<>> THEN VNull ELSE c.items[1]]
               ELSE IF p = "@last" THEN [f |-> "", v |-> IF c.items = <<>> THEN VNull ELSE Last(c.items)]
               ELSE [f |-> "prop"])
       ELSE (IF p = "@len" THEN [f |-> "", v |-> VNum(Len(c.keys))] ELSE [f |-> "prop"])
  ELSE [f |-> "prop"]
IMember == /\ I.i = "member"
           /\ LET r == PropOf(TopV, I.p) IN
              IF r.f # "" THEN Fault(r.f) /\ UNCHANGED frames
              ELSE frames' = Adv(Append(Front(Stk), r.v)) /\ UNCHANGED <<heap, exc>>
           /\ UNCHANGED <<prog, syms, depth, out, tr, res, nact>>
HasThis == F.this.t # "null"
IThis == /\ I.i = "this"
         /\ IF ~HasThis THEN Fault("nothis") /\ UNCHANGED frames
            ELSE LET r == PropOf(F.this, I.p) IN
                 IF r.f # "" THEN Fault(r.f) /\ UNCHANGED frames
                 ELSE frames' = Adv(Append(Stk, r.v)) /\ UNCHANGED <<heap, exc>>
         /\ UNCHANGED <<prog, syms, depth, out, tr, res, nact>>
SetProp(objv, p, v0) ==         \* [f, h, v]
  \* the 首项 / 末项 setters of a non-empty list store a copy, like an element assignment
  IF objv.t = "ref" /\ heap[objv.id].k = "list" /\ p \in {"@first", "@last"} THEN
       (IF heap[objv.id].items = <<>> THEN [f |-> "index"]
        ELSE LET d == DupV(v0, heap)
                 q == IF p = "@first" THEN 1 ELSE Len(heap[objv.id].items)
             IN [f |-> "", h |-> [d.h EXCEPT ![objv.id].items[q] = d.v], v |-> d.v])
  ELSE IF objv.t # "ref" \/ heap[objv.id].k # "obj" THEN [f |-> "prop"]
  ELSE LET q == IndexOf(heap[objv.id].keys, p, 1)
           d == DupV(v0, heap)
       IN IF q = 0 THEN [f |-> "prop"] ELSE [f |-> "", h |-> [d.h EXCEPT ![objv.id].vals[q] = d.v], v |-> d.v]
IStoreMem == /\ I.i = "storemem"
             /\ LET r == SetProp(TopV, I.p, Stk[Len(Stk) - 1]) IN
                IF r.f # "" THEN Fault(r.f) /\ UNCHANGED frames
                ELSE heap' = r.h /\ frames' = Adv(Append(SubSeq(Stk, 1, Len(Stk) - 2), r.v)) /\ UNCHANGED exc
             /\ UNCHANGED <<prog, syms, depth, out, tr, res, nact>>
IStoreThis == /\ I.i = "storethis"
              /\ IF ~HasThis THEN Fault("nothis") /\ UNCHANGED frames
                 ELSE LET r == SetProp(F.this, I.p, TopV) IN
                      IF r.f # "" THEN Fault(r.f) /\ UNCHANGED frames
                      ELSE heap' = r.h /\ frames' = Adv(Append(Front(Stk), r.v)) /\ UNCHANGED exc
              /\ UNCHANGED <<prog, syms, depth, out, tr, res, nact>>

(* ---- calls ---- *)
Args(n) == SubSeq(Stk, Len(Stk) - n + 1, Len(Stk))
Below(n) == SubSeq(Stk, 1, Len(Stk) - n)
\* enter a user body: push the frame, open the exec scope, bind the inputs (constants)
RECURSIVE BindParams(_, _, _, _)
BindParams(ps, as, ss, d) ==
  IF ps = <<>> THEN ss
  ELSE BindParams(Tail(ps), Tail(as), Append(ss, [name |-> ps[1], depth |-> d, const |-> TRUE, val |-> as[1]]), d)
ModOf(fn) == IF "mod" \in DOMAIN fn THEN fn.mod ELSE 0         \* 0 = the main module
Enter(fn, pfx, this, args, callerStack, y) ==
  LET caller == [F EXCEPT !.stack = callerStack, !.y = y]
      m == ModOf(fn)
      nf == [Frame("fn", BodyCode(fn.body, pfx), Catches(fn.catches, pfx), this, depth, F.cur, nact + 1, 0)
             EXCEPT !.mod = m, !.base = IF m = F.mod THEN F.base ELSE Len(syms)]
  IN /\ frames' = Append(Front(frames) \o <<caller>>, nf)
     /\ depth' = depth + 1
     /\ syms' = BindParams(fn.params, args, syms, depth + 1)
     /\ nact' = nact + 1

ICall == /\ I.i = "call"
         /\ IF I.f = "@display" THEN
                 /\ out' = Append(out, [j \in 1..I.n |-> Deref(Args(I.n)[j], heap, 6)])
                 /\ frames' = Adv(Append(Below(I.n), VNull))
                 /\ UNCHANGED <<syms, depth, heap, exc, nact>>
            \* the name is resolved WHEN THE CALL EXECUTES: a variable / input that holds a method value (a method passed as an
            \* argument, stored in a property, bound by 令) is called through its current value
            ELSE LET j == Lookup(I.f)
                     viaVar == j > 0 /\ syms[j].val.t = "func"
                     target == IF viaVar THEN syms[j].val.v ELSE I.f
                 IN
                 IF (j > 0 /\ ~viaVar) \/ target \notin FuncNames THEN
                      (IF j > 0 \/ I.f \in Globals \/ I.f \in ClassNames THEN FaultA("notfunc") ELSE Fault("undefined"))
                      /\ UNCHANGED <<frames, syms, depth, out, nact>>
                 ELSE LET fn == prog.funcs[FuncIdx(target)] IN
                      IF Len(fn.params) # I.n THEN FaultA("arity") /\ UNCHANGED <<frames, syms, depth, out, nact>>
                      ELSE Enter(fn, <<FuncIdx(target)>>, VNull, Args(I.n), Below(I.n), I.y) /\ UNCHANGED <<heap, exc, out>>
         /\ UNCHANGED <<prog, tr, res>>

\* built-in methods of lists and dictionaries (the subset the program families use)
Builtin(c, m, as, root) ==      \* [f, cell, v]
  IF c.k = "list" THEN
       IF m = "@append" THEN (IF Len(as) # 1 THEN [f |-> "params"] ELSE [f |-> "", cell |-> [c EXCEPT !.items = Append(@, as[1])], v |-> root])
       ELSE IF m = "@prepend" THEN (IF Len(as) # 1 THEN [f |-> "params"] ELSE [f |-> "", cell |-> [c EXCEPT !.items = <<as[1]>> \o @], v |-> root])
       ELSE IF m = "@shift" THEN (IF c.items = <<>> THEN [f |-> "", cell |-> c, v |-> VNull]
                                ELSE [f |-> "", cell |-> [c EXCEPT !.items = Tail(@)], v |-> c.items[1]])
       ELSE IF m = "@pop" THEN (IF c.items = <<>> THEN [f |-> "", cell |-> c, v |-> VNull]
                                ELSE [f |-> "", cell |-> [c EXCEPT !.items = Front(@)], v |-> Last(c.items)])
       ELSE [f |-> "method"]
  ELSE IF c.k = "dict" THEN
       IF m = "@put" THEN
            (IF Len(as) # 2 \/ as[1].t # "str" THEN [f |-> "params"]
             ELSE LET q == IndexOf(c.keys, as[1].v, 1)
                  IN [f |-> "", v |-> as[2],
                      cell |-> IF q > 0 THEN [c EXCEPT !.vals[q] = as[2]]
                               ELSE [c EXCEPT !.keys = Append(@, as[1].v), !.vals = Append(@, as[2])]])
       ELSE IF m = "@remove" THEN
            (IF Len(as) # 1 \/ as[1].t # "str" THEN [f |-> "params"]
             ELSE LET q == IndexOf(c.keys, as[1].v, 1)
                  IN IF q = 0 THEN [f |-> "", cell |-> c, v |-> VNull]
                     ELSE [f |-> "", v |-> c.vals[q],
                           cell |-> [c EXCEPT !.keys = Take(@, q - 1) \o Drop(@, q), !.vals = Take(@, q - 1) \o Drop(@, q)]])
       ELSE [f |-> "method"]
  ELSE [f |-> "method"]
MethodIdx(cl, m) == IndexOf([j \in 1..Len(cl.methods) |-> cl.methods[j].name], m, 1)
IMCall == /\ I.i = "mcall"
          /\ LET root == Stk[Len(Stk) - I.n]
                 as == Args(I.n)
                 rest == SubSeq(Stk, 1, Len(Stk) - I.n - 1)
             IN IF root.t # "ref" THEN FaultA("method") /\ UNCHANGED <<frames, syms, depth, nact>>
                ELSE LET c == heap[root.id] IN
                     IF c.k = "obj" THEN
                          LET cl == prog.classes[ClassIdx(c.cls)]
                              q == MethodIdx(cl, I.m)
                          IN IF q = 0 THEN FaultA("method") /\ UNCHANGED <<frames, syms, depth, nact>>
                             ELSE IF Len(cl.methods[q].params) # I.n THEN FaultA("arity") /\ UNCHANGED <<frames, syms, depth, nact>>
                             ELSE Enter(cl.methods[q], <<100 * ClassIdx(c.cls) + q>>, root, as, rest, I.y) /\ UNCHANGED <<heap, exc>>
                     ELSE \* a method that STORES its (last) argument keeps its own copy of it, like an element assignment:
                          \* no later change through another name reaches it, and a collection can never contain itself
                          LET stores == I.m \in {"@append", "@prepend", "@put"} /\ I.n >= 1
                              d == IF stores THEN DupV(as[I.n], heap) ELSE [v |-> VNull, h |-> heap]
                              as2 == IF stores THEN [as EXCEPT ![I.n] = d.v] ELSE as
                              r == Builtin(c, I.m, as2, root)
                          IN
                          IF r.f # "" THEN FaultA(r.f) /\ UNCHANGED <<frames, syms, depth, nact>>
                          ELSE /\ heap' = [d.h EXCEPT ![root.id] = r.cell]
                               /\ frames' = Adv(Append(rest, r.v))
                               /\ UNCHANGED <<syms, depth, exc, nact>>
          /\ UNCHANGED <<prog, out, tr, res>>

\* 新建: fresh object with its own copy of the defaults, then the constructor with this = the object.
\* Class property defaults are constant expressions (literals) in the program families: evaluated here.
RECURSIVE ConstVal(_, _), ConstVals(_, _)
ConstVal(e, h) ==           \* [v, h]
  IF e.k \in {"num", "str", "bool"} THEN [v |-> [t |-> e.k, v |-> e.v], h |-> h]
  ELSE IF e.k = "null" THEN [v |-> VNull, h |-> h]
  ELSE IF e.k = "list" THEN
       LET r == ConstVals(e.items, h)
       IN [v |-> VRef(Len(r.h) + 1), h |-> Append(r.h, [k |-> "list", items |-> r.vs])]
  ELSE LET r == ConstVals(e.vals, h)
       IN [v |-> VRef(Len(r.h) + 1), h |-> Append(r.h, [k |-> "dict", keys |-> e.keys, vals |-> r.vs])]
ConstVals(es, h) == IF es = <<>> THEN [vs |-> <<>>, h |-> h]
                    ELSE LET a == ConstVal(es[1], h)
                             b == ConstVals(Tail(es), a.h)
                         IN [vs |-> <<a.v>> \o b.vs, h |-> b.h]
INew == /\ I.i = "new"
        /\ IF I.cls = "@exc" THEN
                (IF I.n # 1 \/ TopV.t # "str" THEN Fault("params") /\ UNCHANGED <<frames, syms, depth, nact>>
                 ELSE /\ heap' = Append(heap, [k |-> "exc", msg |-> TopV.v, bi |-> FALSE])
                      /\ frames' = Adv(Append(Below(1), VRef(Len(heap) + 1)))
                      /\ UNCHANGED <<syms, depth, exc, nact>>)
           ELSE IF I.cls \notin ClassNames \/ Lookup(I.cls) > 0 THEN
                (IF Lookup(I.cls) > 0 \/ I.cls \in Globals \/ I.cls \in FuncNames THEN Fault("notclass") ELSE Fault("undefined"))
                /\ UNCHANGED <<frames, syms, depth, nact>>
           ELSE LET cl == prog.classes[ClassIdx(I.cls)]
                    dv == ConstVals([j \in 1..Len(cl.props) |-> cl.props[j].e], heap)
                    cell == [k |-> "obj", cls |-> cl.name, keys |-> [j \in 1..Len(cl.props) |-> cl.props[j].n], vals |-> dv.vs]
                    h2 == Append(dv.h, cell)
                    obj == VRef(Len(h2))
                IN IF cl.ctor = <<>> THEN
                        /\ heap' = h2 /\ frames' = Adv(Append(Below(I.n), obj)) /\ UNCHANGED <<syms, depth, exc, nact>>
                   ELSE IF Len(cl.ctor[1].params) # I.n THEN FaultA("arity") /\ UNCHANGED <<frames, syms, depth, nact>>
                   ELSE /\ heap' = h2 /\ UNCHANGED exc
                        /\ LET caller == [F EXCEPT !.stack = Below(I.n), !.y = ""]
                               nf == [Frame("fn", BodyCode(cl.ctor[1].body, <<100 * ClassIdx(I.cls)>>),
                                            Catches(cl.ctor[1].catches, <<100 * ClassIdx(I.cls)>>), obj, depth, F.cur, nact + 1, 0)
                                      EXCEPT !.kind = "ctor"]
                           IN /\ frames' = Append(Front(frames) \o <<caller>>, nf)
                              /\ depth' = depth + 1
                              /\ syms' = BindParams(cl.ctor[1].params, Args(I.n), syms, depth + 1)
                              /\ nact' = nact + 1
        /\ UNCHANGED <<prog, out, tr, res>>

(* ---- leaving a body ---- *)
\* deliver value v of the finished top frame to its caller (or end the program)
Deliver(v, fr) ==      \* fr = frames without the finished frame(s)
  IF fr = <<>> THEN /\ res' = [k |-> "value", v |-> Deref(v, heap, 6)] /\ frames' = <<>>
                    /\ syms' = TrimTo(syms, depth') /\ UNCHANGED <<exc, heap>>
  ELSE LET c == Last(fr)
           j == FindSym(syms, c.y, Len(syms))
       IN IF c.y # "" /\ (c.y \in Globals \/ \E q \in 1..Len(TrimTo(syms, depth')) : TrimTo(syms, depth')[q].name = c.y /\ TrimTo(syms, depth')[q].depth = depth')
          THEN \* 得到 R where R already exists in that block: an error of some kind (not demanded which)
               /\ frames' = fr /\ syms' = TrimTo(syms, depth')
               /\ heap' = Append(heap, [k |-> "exc", msg |-> "redeclared", bi |-> TRUE])
               /\ exc' = [on |-> TRUE, v |-> VRef(Len(heap) + 1), cls |-> "@exc", msg |-> "redeclared", builtin |-> TRUE,
                          path |-> c.cur, chain |-> [q \in 1..Len(fr) |-> fr[q].cur], arity |-> FALSE]
               /\ UNCHANGED res
          ELSE /\ frames' = [fr EXCEPT ![Len(fr)] = [c EXCEPT !.pc = @ + 1, !.stack = Append(@, v), !.y = ""]]
               /\ syms' = IF c.y = "" THEN TrimTo(syms, depth')
                          ELSE Append(TrimTo(syms, depth'), [name |-> c.y, depth |-> depth', const |-> TRUE, val |-> v])
               /\ UNCHANGED <<res, exc, heap>>

IRet == /\ I.i = "ret"          \* 输出 v : ends the enclosing method body / handler / program immediately
        /\ LET v == TopV IN
           IF F.kind = "handler"
           THEN \* the handler's value becomes the value of the protected body: leave handler + owner frame
                /\ depth' = frames[F.owner].sd0
                /\ Deliver(IF frames[F.owner].kind = "ctor" THEN frames[F.owner].this ELSE v, Take(frames, F.owner - 1))
           ELSE /\ depth' = F.sd0
                /\ Deliver(IF F.kind = "ctor" THEN F.this ELSE v, Front(frames))
        /\ UNCHANGED <<prog, out, tr, nact>>
IEndBody == /\ I.i = "endbody"  \* no 输出 executed: the value of the final statement
            /\ depth' = F.sd0
            /\ Deliver(IF F.kind = "ctor" THEN F.this ELSE F.last, Front(frames))
            /\ UNCHANGED <<prog, out, tr, nact>>
IEndHandler == /\ I.i = "endhandler"   \* handler without 输出: the protected body yields 空
               /\ depth' = frames[F.owner].sd0
               /\ Deliver(IF frames[F.owner].kind = "ctor" THEN frames[F.owner].this ELSE VNull, Take(frames, F.owner - 1))
               /\ UNCHANGED <<prog, out, tr, nact>>

(* ---- loops over collections ---- *)
IIterInit == /\ I.i = "iterinit"
             /\ IF TopV.t # "ref" \/ heap[TopV.id].k \notin {"list", "dict"} THEN Fault("type") /\ UNCHANGED <<frames, syms, depth>>
                ELSE IF Len(I.names) > 2 THEN Fault("params") /\ UNCHANGED <<frames, syms, depth>>
                ELSE LET c == heap[TopV.id]
                         n == IF c.k = "list" THEN Len(c.items) ELSE Len(c.keys)
                         it == [t |-> "iter", root |-> TopV.id, n |-> n, idx |-> 0,
                                keys |-> IF c.k = "dict" THEN c.keys ELSE <<>>]
                     IN /\ depth' = depth + 1
                        /\ syms' = syms \o [j \in 1..Len(I.names) |-> [name |-> I.names[j], depth |-> depth + 1, const |-> FALSE, val |-> VNull]]
                        /\ frames' = Adv(Append(Front(Stk), it))
                        /\ UNCHANGED <<heap, exc>>
             /\ UNCHANGED <<prog, out, tr, res, nact>>
SetSym(ss, name, v) == LET j == FindSym(ss, name, Len(ss)) IN [ss EXCEPT ![j].val = v]
IIterNext == /\ I.i = "iternext"
             /\ LET it == TopV IN
                IF it.idx >= it.n THEN frames' = JmpTo(I.off, Stk) /\ UNCHANGED <<syms, heap>>
                ELSE LET c == heap[it.root]
                         ix == it.idx + 1
                         isl == c.k = "list"
                         key == IF isl THEN VNum(ix) ELSE VStr(it.keys[ix])
                         q == IF isl THEN ix ELSE IndexOf(c.keys, it.keys[ix], 1)
                         raw == IF isl THEN (IF ix <= Len(c.items) THEN c.items[ix] ELSE VSkip)
                                ELSE (IF q > 0 THEN c.vals[q] ELSE VSkip)
                         d == DupV(raw, heap)
                         s1 == IF Len(I.names) = 2 THEN SetSym(syms, I.names[1], key) ELSE syms
                         s2 == IF Len(I.names) = 1 THEN SetSym(s1, I.names[1], d.v)
                               ELSE IF Len(I.names) = 2 THEN SetSym(s1, I.names[2], d.v) ELSE s1
                     IN /\ syms' = s2 /\ heap' = d.h
                        /\ frames' = Adv(Append(Front(Stk), [it EXCEPT !.idx = ix]))
             /\ UNCHANGED <<prog, depth, out, tr, exc, res, nact>>
IIterPop == /\ I.i = "iterpop"
            /\ depth' = depth - 1 /\ syms' = TrimTo(syms, depth - 1)
            /\ frames' = Adv(Front(Stk))
            /\ UNCHANGED <<prog, heap, out, tr, exc, res, nact>>

(* ---- exceptions ---- *)
IThrow == /\ I.i = "throw"
          /\ IF I.cls = "@exc" THEN
                  (IF I.n # 1 \/ TopV.t # "str" THEN Fault("params")
                   ELSE /\ heap' = Append(heap, [k |-> "exc", msg |-> TopV.v, bi |-> FALSE])
                        /\ exc' = [on |-> TRUE, v |-> VRef(Len(heap) + 1), cls |-> "@exc", msg |-> TopV.v, builtin |-> FALSE,
                                   path |-> F.cur, chain |-> [j \in 1..Len(frames) |-> frames[j].cur], arity |-> FALSE]
                        /\ UNCHANGED <<prog, frames, syms, depth, out, tr, res, nact>>)
             ELSE IF I.cls \notin ClassNames THEN Fault("undefined")
             ELSE \* custom class (the families use constructor-less exception classes with property 内容 set from argument 1)
                  LET cl == prog.classes[ClassIdx(I.cls)]
                      dv == ConstVals([j \in 1..Len(cl.props) |-> cl.props[j].e], heap)
                      cell == [k |-> "obj", cls |-> cl.name, keys |-> [j \in 1..Len(cl.props) |-> cl.props[j].n], vals |-> dv.vs]
                  IN /\ heap' = Append(dv.h, cell)
                     /\ exc' = [on |-> TRUE, v |-> VRef(Len(dv.h) + 1), cls |-> cl.name, msg |-> "", builtin |-> FALSE,
                                path |-> F.cur, chain |-> [j \in 1..Len(frames) |-> frames[j].cur], arity |-> FALSE]
                     /\ UNCHANGED <<prog, frames, syms, depth, out, tr, res, nact>>
          /\ TRUE

\* search the nearest enclosing body whose handler class matches, starting at frame j (downwards).
\* A handler frame's own body has no handlers; the body that owns it has already used its handlers.
RECURSIVE Catcher(_, _)
CatchIdx(fr, cls) == LET s == {q \in 1..Len(fr.catches) : fr.catches[q].cls = cls}
                     IN IF s = {} THEN 0 ELSE CHOOSE q \in s : \A r \in s : q <= r
Catcher(j, cls) ==
  IF j = 0 THEN [j |-> 0, q |-> 0]
  ELSE IF frames[j].kind = "handler" THEN Catcher(frames[j].owner - 1, cls)
  ELSE IF CatchIdx(frames[j], cls) > 0 THEN [j |-> j, q |-> CatchIdx(frames[j], cls)]
  ELSE Catcher(j - 1, cls)

IUnwind ==
  /\ exc.on
  /\ LET c == Catcher(Len(frames), exc.cls) IN
     IF c.j = 0 THEN
          /\ res' = [k |-> "error", cls |-> exc.cls, msg |-> exc.msg, builtin |-> exc.builtin, path |-> exc.path,
                     chain |-> exc.chain, arity |-> exc.arity]
          /\ frames' = <<>> /\ exc' = NoExc
          /\ UNCHANGED <<syms, depth, nact>>
     ELSE LET owner == frames[c.j]
              hf == [Frame("handler", owner.catches[c.q].code, <<>>, exc.v, owner.sd0 + 1, owner.cur, nact + 1, c.j)
                     EXCEPT !.cur = owner.cur, !.mod = owner.mod, !.base = owner.base]
          IN /\ frames' = Append(Take(frames, c.j), hf)
             /\ depth' = owner.sd0 + 1                       \* the exec scope of the owner stays (inputs visible)
             /\ syms' = TrimTo(syms, owner.sd0 + 1)
             /\ exc' = NoExc /\ nact' = nact + 1
             /\ UNCHANGED res
  /\ UNCHANGED <<prog, heap, out, tr>>

\* (written as one top-level disjunction so that TLC's coverage reports every instruction separately: bin/vacuity)
Step ==
  \/ (Running /\ exc.on /\ IUnwind)
  \/ (Running /\ ~exc.on /\ ILine) \/ (Running /\ ~exc.on /\ IPush) \/ (Running /\ ~exc.on /\ ILoad) \/ (Running /\ ~exc.on /\ IBin)
  \/ (Running /\ ~exc.on /\ IJsc) \/ (Running /\ ~exc.on /\ IChk) \/ (Running /\ ~exc.on /\ IJmp) \/ (Running /\ ~exc.on /\ IJmpF)
  \/ (Running /\ ~exc.on /\ IJmpX) \/ (Running /\ ~exc.on /\ IBegin) \/ (Running /\ ~exc.on /\ IEnd) \/ (Running /\ ~exc.on /\ IPop)
  \/ (Running /\ ~exc.on /\ ILast) \/ (Running /\ ~exc.on /\ IDecl) \/ (Running /\ ~exc.on /\ IStore) \/ (Running /\ ~exc.on /\ IMkList)
  \/ (Running /\ ~exc.on /\ IMkDict) \/ (Running /\ ~exc.on /\ IIndex) \/ (Running /\ ~exc.on /\ IStoreIdx) \/ (Running /\ ~exc.on /\ IMember)
  \/ (Running /\ ~exc.on /\ IThis) \/ (Running /\ ~exc.on /\ IStoreMem) \/ (Running /\ ~exc.on /\ IStoreThis) \/ (Running /\ ~exc.on /\ ICall)
  \/ (Running /\ ~exc.on /\ IMCall) \/ (Running /\ ~exc.on /\ INew) \/ (Running /\ ~exc.on /\ IRet) \/ (Running /\ ~exc.on /\ IEndBody)
  \/ (Running /\ ~exc.on /\ IEndHandler) \/ (Running /\ ~exc.on /\ IIterInit) \/ (Running /\ ~exc.on /\ IIterNext)
  \/ (Running /\ ~exc.on /\ IIterPop) \/ (Running /\ ~exc.on /\ IThrow)
Next == Step
\* a value outside the integer model reached an observable position: the vector is dropped
Skipped == \/ (res.k = "value" /\ res.v.t = "skip")
           \/ \E j \in 1..Len(out) : \E q \in 1..Len(out[j]) : out[j][q].t = "skip"

(* ------------------------------------------------------------------ invariants (the properties) *)
\* C02 ReturnStops: once a frame's 输出 executed the frame is gone - by construction IRet pops it in
\* the same step; what remains to check is that no frame ever continues with hasRet set.
ReturnStops == \A j \in 1..Len(frames) : ~frames[j].hasRet
\* C06/C09 FrameScopeBalanced: frames' entry depths are strictly increasing and the current depth
\* is above the top frame's entry depth; at the end of the program everything is closed.
ScopeBalanced ==
  /\ \A j \in 1..Len(frames) : frames[j].sd0 >= 0
  /\ \A j \in 1..Len(frames) - 1 : frames[j].sd0 <= frames[j + 1].sd0
  /\ (frames # <<>> /\ ~exc.on) => depth >= F.sd0
  /\ \A j \in 1..Len(syms) : syms[j].depth <= depth
  /\ \A j \in 1..Len(syms) - 1 : syms[j].depth <= syms[j + 1].depth
NoDuplicateAtDepth == \A a, b \in 1..Len(syms) : (a # b /\ syms[a].name = syms[b].name) => syms[a].depth # syms[b].depth
\* C07 FreshOnBind: immediately after a variable has been bound by 令 / = (the instruction before pc is
\* the decl/store that just completed) the list/dictionary cells reachable from the bound slot are
\* disjoint from the cells reachable from every other variable slot - each name has its own copy.
\* (Arguments of calls and built-in methods are passed without a copy; the property does not cover them.)
SlotReach(j) == Reach(syms[j].val, heap, 6)
JustBound == /\ frames # <<>> /\ ~exc.on /\ Running /\ F.pc > 1 /\ F.pc - 1 <= Len(F.code)
             /\ F.code[F.pc - 1].i \in {"decl", "store"}
BoundNames == LET J == F.code[F.pc - 1] IN IF J.i = "decl" THEN {J.names[q] : q \in 1..Len(J.names)} ELSE {J.n}
FreshOnBind == JustBound =>
  \A n \in BoundNames : LET j == Lookup(n) IN
     j > 0 => \A q \in 1..Len(syms) : q # j => SlotReach(q) \cap SlotReach(j) = {}
\* C08/C09: handler frames sit directly above their owner; owners are below
HandlerShape == \A j \in 1..Len(frames) : frames[j].kind = "handler" => (frames[j].owner >= 1 /\ frames[j].owner < j)
TypeOK == /\ depth >= 0 /\ res.k \in {"run", "value", "error"}
          /\ (res.k # "run" => frames = <<>>)

(* ------------------------------------------------------------------ emission *)
Emit == (res.k # "run") =>
  PrintT(ToJson([k |-> "prog", id |-> prog.id, res |-> res, out |-> out, tr |-> tr,
                 skip |-> Skipped, depth |-> depth, nsyms |-> Len(syms)]))
=============================================================================
