CONSTANTS
  Mods = {"a", "b", "c"}
  Missing = {}
  MainOrders = {}
  NRandom = 0
INIT FInit
NEXT FNext
INVARIANTS BodyAtMostOnce ImportsBeforeBody ReportIsLoadStack FEmit
CHECK_DEADLOCK FALSE
