CONSTANTS
  MaxLen = 4
  Alphabet = {"ql1","qr1","ql2","bt","CR","LF","C","R","L","F","U","+","1","D","8","x"}
  Mode = "decode"
  Openers = {"ql1","ql5"}
SPECIFICATION Spec
INVARIANTS RoundTrip DepthPositive Emit
PROPERTY Progress
CHECK_DEADLOCK FALSE
