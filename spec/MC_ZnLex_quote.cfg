CONSTANTS
  MaxLen = 6
  Alphabet = {"L","wei","bt","lq","rq","sp","dot"}
SPECIFICATION Spec
INVARIANTS SpansOK Covers Deterministic Emit
PROPERTY Progress
CHECK_DEADLOCK FALSE
