------------------------------- MODULE MC_ZnVM -------------------------------
(* Open client of ZnVM: every history of length <= N. The history (with the replies) is the replay
   vector; values are the step numbers, so every write is distinguishable. *)
EXTENDS ZnVM, Json
CONSTANTS N, MaxDepth
VARIABLE hist
vars == <<env, rep, hist>>
Init == ZInit /\ hist = <<>>
V == Len(hist) + 1
Op(o, n, c) == [o |-> o, n |-> n, c |-> c, v |-> V, r |-> rep']
Next ==
  /\ Len(hist) < N
  /\ \/ (Depth < MaxDepth /\ Begin /\ hist' = Append(hist, Op("begin", "", FALSE)))
     \/ (End /\ hist' = Append(hist, Op("end", "", FALSE)))
     \/ \E n \in Names \cup Globals :
          \/ \E c \in BOOLEAN : Decl(n, c, V) /\ hist' = Append(hist, Op("decl", n, c))
          \/ Set(n, V) /\ hist' = Append(hist, Op("set", n, FALSE))
          \/ Get(n) /\ hist' = Append(hist, Op("get", n, FALSE))
Spec == Init /\ [][Next]_vars
Props == [][ConstNeverChanges /\ EndRestores /\ FailedIsNoOp]_vars
Emit == (Len(hist) = N) => PrintT(ToJson([k |-> "hist", h |-> hist]))
View == <<env, rep, Len(hist)>>
=============================================================================
