CONSTANTS
  Files <- FilesDef
  BS = 2
  Shared = TRUE
INIT Init
NEXT Next
INVARIANTS Refines2
CHECK_DEADLOCK FALSE
