INIT Init
NEXT Next
INVARIANTS RowsWellFormed TableSortedDisjoint SameSet LexAgrees
CHECK_DEADLOCK FALSE
