INIT Init
NEXT Next
INVARIANTS RowsWellFormed TableSortedDisjoint SameSet
CHECK_DEADLOCK FALSE
