CONSTANTS
  Kinds = {"collectsortfold"}
INIT Init
NEXT Next
INVARIANTS Confluent
CHECK_DEADLOCK FALSE
