------------------------------- MODULE Trace_ZnPrefork -------------------------------
(* Trace validation for C20: event logs recorded by the H5 hooks from the REAL prefork master
   (free-running load with crashes / hung requests, and gated replays of TLC schedules) must be
   behaviours of ZnPrefork with Design = "intended".
   Events (pids renumbered 1,2,.. in start order):
     started p            = SpawnStart of some loop (the loop is not logged: existential)
     exited p             = the process is gone (worker-internal reasons are not logged)
     add p rc nc          = MasterAdd; binds refCount and the size of the table after the step
     update p st rc nc n  = MasterUpdate with the logged report; n = size of the spawn loop it started (0: none)
     del p rc nc n        = MasterDel; n = size of the refill loop it started (0: none)
     reset                = a new recorded run starts
   The worker side (accept / done / pipe contents) is not logged; the update action takes the report
   from the log instead of the head of the pipe.  The RECEIVE of a registration is not logged either (the
   master logs `add` after processing it; the spawn loop, released by the rendezvous, may log its next
   `started` before that): `started` and `add` are therefore each allowed to be preceded by the silent
   receive step (RecvThenStart / RecvThenAdd).  Bound and the bookkeeping invariants are evaluated
   after EVERY event. *)
EXTENDS ZnPrefork, TLCExt
Tr == ndJsonDeserialize("trace.ndjson")
VARIABLE l
tvars == <<live, childs, refCount, loops, pipe, waits, armed, wst, nextPid, reqs, faults, got, l>>
TraceInit == Init /\ l = 1
NewLoopSize == IF Len(loops') > Len(loops) THEN loops'[Len(loops')].left ELSE 0
Bind(e) == refCount' = e.rc /\ Cardinality(DOMAIN childs') = e.nc
TStarted(e) == /\ nextPid = e.pid /\ \E s \in 1..Len(loops) : SpawnStart(s) \/ RecvThenStart(s)
TExited(e) == /\ e.pid \in live /\ Exit(e.pid)
              /\ UNCHANGED <<childs, refCount, loops, pipe, armed, wst, nextPid, reqs, faults, got>>
TAdd(e) == /\ \/ (got = e.pid /\ MasterAdd)
              \/ (\E s \in 1..Len(loops) : loops[s].pending = e.pid /\ RecvThenAdd(s))
           /\ Bind(e)
TUpdate(e) ==
  /\ got = 0
  /\ LET c2 == IF e.pid \in Registered THEN [childs EXCEPT ![e.pid] = e.st] ELSE childs
     IN /\ childs' = c2
        /\ IF HasIdle(c2) THEN UNCHANGED <<refCount, loops>>
           ELSE LET final == Min(refCount + Batch, MaxProcs)
                    add == final - refCount
                IN /\ refCount' = final
                   /\ loops' = IF add > 0 THEN Append(loops, Loop(add)) ELSE loops
  /\ UNCHANGED <<live, pipe, waits, armed, wst, nextPid, reqs, faults, got>>
  /\ Bind(e) /\ NewLoopSize = e.n
TDel(e) == MasterDel(e.pid) /\ Bind(e) /\ NewLoopSize = e.n
TReset(e) == /\ live' = {} /\ childs' = <<>> /\ pipe' = <<>> /\ waits' = {} /\ armed' = {} /\ wst' = <<>>
             /\ refCount' = InitProcs /\ loops' = << Loop(InitProcs) >> /\ nextPid' = 1 /\ reqs' = 0 /\ faults' = 0 /\ got' = 0
TraceNext ==
  /\ l <= Len(Tr) /\ l' = l + 1
  /\ LET e == Tr[l] IN
     CASE e.e = "started" -> TStarted(e)
       [] e.e = "exited" -> TExited(e)
       [] e.e = "add" -> TAdd(e)
       [] e.e = "update" -> TUpdate(e)
       [] e.e = "del" -> TDel(e)
       [] e.e = "reset" -> TReset(e)
TraceSpec == TraceInit /\ [][TraceNext]_tvars
TraceAccepted == TLCGet("stats").diameter - 1 = Len(Tr)
=============================================================================
