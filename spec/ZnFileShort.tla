---------------------------- MODULE ZnFileShort ----------------------------
(* C17, "however the reads are chunked": the operating system may deliver FEWER bytes than a read asks for (a pipe, a
   FIFO, a slow device), a different number each time.  Every read of the chunked decoder of ZnFile delivers any number
   1..bs of bytes, chosen anew for each read; the decoder must still refine the one-shot decoder.  The schedule of
   delivered sizes is recorded; every terminal state emits (file, schedule, result) and the harness replays it by feeding
   the concrete bytes through a FIFO in exactly those portions. *)
EXTENDS ZnFile
VARIABLE sched
svars == <<file, bs, pos, carry, out, st, started, sched>>
SInit == Init /\ sched = <<>>
SNext == \E n \in 1..bs :
           /\ (pos = Len(file) => n = 1)          \* at end of file every read delivers nothing: one representative
           /\ n <= Len(file) - pos \/ pos = Len(file)   \* a read cannot deliver more than is left
           /\ ReadBlockN(n)
           /\ sched' = IF pos < Len(file) THEN Append(sched, n) ELSE sched
SEmit == st \in {"done", "err"} =>
          PrintT(ToJson([k |-> "sched", f |-> file, sched |-> sched, ok |-> (st = "done"),
                         chars |-> IF st = "done" THEN DecAll(file) ELSE <<>>,
                         bom |-> (st = "done" /\ DecAll(file) # <<>> /\ DecAll(file)[1] = BOM)]))
=============================================================================
