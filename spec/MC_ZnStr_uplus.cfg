CONSTANTS
  MaxLen = 8
  Alphabet = {"1", "8", "D", "F"}
  Mode = "uplus"
  Openers = {"ql1"}
SPECIFICATION Spec
INVARIANTS RoundTrip DepthPositive Emit
PROPERTY Progress
CHECK_DEADLOCK FALSE
