CONSTANTS
  MaxDev = 5
  MinBrace = FALSE
  Mutate = FALSE
  Globals = "all"
INIT Init
NEXT Next
INVARIANTS Emit
CHECK_DEADLOCK FALSE
