CONSTANTS
  MaxDev = 5
  Mutate = FALSE
  Globals = "all"
INIT Init
NEXT Next
INVARIANTS Emit
CHECK_DEADLOCK FALSE
