// maprange - static inventory for C11: lists every `range` statement of DemoHn/Zn whose operand has map
// type (go/types information via golang.org/x/tools/go/packages, offline). Output: one JSON line per site.
package main

import (
	"crypto/sha1"
	"encoding/hex"
	"encoding/json"
	"fmt"
	"go/ast"
	"go/printer"
	"go/types"
	"os"
	"path/filepath"
	"strings"

	"golang.org/x/tools/go/packages"
)

func main() {
	dir := "/repo"
	if len(os.Args) > 1 {
		dir = os.Args[1]
	}
	cfg := &packages.Config{Mode: packages.NeedName | packages.NeedFiles | packages.NeedSyntax | packages.NeedTypes | packages.NeedTypesInfo | packages.NeedImports | packages.NeedDeps,
		Dir: dir, BuildFlags: []string{"-tags", "verif"}, Tests: false}
	pkgs, err := packages.Load(cfg, "./pkg/...", "./stdlib/json", "./stdlib/file")
	if err != nil {
		fmt.Fprintln(os.Stderr, "load:", err)
		os.Exit(2)
	}
	enc := json.NewEncoder(os.Stdout)
	bad := 0
	if len(os.Args) > 2 && os.Args[2] == "globals" {
		// inventory of package-level variables (C16: process-wide cells that outlive an execution)
		for _, p := range pkgs {
			if len(p.Errors) > 0 {
				for _, e := range p.Errors {
					fmt.Fprintln(os.Stderr, "pkg error:", p.PkgPath, e)
				}
				os.Exit(3)
			}
			scope := p.Types.Scope()
			for _, name := range scope.Names() {
				v, ok := scope.Lookup(name).(*types.Var)
				if !ok {
					continue
				}
				fname := p.Fset.Position(v.Pos()).Filename
				rel, _ := filepath.Rel(dir, fname)
				if strings.HasSuffix(rel, "_test.go") {
					continue
				}
				enc.Encode(map[string]interface{}{"pkg": strings.TrimPrefix(p.PkgPath, "github.com/DemoHn/Zn/"), "name": name,
					"type": types.TypeString(v.Type(), func(q *types.Package) string { return q.Name() }), "file": rel})
			}
		}
		return
	}
	for _, p := range pkgs {
		if len(p.Errors) > 0 {
			for _, e := range p.Errors {
				fmt.Fprintln(os.Stderr, "pkg error:", p.PkgPath, e)
			}
			bad++
			continue
		}
		for _, f := range p.Syntax {
			fname := p.Fset.Position(f.Pos()).Filename
			rel, _ := filepath.Rel(dir, fname)
			if strings.HasSuffix(rel, "_test.go") {
				continue
			}
			var fn string
			ast.Inspect(f, func(n ast.Node) bool {
				switch x := n.(type) {
				case *ast.FuncDecl:
					fn = x.Name.Name
				case *ast.RangeStmt:
					t := p.TypesInfo.TypeOf(x.X)
					if t == nil {
						return true
					}
					if _, ok := t.Underlying().(*types.Map); ok {
						// hash of the loop (header + body) with all white space removed: a changed loop must be re-modelled
						var sb strings.Builder
						printer.Fprint(&sb, p.Fset, x)
						norm := strings.Join(strings.Fields(sb.String()), "")
						h := sha1.Sum([]byte(norm))
						enc.Encode(map[string]interface{}{"file": rel, "func": fn, "expr": types.ExprString(x.X), "line": p.Fset.Position(x.Pos()).Line,
							"hash": hex.EncodeToString(h[:])[:8]})
					}
				}
				return true
			})
		}
	}
	if bad > 0 {
		os.Exit(3)
	}
}
