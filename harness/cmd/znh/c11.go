package main

// "httprepeat" mode (C11): values built from external data.  The SAME request (query parameters and
// headers given by the case) is served N times by pkg/server's ZnHttpHandler running a program that
// answers with the dictionaries the handler built; every answer must be the same text.

import (
	"encoding/json"
	"net/http"
	"net/http/httptest"
	"os"
	"path/filepath"
	"strings"

	"github.com/DemoHn/Zn/pkg/exec"
	"github.com/DemoHn/Zn/pkg/server"

	"verifharness/internal/pool"
)

type httpRepeatCase struct {
	Target  string     `json:"target"`
	Headers [][]string `json:"headers"`
	Src     string     `json:"src"`
	N       int        `json:"n"`
	Body    string     `json:"body"` // when set: POST with this application/json body
}

func handleHTTPRepeat(raw json.RawMessage) interface{} {
	var c httpRepeatCase
	if err := json.Unmarshal(raw, &c); err != nil {
		return map[string]interface{}{"obs": "harness-error", "detail": err.Error()}
	}
	dir, err := os.MkdirTemp(os.Getenv("VERIF_SCRATCH"), "httprepeat")
	if err != nil {
		return map[string]interface{}{"obs": "harness-error", "detail": err.Error()}
	}
	defer os.RemoveAll(dir)
	entry := filepath.Join(dir, "main.zn")
	if err := os.WriteFile(entry, []byte(c.Src), 0o644); err != nil {
		return map[string]interface{}{"obs": "harness-error", "detail": err.Error()}
	}
	h := server.NewZnHttpHandler(exec.NewInterpreter("verif").SetExternalLibs(libs()), entry)
	seen := map[string]int{}
	var firsts []string
	for i := 0; i < c.N; i++ {
		req := httptest.NewRequest(http.MethodGet, c.Target, nil)
		if c.Body != "" {
			req = httptest.NewRequest(http.MethodPost, c.Target, strings.NewReader(c.Body))
			req.Header.Set("Content-Type", "application/json")
		}
		for _, kv := range c.Headers {
			req.Header[kv[0]] = append(req.Header[kv[0]], kv[1]) // raw names: no canonicalisation
		}
		rec := httptest.NewRecorder()
		h.ServeHTTP(rec, req)
		b, _ := json.Marshal(map[string]interface{}{"code": rec.Code, "body": rec.Body.String()})
		k := string(b)
		if _, ok := seen[k]; !ok {
			firsts = append(firsts, k)
		}
		seen[k]++
	}
	counts := []int{}
	for _, f := range firsts {
		counts = append(counts, seen[f])
	}
	return map[string]interface{}{"obs": "done", "distinct": len(firsts), "records": firsts, "counts": counts}
}

func init() { pool.Register("httprepeat", handleHTTPRepeat) }
