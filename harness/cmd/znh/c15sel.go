package main

// C15 binding, export facet ("modsel" mode): one ZnExport vector (import everything, or a selective list in the
// order TLC wrote it) becomes a main file importing module 甲 (or the library 《@JSON》) that way; every name of the
// module is probed from the importer: usable? and, if usable, assignable?

import (
	"encoding/json"
	"fmt"
	"os"
	"path/filepath"
	"strings"

	"verifharness/internal/pool"
	"verifharness/internal/zn"
)

type modSelStmt struct {
	Mode string   `json:"mode"` // "all" | "sel"
	Sel  []string `json:"sel"`  // symbols m h t p x (module) / g r x (library)
}

type modSelCase struct {
	Stmts []modSelStmt `json:"stmts"` // one or two import statements of the same module / library
	Lib   bool         `json:"lib"`
}

var selName = map[string]string{"m": "甲方法", "h": "甲辅助", "t": "甲类", "p": "甲私有", "x": "甲无此名", "g": "生成JSON", "r": "解析JSON"}

func handleModSel(raw json.RawMessage) interface{} {
	var c modSelCase
	if err := json.Unmarshal(raw, &c); err != nil {
		return map[string]interface{}{"obs": "harness-error", "detail": err.Error()}
	}
	base := os.Getenv("VERIF_SCRATCH")
	if base == "" {
		base = os.TempDir()
	}
	dir, err := os.MkdirTemp(base, "modsel-")
	if err != nil {
		return map[string]interface{}{"obs": "harness-error", "detail": err.Error()}
	}
	defer os.RemoveAll(dir)
	os.WriteFile(filepath.Join(dir, "甲.zn"), []byte("如何甲方法？\n    输出（甲辅助）\n\n如何甲辅助？\n    输出“甲-help”\n\n定义甲类：\n    其名 = “甲”\n\n令甲私有 = 1\n"), 0644)
	var imp strings.Builder
	for _, st := range c.Stmts {
		if c.Lib {
			imp.WriteString("导入《@JSON》")
		} else {
			imp.WriteString("导入“甲”")
		}
		if st.Mode == "sel" {
			var ns []string
			for _, s := range st.Sel {
				if c.Lib && s == "x" {
					ns = append(ns, "无此函数")
				} else {
					ns = append(ns, selName[s])
				}
			}
			imp.WriteString("之" + strings.Join(ns, "、"))
		}
		imp.WriteString("\n")
	}
	var sb strings.Builder
	sb.WriteString(imp.String())
	var syms []string
	if c.Lib {
		syms = []string{"g", "r"}
		sb.WriteString("如何试g？\n    令果 = （生成JSON：【“k” = 1】）\n    输出“ok”\n    拦截异常：\n        输出“ERR”\n\n")
		sb.WriteString("如何试r？\n    令果 = （解析JSON：“{}”）\n    输出“ok”\n    拦截异常：\n        输出“ERR”\n\n")
	} else {
		syms = []string{"m", "h", "t", "p"}
		sb.WriteString("如何试m？\n    输出（甲方法）\n    拦截异常：\n        输出“ERR”\n\n")
		sb.WriteString("如何试h？\n    输出（甲辅助）\n    拦截异常：\n        输出“ERR”\n\n")
		sb.WriteString("如何试t？\n    令物 = （新建甲类）\n    输出物之名\n    拦截异常：\n        输出“ERR”\n\n")
		sb.WriteString("如何试p？\n    令值 = 甲私有\n    输出“ok”\n    拦截异常：\n        输出“ERR”\n\n")
	}
	for _, s := range syms {
		fmt.Fprintf(&sb, "如何改%s？\n    %s = 1\n    输出“assigned”\n    拦截异常：\n        输出“RO”\n\n", s, selName[s])
	}
	var a, b []string
	for _, s := range syms {
		a = append(a, "（试"+s+"）")
		b = append(b, "（改"+s+"）")
	}
	sb.WriteString("（显示：" + strings.Join(a, "、") + "）\n")
	sb.WriteString("（显示：" + strings.Join(b, "、") + "）\n")
	// after the assignment attempts every name still is what it was
	sb.WriteString("（显示：" + strings.Join(a, "、") + "）\n")
	mainPath := filepath.Join(dir, "主.zn")
	os.WriteFile(mainPath, []byte(sb.String()), 0644)
	o := zn.RunFile(mainPath, nil)
	return map[string]interface{}{"obs": o.Obs, "display": o.Display, "code": o.Code, "msg": lastLine(o.Msg), "main": sb.String()}
}

func init() { pool.Register("modsel", handleModSel) }
