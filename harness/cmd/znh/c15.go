package main

// C15 binding ("module" mode): a ZnModule vector (import digraph + main import order) becomes a directory of
// .zn files (module names with 1-3 path segments); LoadFile(main).Execute; display trace and error code recorded.

import (
	"encoding/json"
	"fmt"
	"os"
	"path/filepath"
	"sort"
	"strings"

	rt "github.com/DemoHn/Zn/pkg/runtime"

	"verifharness/internal/pool"
	"verifharness/internal/zn"
)

var modName = map[string]string{"a": "甲", "b": "库-乙", "c": "深-层-丙", "d": "缺-丁", "e": "库-戊"}
var modShort = map[string]string{"a": "甲", "b": "乙", "c": "丙", "d": "丁", "e": "戊"}

type modCase struct {
	Edges [][]string `json:"edges"`
	Main  []string   `json:"main"`
	Mods  []string   `json:"mods"`
	Hollow []string  `json:"hollow"` // these module files consist of their 导入 statements only
	Libs  bool       `json:"libs"`  // every module file and the main file also import the registered library 《@JSON》
	More  bool       `json:"more"`  // further home-module probes (handler, type construction, type method)
	Extra string     `json:"extra"` // extra statements appended to the main file (probe programs)
	Sel   map[string][]string `json:"sel"` // selective import lists for main: module -> exported names
	Names map[string]string   `json:"names"` // module symbol -> the name written in 导入“…” (segments separated by -); default: modName
	Bad   string              `json:"bad"`   // this module's body FAULTS (a top-level statement divides by zero) while the module is being imported
	Trace bool                `json:"trace"` // record the loader's events (script-frame pushes / pops, body markers, outcome) for Trace_ZnModule
	Repeat int                `json:"repeat"` // C11: execute the main file this many times (fresh interpreter each time) and report the distinct outcomes
}

func (c *modCase) nameOf(m string) string {
	if n, ok := c.Names[m]; ok && n != "" {
		return n
	}
	return modName[m]
}

func modPathN(dir, name string) string {
	parts := strings.Split(name, "-")
	parts[len(parts)-1] += ".zn"
	return filepath.Join(append([]string{dir}, parts...)...)
}

func modPath(dir, m string) string {
	parts := strings.Split(modName[m], "-")
	parts[len(parts)-1] += ".zn"
	return filepath.Join(append([]string{dir}, parts...)...)
}

func handleModule(raw json.RawMessage) interface{} {
	var c modCase
	if err := json.Unmarshal(raw, &c); err != nil {
		return map[string]interface{}{"obs": "harness-error", "detail": err.Error()}
	}
	base := os.Getenv("VERIF_SCRATCH")
	if base == "" {
		base = os.TempDir()
	}
	dir, err := os.MkdirTemp(base, "mod-")
	if err != nil {
		return map[string]interface{}{"obs": "harness-error", "detail": err.Error()}
	}
	defer os.RemoveAll(dir)
	badLine := 0
	imports := map[string][]string{}
	for _, e := range c.Edges {
		imports[e[0]] = append(imports[e[0]], e[1])
	}
	for _, m := range c.Mods {
		if m == "d" {
			continue // the missing module has no file
		}
		deps := imports[m]
		sort.Strings(deps)
		var sb strings.Builder
		if c.Libs {
			sb.WriteString("导入《@JSON》\n")
		}
		for _, d := range deps {
			sb.WriteString("导入“" + c.nameOf(d) + "”\n")
		}
		hollow := false
		for _, h := range c.Hollow {
			if h == m {
				hollow = true
			}
		}
		if hollow {
			p := modPathN(dir, c.nameOf(m))
			os.MkdirAll(filepath.Dir(p), 0755)
			os.WriteFile(p, []byte(sb.String()), 0644)
			continue
		}
		x := modShort[m]
		fmt.Fprintf(&sb, "如何%s方法？\n    输出（%s辅助）\n\n如何%s辅助？\n    输出“%s-help”\n\n", x, x, x, x)
		// the module's own names are also in reach of a handler block, of a body that builds the module's type,
		// and of a method of that type
		fmt.Fprintf(&sb, "如何%s险？\n    抛出异常：“x”！\n    拦截异常：\n        输出（%s辅助）\n\n如何%s造？\n    令物 = （新建%s类）\n    输出物之名\n\n", x, x, x, x)
		fmt.Fprintf(&sb, "定义%s类：\n    其名 = “%s”\n\n    如何助？\n        输出（%s辅助）\n\n", x, x, x)
		if c.Bad == m {
			badLine = strings.Count(sb.String(), "\n") + 1
			sb.WriteString("令丑 = 1 / 0\n")
		}
		fmt.Fprintf(&sb, "令%s私有 = 1\n（显示：“body-%s”）\n", x, m)
		if c.More {
			// a method that uses the names THIS module imported (methods of the modules it imports, a library function): it
			// must work the same when it is called from the module's importer after the module's body has finished
			items := []string{"“T”"}
			for _, d := range deps {
				items = append(items, "（"+modShort[d]+"方法）")
			}
			if c.Libs {
				items = append(items, "（生成JSON：【“k” = 1】）")
			}
			fmt.Fprintf(&sb, "如何%s转？\n    输出以【%s】（拼接：“+”）\n", x, strings.Join(items, "，"))
		}
		p := modPathN(dir, c.nameOf(m))
		os.MkdirAll(filepath.Dir(p), 0755)
		os.WriteFile(p, []byte(sb.String()), 0644)
	}
	var sb strings.Builder
	if c.Libs {
		sb.WriteString("导入《@JSON》\n")
	}
	for _, m := range c.Main {
		sb.WriteString("导入“" + c.nameOf(m) + "”")
		if names, ok := c.Sel[m]; ok {
			sb.WriteString("之" + strings.Join(names, "、"))
		}
		sb.WriteString("\n")
	}
	for _, m := range c.Mods {
		x := modShort[m]
		fmt.Fprintf(&sb, "如何试%s？\n    输出（%s方法）\n    拦截异常：\n        输出“ERR”\n\n", x, x)
		if c.More {
			fmt.Fprintf(&sb, "如何试%s险？\n    输出（%s险）\n    拦截异常：\n        输出“ERR”\n\n", x, x)
			fmt.Fprintf(&sb, "如何试%s造？\n    输出（%s造）\n    拦截异常：\n        输出“ERR”\n\n", x, x)
			fmt.Fprintf(&sb, "如何试%s助？\n    令物 = （新建%s类）\n    输出以物（助）\n    拦截异常：\n        输出“ERR”\n\n", x, x)
			fmt.Fprintf(&sb, "如何试%s转？\n    输出（%s转）\n    拦截异常：\n        输出“ERR”\n\n", x, x)
		}
	}
	sb.WriteString("（显示：“body-main”）\n")
	var probes []string
	for _, m := range c.Mods {
		probes = append(probes, "（试"+modShort[m]+"）")
	}
	sb.WriteString("（显示：" + strings.Join(probes, "、") + "）\n")
	if c.More {
		for _, kind := range []string{"险", "造", "助", "转"} {
			var ps []string
			for _, m := range c.Mods {
				x := modShort[m]
				ps = append(ps, "（试"+x+kind+"）")
			}
			sb.WriteString("（显示：" + strings.Join(ps, "、") + "）\n")
		}
	}
	sb.WriteString(c.Extra)
	mainPath := filepath.Join(dir, "主.zn")
	os.WriteFile(mainPath, []byte(sb.String()), 0644)
	var mevs []map[string]interface{}
	if c.Trace {
		symOf := func(name string) string {
			for k := range modName {
				if c.nameOf(k) == name {
					return k
				}
			}
			return "main"
		}
		var fstack []string
		rt.VerifHook = func(vm *rt.VM, ev string, name string, n int) {
			switch ev {
			case "push":
				if n == int(rt.CALL_TYPE_SCRIPT) {
					m := "main"
					if cm := vm.GetCurrentModule(); cm != nil && len(fstack) > 0 {
						m = symOf(cm.GetName())
					}
					fstack = append(fstack, m)
					mevs = append(mevs, map[string]interface{}{"e": "begin", "m": m})
				} else {
					fstack = append(fstack, "")
				}
			case "pop":
				if k := len(fstack) - 1; k >= 0 {
					if fstack[k] != "" {
						mevs = append(mevs, map[string]interface{}{"e": "end", "m": fstack[k]})
					}
					fstack = fstack[:k]
				}
			}
		}
		zn.OnDisplay = func(first string) {
			if strings.HasPrefix(first, "body-") {
				mevs = append(mevs, map[string]interface{}{"e": "body", "m": first[5:]})
			}
		}
		defer func() { rt.VerifHook = nil; zn.OnDisplay = nil }()
	}
	o := zn.RunFile(mainPath, nil)
	if c.Trace {
		rt.VerifHook = nil
		zn.OnDisplay = nil
		res := "done"
		if o.Obs == "error" {
			switch o.Code {
			case 63:
				res = "circular"
			case 60:
				res = "missing"
			default:
				res = "error"
			}
			// frames popped while the error unwinds are not loads that completed
			for len(mevs) > 0 && mevs[len(mevs)-1]["e"] == "end" {
				mevs = mevs[:len(mevs)-1]
			}
		} else if o.Obs != "value" {
			res = o.Obs
		}
		mevs = append(mevs, map[string]interface{}{"e": "result", "r": res})
		return map[string]interface{}{"obs": o.Obs, "display": o.Display, "code": o.Code, "msg": lastLine(o.Msg), "val": o.Val, "main": sb.String(), "mevs": mevs}
	}
	if c.Bad != "" {
		chain, cmods, _ := parseChain(o.Text)
		var csyms []string
		for _, n := range cmods {
			sym := "main"
			for k := range modName {
				if n != "" && c.nameOf(k) == n {
					sym = k
				}
			}
			if n == "?" {
				sym = "?"
			}
			csyms = append(csyms, sym)
		}
		return map[string]interface{}{"obs": o.Obs, "display": o.Display, "code": o.Code, "msg": lastLine(o.Msg), "main": sb.String(), "chain": chain, "chainm": csyms, "badline": badLine, "text": o.Text}
	}
	if c.Repeat > 1 {
		seen := map[string]int{}
		var firsts []map[string]interface{}
		for i := 0; i < c.Repeat; i++ {
			oi := zn.RunFile(mainPath, nil)
			rec := map[string]interface{}{"obs": oi.Obs, "val": oi.Val, "display": oi.Display, "code": oi.Code, "msg": oi.Msg, "text": oi.Text}
			b, _ := json.Marshal(rec)
			if _, ok := seen[string(b)]; !ok {
				firsts = append(firsts, rec)
			}
			seen[string(b)]++
		}
		var counts []int
		for _, f := range firsts {
			b, _ := json.Marshal(f)
			counts = append(counts, seen[string(b)])
		}
		return map[string]interface{}{"obs": "done", "distinct": len(firsts), "records": firsts, "counts": counts, "main": sb.String()}
	}
	return map[string]interface{}{"obs": o.Obs, "display": o.Display, "code": o.Code, "msg": lastLine(o.Msg), "val": o.Val, "main": sb.String()}
}

func init() { pool.Register("module", handleModule) }
