package main

// "synpos" mode (C18 syntax part, C05): texts with one offending character at a spec-known line and
// column; the rendered syntax error must name that line and put the marker under that character.

import (
	"encoding/json"
	"strings"

	"verifharness/internal/pool"
	"verifharness/internal/zn"
)

type synCase struct {
	T   []string `json:"t"`
	Rep int      `json:"rep"`
}

var synNarrow = []rune{'a', 'b', 'Z', 'é'}
var synWide = []rune{'甲', '中', 'あ', '한'}
var synBad = []rune{'~', '\\', 0x01, '«', '"', '\''}

func synText(t []string, rep int) (string, []string) {
	var sb strings.Builder
	parts := make([]string, len(t))
	for i, c := range t {
		var r rune
		switch c {
		case "a":
			r = synNarrow[(rep+i)%len(synNarrow)]
		case "W":
			r = synWide[(rep+i)%len(synWide)]
		case "LF":
			r = '\n'
		case "CR":
			r = '\r'
		case "S":
			r = ' '
		case "T":
			r = '\t'
		case "X":
			r = synBad[rep%len(synBad)]
		}
		sb.WriteRune(r)
		parts[i] = string(r)
	}
	return sb.String(), parts
}

func handleSynPos(raw json.RawMessage) interface{} {
	var c synCase
	if err := json.Unmarshal(raw, &c); err != nil {
		return map[string]interface{}{"obs": "harness-error", "detail": err.Error()}
	}
	src, parts := synText(c.T, c.Rep)
	o := zn.RunScript(src, nil)
	res := map[string]interface{}{"obs": o.Obs, "errkind": o.ErrKind, "code": o.Code, "src": src, "parts": parts, "text": o.Text}
	if o.Obs == "error" {
		chain, _, _ := parseChain(o.Text)
		if len(chain) > 0 {
			res["line"] = chain[0]
		}
		lines := strings.Split(o.Text, "\n")
		for i, l := range lines {
			if strings.HasSuffix(l, "^") && strings.TrimSpace(l) == "^" && i > 0 {
				res["caret"] = len([]rune(l)) - 1 - 4
				q := lines[i-1]
				if strings.HasPrefix(q, "    ") {
					q = q[4:]
				}
				res["quoted"] = q
			}
		}
	}
	return res
}

func init() { pool.Register("synpos", handleSynPos) }
