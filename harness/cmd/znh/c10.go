package main

// C10 binding ("inv" mode): one built-in member access / method call / free function call / constructor call per
// program, receiver and arguments passed as input variables (boundary values that have no literal: NaN, Inf, -2^63...).
// The observation is the outcome CLASS: value | nil-value | zn-error  (panic / exit / timeout are observed by the pool).

import (
	"encoding/json"
	"math"
	"strings"

	"github.com/DemoHn/Zn/pkg/common"
	"github.com/DemoHn/Zn/pkg/exec"
	r "github.com/DemoHn/Zn/pkg/runtime"
	"github.com/DemoHn/Zn/pkg/value"

	"verifharness/internal/pool"
	"verifharness/internal/zn"
)

func poolValue(id string) r.Element {
	switch id {
	case "n0":
		return value.NewNumber(0)
	case "nm1":
		return value.NewNumber(-1)
	case "n15":
		return value.NewNumber(1.5)
	case "nbig":
		return value.NewNumber(1e308)
	case "nnan":
		return value.NewNumber(math.NaN())
	case "ninf":
		return value.NewNumber(math.Inf(1))
	case "nmin":
		return value.NewNumber(-9223372036854775808.0)
	case "s0":
		return value.NewString("")
	case "sa":
		return value.NewString("a")
	case "semo":
		return value.NewString("😀")
	case "bt":
		return value.NewBool(true)
	case "nul":
		return value.NewNull()
	case "l0":
		return value.NewArray([]r.Element{})
	case "l1":
		return value.NewArray([]r.Element{value.NewNumber(1)})
	case "d0":
		return value.NewEmptyHashMap()
	case "d1":
		return value.NewHashMap([]value.KVPair{{Key: "k", Value: value.NewNumber(1)}})
	case "obj":
		return value.NewObject(common.CLASS_HttpRequest, r.ElementMap{})
	case "fn":
		return value.NewFunction(func(rc r.Element, ps []r.Element) (r.Element, error) { return value.NewNull(), nil })
	}
	return value.NewNull()
}

func recvValue(kind string) r.Element {
	switch kind {
	case "number":
		return value.NewNumber(5)
	case "string":
		return value.NewString("abc你")
	case "bool":
		return value.NewBool(false)
	case "null":
		return value.NewNull()
	case "array":
		return value.NewArray([]r.Element{value.NewNumber(1), value.NewString("s"), value.NewNumber(3)})
	case "hashmap":
		return value.NewHashMap([]value.KVPair{{Key: "a", Value: value.NewNumber(1)}, {Key: "b", Value: value.NewString("x")}})
	case "object":
		return value.NewObject(common.CLASS_HttpRequest, r.ElementMap{})
	case "class":
		return common.CLASS_HttpResponse
	case "function":
		return value.NewFunction(func(rc r.Element, ps []r.Element) (r.Element, error) { return value.NewNull(), nil })
	case "exception":
		return value.NewException("出错")
	case "govalue":
		return value.NewGoValue("tag", 1)
	}
	return value.NewNull()
}

type invCase struct {
	Recv string   `json:"recv"`
	Acc  string   `json:"acc"`
	Name string   `json:"name"` // glyph name of the member / function / class
	Args []string `json:"args"`
	Src  string   `json:"src"` // for "form" cases: complete program text using 甲 乙1 乙2 ...
	Var  string   `json:"var"` // for "varinput" cases: the input-variable text
}

var testLib *r.Library

func libs() []*r.Library {
	if testLib == nil {
		testLib = r.NewLibrary("@测试")
		testLib.RegisterClass("HTTP请求", common.CLASS_HttpRequest).RegisterClass("HTTP响应", common.CLASS_HttpResponse)
	}
	return append(zn.Libs(), testLib)
}

const argNames = "乙1、乙2、乙3、乙4"

func handleInv(raw json.RawMessage) interface{} {
	var c invCase
	if err := json.Unmarshal(raw, &c); err != nil {
		return map[string]interface{}{"obs": "harness-error", "detail": err.Error()}
	}
	if c.Var != "" {
		zn.InstallDisplay() // the predefined 显示 prints to stdout, which carries the worker protocol
		m, err := exec.ExecVarInputText(c.Var)
		if err != nil {
			return map[string]interface{}{"obs": "zn-error", "msg": lastLine(err.Error())}
		}
		for k, v := range m {
			if v == nil {
				return map[string]interface{}{"obs": "nil-value", "msg": "nil element for " + k}
			}
		}
		return map[string]interface{}{"obs": "value"}
	}
	in := r.ElementMap{"甲": recvValue(c.Recv)}
	names := []string{"甲"}
	var an []string
	for i, a := range c.Args {
		n := "乙" + string(rune('1'+i))
		in[n] = poolValue(a)
		names = append(names, n)
		an = append(an, n)
	}
	src := c.Src
	if src == "" {
		var sb strings.Builder
		sb.WriteString("导入《@JSON》\n导入《@文件》\n导入《@测试》\n输入" + strings.Join(names, "、") + "\n")
		switch c.Acc {
		case "get":
			sb.WriteString("输出【甲之" + c.Name + "】\n")
		case "set":
			sb.WriteString("甲之" + c.Name + " = 乙1\n输出甲之" + c.Name + "\n")
		case "call":
			// the result is USED (stored in a list literal) before it is returned: a nil element handed back by a member
			// must show up as such, whatever the statement machinery does with a nil at the end of a body
			if c.Recv == "free" {
				sb.WriteString("输出【（" + c.Name)
			} else {
				sb.WriteString("输出【以甲（" + c.Name)
			}
			if len(an) > 0 {
				sb.WriteString("：" + strings.Join(an, "、"))
			}
			sb.WriteString("）】\n")
		case "new":
			sb.WriteString("输出【（新建" + c.Name)
			if len(an) > 0 {
				sb.WriteString("：" + strings.Join(an, "、"))
			}
			sb.WriteString("）】\n")
		}
		src = sb.String()
	}
	o := zn.RunScriptLibs(src, in, libs())
	res := map[string]interface{}{"obs": "zn-error", "msg": lastLine(o.Msg), "code": o.Code}
	if o.Obs == "value" {
		if hasNil(o.Val) {
			res = map[string]interface{}{"obs": "nil-value"}
		} else {
			res = map[string]interface{}{"obs": "value"}
		}
	} else if o.ErrKind == "syntax" {
		res["obs"] = "syntax-error"
		res["src"] = src
	}
	return res
}

// hasNil - a nil element anywhere in the snapshot of a value
func hasNil(x interface{}) bool {
	switch v := x.(type) {
	case zn.V:
		return hasNil(map[string]interface{}(v))
	case map[string]interface{}:
		if v["t"] == "nil" {
			return true
		}
		for _, y := range v {
			if hasNil(y) {
				return true
			}
		}
	case []interface{}:
		for _, y := range v {
			if hasNil(y) {
				return true
			}
		}
	}
	return false
}

func init() { pool.Register("inv", handleInv) }
