package main

// C01 binding: ZnExpr vectors (tree, minimal-brace token list, expected outcome, probe order) are
// rendered in several spellings and executed through Interpreter.Execute.

import (
	"encoding/json"
	"fmt"
	"math"
	"strconv"
	"strings"

	"verifharness/internal/pool"
	"verifharness/internal/zn"
)

type exVal struct {
	T string `json:"t"`
	N int64  `json:"n"`
	D int64  `json:"d"`
	B bool   `json:"b"`
	S string `json:"s"`
}

type exTok struct {
	K  string `json:"k"`
	V  *exVal `json:"v"`
	Op string `json:"op"`
	ID string `json:"id"`
}

type exTree struct {
	K  string  `json:"k"`
	V  *exVal  `json:"v"`
	ID string  `json:"id"`
	Op string  `json:"op"`
	L  *exTree `json:"l"`
	R  *exTree `json:"r"`
}

type exprCase struct {
	Tree    exTree   `json:"tree"`
	MT      []exTok  `json:"mt"`
	Out     string   `json:"out"`
	Val     exVal    `json:"val"`
	Ord     []string `json:"ord"`
	Exact   bool     `json:"exact"`
	Fragile bool     `json:"fragile"`
	Styles  []int    `json:"styles"`
}

var opSym = map[string]string{"add": "+", "sub": "-", "mul": "*", "div": "/", "idiv": "|", "mod": "%",
	"eq": "==", "neq": "/=", "gt": ">", "lt": "<", "ge": ">=", "le": "<=", "xeq": "为", "xneq": "不为", "and": "且", "or": "或"}
var opKw = map[string]string{"eq": "等于", "neq": "不等于", "gt": "大于", "lt": "小于", "ge": "不小于", "le": "不大于"}

// numeric spellings of n/d with d in {1,2}; all denote exactly the same decimal
func numSpelling(n, d int64, k int) string {
	t := n * 10 / d // tenths, exact
	neg := t < 0
	a := t
	if neg {
		a = -a
	}
	sign := ""
	if neg {
		sign = "-"
	}
	plain := sign + strconv.FormatInt(a/10, 10)
	if a%10 != 0 {
		plain += "." + strconv.FormatInt(a%10, 10)
	}
	switch k % 7 {
	case 1:
		if !neg {
			return "+" + plain
		}
	case 2:
		if a%10 != 0 {
			return plain + "0"
		}
		return plain + ".0"
	case 3:
		return sign + strconv.FormatInt(a, 10) + "*10^-1"
	case 4:
		return plain + "E+0"
	case 5:
		return sign + strconv.FormatInt(a, 10) + "e-1"
	case 6:
		if a < 1000 {
			return sign + "0." + fmt.Sprintf("%03d", a) + "*^2"
		}
	}
	return plain
}

func leafText(v *exVal, k int) string {
	switch v.T {
	case "num":
		return numSpelling(v.N, v.D, k)
	case "bool":
		if v.B {
			return "真"
		}
		return "假"
	case "str":
		return "“" + v.S + "”"
	case "null":
		return "空"
	}
	return "??"
}

type renderCtx struct {
	style   int
	prelude []string
	nvar    int
	leafNo  int
}

func (rc *renderCtx) leaf(v *exVal) string {
	rc.leafNo++
	switch rc.style {
	case 3: // through variables
		rc.nvar++
		name := fmt.Sprintf("变量%d", rc.nvar)
		rc.prelude = append(rc.prelude, fmt.Sprintf("令%s = %s", name, leafText(v, 0)))
		return name
	case 0:
		return leafText(v, 0)
	default:
		return leafText(v, rc.style+rc.leafNo)
	}
}

func (rc *renderCtx) op(o string) string {
	if rc.style == 1 || rc.style == 4 {
		if s, ok := opKw[o]; ok {
			return s
		}
	}
	return opSym[o]
}

func (rc *renderCtx) tokens(mt []exTok) string {
	var parts []string
	for _, t := range mt {
		switch t.K {
		case "lb":
			parts = append(parts, "{")
		case "rb":
			parts = append(parts, "}")
		case "op":
			parts = append(parts, rc.op(t.Op))
		case "leaf":
			parts = append(parts, rc.leaf(t.V))
		case "probe":
			parts = append(parts, "（"+t.ID+"）")
		}
	}
	return strings.Join(parts, " ")
}

func (rc *renderCtx) full(t *exTree, top bool) string {
	switch t.K {
	case "leaf":
		return rc.leaf(t.V)
	case "probe":
		return "（" + t.ID + "）"
	}
	s := rc.full(t.L, false) + " " + rc.op(t.Op) + " " + rc.full(t.R, false)
	if top {
		return s
	}
	return "{ " + s + " }"
}

const probePrelude = "如何PT？\n    （显示：“PT”）\n    输出真\n\n如何PF？\n    （显示：“PF”）\n    输出假\n\n如何PN？\n    （显示：“PN”）\n    输出3\n\n"

func handleExpr(raw json.RawMessage) interface{} {
	var c exprCase
	if err := json.Unmarshal(raw, &c); err != nil {
		return map[string]interface{}{"obs": "harness-error", "detail": err.Error()}
	}
	var ms []map[string]interface{}
	runs := 0
	for _, st := range c.Styles {
		rc := &renderCtx{style: st}
		var expr string
		if st == 2 {
			expr = rc.full(&c.Tree, true)
		} else {
			expr = rc.tokens(c.MT)
		}
		src := probePrelude + strings.Join(rc.prelude, "\n")
		if len(rc.prelude) > 0 {
			src += "\n"
		}
		if st == 4 {
			src += "令结果 = " + expr + "\n输出结果\n"
		} else {
			src += "输出 " + expr + "\n"
		}
		o := zn.RunScript(src, nil)
		runs++
		kind, want, got := compareExpr(&c, &o)
		if kind != "" {
			ms = append(ms, map[string]interface{}{"kind": kind, "style": st, "expr": expr, "want": want, "got": got})
		}
	}
	return map[string]interface{}{"obs": "done", "runs": runs, "mism": ms}
}

func compareExpr(c *exprCase, o *zn.Outcome) (string, string, string) {
	gotS := func() string {
		if o.Obs == "error" {
			return fmt.Sprintf("error[%d] %s", o.Code, lastLine(o.Msg))
		}
		b, _ := json.Marshal(o.Val)
		return string(b)
	}
	if o.Obs != "value" && o.Obs != "error" {
		return o.Obs, c.Out, gotS()
	}
	if o.Obs == "error" && o.ErrKind == "syntax" {
		return "syntax-error", c.Out, gotS()
	}
	switch c.Out {
	case "big":
		return "", "", ""
	case "err":
		if o.Obs != "error" {
			return "value-for-error", "error", gotS()
		}
		return "", "", ""
	}
	// expected a value
	if o.Obs != "value" {
		return "error-for-value", fmtVal(&c.Val), gotS()
	}
	// probe order
	var ids []string
	for _, d := range o.Display {
		if args, ok := d.([]interface{}); ok && len(args) == 1 {
			if v, ok := args[0].(zn.V); ok {
				ids = append(ids, fmt.Sprint(v["v"]))
			}
		}
	}
	if strings.Join(ids, ",") != strings.Join(c.Ord, ",") {
		return "probe-order", strings.Join(c.Ord, ","), strings.Join(ids, ",")
	}
	v := o.Val
	switch c.Val.T {
	case "bool":
		if c.Fragile {
			if v["t"] != "bool" {
				return "type-mismatch", fmtVal(&c.Val), gotS()
			}
			return "", "", ""
		}
		if v["t"] != "bool" || v["v"] != c.Val.B {
			return "value-mismatch", fmtVal(&c.Val), gotS()
		}
	case "str":
		if v["t"] != "str" || v["v"] != c.Val.S {
			return "value-mismatch", fmtVal(&c.Val), gotS()
		}
	case "null":
		if v["t"] != "null" {
			return "value-mismatch", fmtVal(&c.Val), gotS()
		}
	case "num":
		if v["t"] != "num" {
			return "type-mismatch", fmtVal(&c.Val), gotS()
		}
		got, _ := strconv.ParseFloat(strings.Replace(fmt.Sprint(v["s"]), "+Inf", "Inf", 1), 64)
		want := float64(c.Val.N) / float64(c.Val.D)
		if c.Fragile {
			return "", "", ""
		}
		if c.Exact {
			if got != want {
				return "value-mismatch", fmtVal(&c.Val), gotS()
			}
		} else {
			tol := 1e-12 * math.Max(1, math.Abs(want))
			if math.IsNaN(got) || math.Abs(got-want) > tol {
				return "value-mismatch", fmtVal(&c.Val), gotS()
			}
		}
	}
	return "", "", ""
}

func fmtVal(v *exVal) string {
	switch v.T {
	case "num":
		return fmt.Sprintf("num %d/%d", v.N, v.D)
	case "bool":
		return fmt.Sprintf("bool %v", v.B)
	case "str":
		return fmt.Sprintf("str %q", v.S)
	}
	return v.T
}

func lastLine(s string) string {
	ls := strings.Split(strings.TrimSpace(s), "\n")
	return ls[len(ls)-1]
}

func init() { pool.Register("expr", handleExpr) }
