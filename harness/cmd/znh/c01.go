package main

// C01 binding: ZnExpr vectors (tree, minimal-brace token list, expected outcome, probe order) are
// rendered in several spellings and executed through Interpreter.Execute.

import (
	"encoding/json"
	"fmt"
	"math"
	"strconv"
	"strings"

	r "github.com/DemoHn/Zn/pkg/runtime"
	"github.com/DemoHn/Zn/pkg/value"

	"verifharness/internal/pool"
	"verifharness/internal/zn"
)

type exVal struct {
	T string `json:"t"`
	N int64  `json:"n"`
	D int64  `json:"d"`
	B bool   `json:"b"`
	S string `json:"s"`
}

type exTok struct {
	K  string `json:"k"`
	V  *exVal `json:"v"`
	Op string `json:"op"`
	ID string `json:"id"`
}

type exTree struct {
	K  string  `json:"k"`
	V  *exVal  `json:"v"`
	ID string  `json:"id"`
	Op string  `json:"op"`
	L  *exTree `json:"l"`
	R  *exTree `json:"r"`
}

type exprCase struct {
	Tree    exTree   `json:"tree"`
	MT      []exTok  `json:"mt"`
	Out     string   `json:"out"`
	Val     exVal    `json:"val"`
	Ord     []string `json:"ord"`
	Exact   bool     `json:"exact"`
	Fragile bool     `json:"fragile"`
	Styles  []int    `json:"styles"`
}

var opSym = map[string]string{"add": "+", "sub": "-", "mul": "*", "div": "/", "idiv": "|", "mod": "%",
	"eq": "==", "neq": "/=", "gt": ">", "lt": "<", "ge": ">=", "le": "<=", "xeq": "为", "xneq": "不为", "and": "且", "or": "或"}
var opKw = map[string]string{"eq": "等于", "neq": "不等于", "gt": "大于", "lt": "小于", "ge": "不小于", "le": "不大于"}

// numeric spellings of n/d with d in {1,2}; all denote exactly the same decimal
func numSpelling(n, d int64, k int) string {
	t := n * 10 / d // tenths, exact
	neg := t < 0
	a := t
	if neg {
		a = -a
	}
	sign := ""
	if neg {
		sign = "-"
	}
	plain := sign + strconv.FormatInt(a/10, 10)
	if a%10 != 0 {
		plain += "." + strconv.FormatInt(a%10, 10)
	}
	switch k % 7 {
	case 1:
		if !neg {
			return "+" + plain
		}
	case 2:
		if a%10 != 0 {
			return plain + "0"
		}
		return plain + ".0"
	case 3:
		return sign + strconv.FormatInt(a, 10) + "*10^-1"
	case 4:
		return plain + "E+0"
	case 5:
		return sign + strconv.FormatInt(a, 10) + "e-1"
	case 6:
		if a < 1000 {
			return sign + "0." + fmt.Sprintf("%03d", a) + "*^2"
		}
	}
	return plain
}

func leafText(v *exVal, k int) string {
	switch v.T {
	case "num":
		return numSpelling(v.N, v.D, k)
	case "bool":
		if v.B {
			return "真"
		}
		return "假"
	case "str":
		return "“" + v.S + "”"
	case "null":
		return "空"
	}
	return "??"
}

type renderCtx struct {
	style   int
	prelude []string
	nvar    int
	leafNo  int
	shared  map[string]string
}

func (rc *renderCtx) leaf(v *exVal) string {
	rc.leafNo++
	switch rc.style {
	case 3: // through variables
		rc.nvar++
		name := fmt.Sprintf("变量%d", rc.nvar)
		rc.prelude = append(rc.prelude, fmt.Sprintf("令%s = %s", name, leafText(v, 0)))
		return name
	case 8: // through variables, EQUAL leaves through ONE variable (the same variable on both sides of an operator)
		txt := leafText(v, 0)
		if rc.shared == nil {
			rc.shared = map[string]string{}
		}
		if n, ok := rc.shared[txt]; ok {
			return n
		}
		rc.nvar++
		name := fmt.Sprintf("同量%d", rc.nvar)
		rc.shared[txt] = name
		rc.prelude = append(rc.prelude, fmt.Sprintf("令%s = %s", name, txt))
		return name
	case 0:
		return leafText(v, 0)
	default:
		return leafText(v, rc.style+rc.leafNo)
	}
}

func (rc *renderCtx) op(o string) string {
	if rc.style == 1 || rc.style == 4 {
		if s, ok := opKw[o]; ok {
			return s
		}
	}
	return opSym[o]
}

func (rc *renderCtx) tokens(mt []exTok) string {
	var parts []string
	for _, t := range mt {
		switch t.K {
		case "lb":
			parts = append(parts, "{")
		case "rb":
			parts = append(parts, "}")
		case "op":
			parts = append(parts, rc.op(t.Op))
		case "leaf":
			parts = append(parts, rc.leaf(t.V))
		case "probe":
			parts = append(parts, "（"+t.ID+"）")
		}
	}
	return strings.Join(parts, " ")
}

func (rc *renderCtx) full(t *exTree, top bool) string {
	switch t.K {
	case "leaf":
		return rc.leaf(t.V)
	case "probe":
		return "（" + t.ID + "）"
	}
	s := rc.full(t.L, false) + " " + rc.op(t.Op) + " " + rc.full(t.R, false)
	if top {
		return s
	}
	return "{ " + s + " }"
}

const probePrelude = "如何PT？\n    （显示：“PT”）\n    输出真\n\n如何PF？\n    （显示：“PF”）\n    输出假\n\n如何PN？\n    （显示：“PN”）\n    输出3\n\n"

func handleExpr(raw json.RawMessage) interface{} {
	var c exprCase
	if err := json.Unmarshal(raw, &c); err != nil {
		return map[string]interface{}{"obs": "harness-error", "detail": err.Error()}
	}
	var ms []map[string]interface{}
	runs := 0
	for _, st := range c.Styles {
		rc := &renderCtx{style: st}
		var expr string
		if st == 2 {
			expr = rc.full(&c.Tree, true)
		} else {
			expr = rc.tokens(c.MT)
		}
		src := probePrelude + strings.Join(rc.prelude, "\n")
		if len(rc.prelude) > 0 {
			src += "\n"
		}
		if st == 4 {
			src += "令结果 = " + expr + "\n输出结果\n"
		} else {
			src += "输出 " + expr + "\n"
		}
		o := zn.RunScript(src, nil)
		runs++
		kind, want, got := compareExpr(&c, &o)
		if kind != "" {
			ms = append(ms, map[string]interface{}{"kind": kind, "style": st, "expr": expr, "want": want, "got": got})
		}
	}
	return map[string]interface{}{"obs": "done", "runs": runs, "mism": ms}
}

func compareExpr(c *exprCase, o *zn.Outcome) (string, string, string) {
	gotS := func() string {
		if o.Obs == "error" {
			return fmt.Sprintf("error[%d] %s", o.Code, lastLine(o.Msg))
		}
		b, _ := json.Marshal(o.Val)
		return string(b)
	}
	if o.Obs != "value" && o.Obs != "error" {
		return o.Obs, c.Out, gotS()
	}
	if o.Obs == "error" && o.ErrKind == "syntax" {
		return "syntax-error", c.Out, gotS()
	}
	switch c.Out {
	case "big":
		return "", "", ""
	case "err":
		if o.Obs != "error" {
			return "value-for-error", "error", gotS()
		}
		return "", "", ""
	}
	// expected a value
	if o.Obs != "value" {
		return "error-for-value", fmtVal(&c.Val), gotS()
	}
	// probe order
	var ids []string
	for _, d := range o.Display {
		if args, ok := d.([]interface{}); ok && len(args) == 1 {
			if v, ok := args[0].(zn.V); ok {
				ids = append(ids, fmt.Sprint(v["v"]))
			}
		}
	}
	if strings.Join(ids, ",") != strings.Join(c.Ord, ",") {
		return "probe-order", strings.Join(c.Ord, ","), strings.Join(ids, ",")
	}
	v := o.Val
	switch c.Val.T {
	case "bool":
		if c.Fragile {
			if v["t"] != "bool" {
				return "type-mismatch", fmtVal(&c.Val), gotS()
			}
			return "", "", ""
		}
		if v["t"] != "bool" || v["v"] != c.Val.B {
			return "value-mismatch", fmtVal(&c.Val), gotS()
		}
	case "str":
		if v["t"] != "str" || v["v"] != c.Val.S {
			return "value-mismatch", fmtVal(&c.Val), gotS()
		}
	case "null":
		if v["t"] != "null" {
			return "value-mismatch", fmtVal(&c.Val), gotS()
		}
	case "num":
		if v["t"] != "num" {
			return "type-mismatch", fmtVal(&c.Val), gotS()
		}
		got, _ := strconv.ParseFloat(strings.Replace(fmt.Sprint(v["s"]), "+Inf", "Inf", 1), 64)
		want := float64(c.Val.N) / float64(c.Val.D)
		if c.Fragile {
			return "", "", ""
		}
		if c.Exact {
			if got != want {
				return "value-mismatch", fmtVal(&c.Val), gotS()
			}
		} else {
			tol := 1e-12 * math.Max(1, math.Abs(want))
			if math.IsNaN(got) || math.Abs(got-want) > tol {
				return "value-mismatch", fmtVal(&c.Val), gotS()
			}
		}
	}
	return "", "", ""
}

func fmtVal(v *exVal) string {
	switch v.T {
	case "num":
		return fmt.Sprintf("num %d/%d", v.N, v.D)
	case "bool":
		return fmt.Sprintf("bool %v", v.B)
	case "str":
		return fmt.Sprintf("str %q", v.S)
	}
	return v.T
}

func lastLine(s string) string {
	ls := strings.Split(strings.TrimSpace(s), "\n")
	return ls[len(ls)-1]
}

func init() { pool.Register("expr", handleExpr) }

// ---------------------------------------------------------------------------------------------
// IEEE facet (family I of ZnExpr): slot trees with their LOWERED primitive code.  The harness supplies
// doubles for the slots, runs the lowered code over float64 (the primitives are Go's + - * / Floor and
// the four ordered comparisons: their IEEE behaviour is not in question) and compares with the
// interpreter, bit for bit.

type iInstr struct {
	I   string      `json:"i"`
	P   string      `json:"p"`
	ID  interface{} `json:"id"`
	V   *exVal      `json:"v"`
	Op  string      `json:"op"`
	Off int         `json:"off"`
}

type iTok struct {
	K  string      `json:"k"`
	V  *exVal      `json:"v"`
	Op string      `json:"op"`
	ID interface{} `json:"id"`
}

type iexprCase struct {
	MT    []iTok     `json:"mt"`
	Code  []iInstr   `json:"code"`
	Vals  [][]string `json:"vals"` // assignments: one list of doubles (as text) per run
	Style int        `json:"style"`
	Style2 int       `json:"style2"` // which pool of names the re-evaluation method uses for its inputs
}

type ival struct {
	t string // num bool str null
	f float64
	b bool
	s string
}

func parseDouble(s string) float64 {
	switch s {
	case "NaN":
		return math.NaN()
	case "+Inf":
		return math.Inf(1)
	case "-Inf":
		return math.Inf(-1)
	case "-0":
		return math.Copysign(0, -1)
	}
	f, _ := strconv.ParseFloat(s, 64)
	return f
}

func fromExVal(v *exVal) ival {
	switch v.T {
	case "num":
		return ival{t: "num", f: float64(v.N) / float64(v.D)}
	case "bool":
		return ival{t: "bool", b: v.B}
	case "str":
		return ival{t: "str", s: v.S}
	}
	return ival{t: "null"}
}

func slotNo(id interface{}) int {
	if f, ok := id.(float64); ok {
		return int(f)
	}
	return 0
}

// runLowered executes the primitive code; returns (value, isErr, probe order)
func runLowered(code []iInstr, env []float64) (ival, bool, []string) {
	var st []ival
	var ord []string
	pc := 0
	for pc < len(code) {
		in := code[pc]
		n := len(st)
		switch in.I {
		case "push":
			st = append(st, fromExVal(in.V))
		case "probe":
			st = append(st, fromExVal(in.V))
			ord = append(ord, fmt.Sprint(in.ID))
		case "slot":
			st = append(st, ival{t: "num", f: env[slotNo(in.ID)-1]})
		case "jsc":
			top := st[n-1]
			if top.t != "bool" {
				return ival{}, true, ord
			}
			if (in.Op == "and" && !top.b) || (in.Op == "or" && top.b) {
				pc += in.Off + 1
				continue
			}
			st = st[:n-1]
		case "chkbool":
			if st[n-1].t != "bool" {
				return ival{}, true, ord
			}
		case "prim":
			var a, b ival
			if n >= 2 {
				a = st[n-2]
			}
			if n >= 1 {
				b = st[n-1]
			}
			bin := func(v ival) { st = append(st[:n-2], v) }
			switch in.P {
			case "chknum2":
				if a.t != "num" || b.t != "num" {
					return ival{}, true, ord
				}
			case "chkz":
				if b.f == 0 {
					return ival{}, true, ord
				}
			case "dup2":
				st = append(st, a, b)
			case "fadd":
				bin(ival{t: "num", f: a.f + b.f})
			case "fsub":
				bin(ival{t: "num", f: a.f - b.f})
			case "fmul":
				bin(ival{t: "num", f: a.f * b.f})
			case "swapmul":
				bin(ival{t: "num", f: b.f * a.f})
			case "fdiv":
				bin(ival{t: "num", f: a.f / b.f})
			case "floor":
				st[n-1] = ival{t: "num", f: math.Floor(b.f)}
			case "flt":
				bin(ival{t: "bool", b: a.f < b.f})
			case "fgt":
				bin(ival{t: "bool", b: a.f > b.f})
			case "fle":
				bin(ival{t: "bool", b: a.f <= b.f})
			case "fge":
				bin(ival{t: "bool", b: a.f >= b.f})
			case "veq":
				eq := a.t == b.t
				if eq {
					switch a.t {
					case "num":
						eq = a.f == b.f
					case "bool":
						eq = a.b == b.b
					case "str":
						eq = a.s == b.s
					}
				}
				bin(ival{t: "bool", b: eq})
			case "not":
				st[n-1] = ival{t: "bool", b: !b.b}
			}
		}
		pc++
	}
	return st[len(st)-1], false, ord
}

func handleIExpr(raw json.RawMessage) interface{} {
	var c iexprCase
	if err := json.Unmarshal(raw, &c); err != nil {
		return map[string]interface{}{"obs": "harness-error", "detail": err.Error()}
	}
	// render once
	nslot := 0
	var parts []string
	for _, t := range c.MT {
		switch t.K {
		case "lb":
			parts = append(parts, "{")
		case "rb":
			parts = append(parts, "}")
		case "op":
			if s, ok := opKw[t.Op]; ok && c.Style == 1 {
				parts = append(parts, s)
			} else {
				parts = append(parts, opSym[t.Op])
			}
		case "leaf":
			parts = append(parts, leafText(t.V, 0))
		case "probe":
			parts = append(parts, "（"+fmt.Sprint(t.ID)+"）")
		case "slot":
			k := slotNo(t.ID)
			if k > nslot {
				nslot = k
			}
			parts = append(parts, fmt.Sprintf("槽%d", k))
		}
	}
	expr := strings.Join(parts, " ")
	var names []string
	for k := 1; k <= nslot; k++ {
		names = append(names, fmt.Sprintf("槽%d", k))
	}
	src := "输入" + strings.Join(names, "、") + "\n" + probePrelude + "输出 " + expr + "\n"
	var ms []map[string]interface{}
	runs := 0
	for _, vs := range c.Vals {
		env := make([]float64, len(vs))
		inputs := map[string]r.Element{}
		for k, s := range vs {
			env[k] = parseDouble(s)
			if k < nslot {
				inputs[names[k]] = value.NewNumber(env[k])
			}
		}
		want, wantErr, ord := runLowered(c.Code, env)
		o := zn.RunScript(src, inputs)
		runs++
		mism := func(kind, w, g string) {
			ms = append(ms, map[string]interface{}{"kind": kind, "expr": expr, "vals": vs, "want": w, "got": g})
		}
		gotS := func() string {
			if o.Obs == "error" {
				return fmt.Sprintf("error[%d] %s", o.Code, lastLine(o.Msg))
			}
			b, _ := json.Marshal(o.Val)
			return string(b)
		}
		if o.Obs != "value" && o.Obs != "error" {
			mism(o.Obs, "value or error", gotS())
			continue
		}
		if o.Obs == "error" && o.ErrKind == "syntax" {
			mism("syntax-error", "value or error", gotS())
			continue
		}
		if wantErr {
			if o.Obs != "error" {
				mism("ieee:value-for-error", "error", gotS())
			}
			continue
		}
		if o.Obs != "value" {
			mism("ieee:error-for-value", fmt.Sprint(want), gotS())
			continue
		}
		var ids []string
		for _, d := range o.Display {
			if args, ok := d.([]interface{}); ok && len(args) == 1 {
				if v, ok := args[0].(zn.V); ok {
					ids = append(ids, fmt.Sprint(v["v"]))
				}
			}
		}
		if strings.Join(ids, ",") != strings.Join(ord, ",") {
			mism("ieee:probe-order", strings.Join(ord, ","), strings.Join(ids, ","))
			continue
		}
		v := o.Val
		switch want.t {
		case "num":
			if v["t"] != "num" || v["s"] != zn.NumStr(want.f) {
				mism("ieee:value-mismatch", "num "+zn.NumStr(want.f), gotS())
			}
		case "bool":
			if v["t"] != "bool" || v["v"] != want.b {
				mism("ieee:value-mismatch", fmt.Sprintf("bool %v", want.b), gotS())
			}
		case "str":
			if v["t"] != "str" || v["v"] != want.s {
				mism("ieee:value-mismatch", fmt.Sprintf("str %q", want.s), gotS())
			}
		case "null":
			if v["t"] != "null" {
				mism("ieee:value-mismatch", "null", gotS())
			}
		}
	}
	// RE-EVALUATION: the same expression (one syntax tree) evaluated for every row of slot values within ONE execution - as the body
	// of a method whose inputs carry the slots, under names of every documented shape (also names that begin with a sign).
	// Row by row the method must yield what the lowered code yields for that row: nothing of an earlier evaluation sticks to the tree.
	if nslot > 0 && len(c.Vals) > 1 {
		pools := [][]string{{"槽1", "槽2", "槽3", "槽4"}, {"-甲", "+乙", "-丙丁", "+偏移"}, {"a", "b1", "c_", "_d"}, {"-a", "+b", "甲1", "-乙2"}}
		nm := pools[c.Style2%len(pools)]
		expr2 := expr
		for k := nslot; k >= 1; k-- {
			expr2 = strings.ReplaceAll(expr2, fmt.Sprintf("槽%d", k), nm[k-1])
		}
		var args []string
		for k := 1; k <= nslot; k++ {
			args = append(args, fmt.Sprintf("行#%d", k))
		}
		src2 := "输入表\n" + probePrelude + "如何算？\n    输入 " + strings.Join(nm[:nslot], "、") + "\n    输出 " + expr2 + "\n    拦截异常：\n        输出“ERR”\n\n" +
			"令果 = 【】\n以行遍历表：\n    以果（后增：（算：" + strings.Join(args, "、") + "））\n输出果\n"
		rows := []r.Element{}
		var wants []ival
		var wantErrs []bool
		nrows := len(c.Vals)
		if nrows > 40 {
			nrows = 40
		}
		for _, vs := range c.Vals[:nrows] {
			env := make([]float64, len(vs))
			items := []r.Element{}
			for k, sv := range vs {
				env[k] = parseDouble(sv)
				if k < nslot {
					items = append(items, value.NewNumber(env[k]))
				}
			}
			w, we, _ := runLowered(c.Code, env)
			wants = append(wants, w)
			wantErrs = append(wantErrs, we)
			rows = append(rows, value.NewArray(items))
		}
		// the SAME variable in every slot: `X op X` for every pool value X
		if c.Style2%2 == 0 {
			expr3 := expr
			for k := nslot; k >= 1; k-- {
				expr3 = strings.ReplaceAll(expr3, fmt.Sprintf("槽%d", k), "同")
			}
			src3 := "输入表\n" + probePrelude + "如何算？\n    输入 同\n    输出 " + expr3 + "\n    拦截异常：\n        输出“ERR”\n\n令果 = 【】\n以行遍历表：\n    以果（后增：（算：行））\n输出果\n"
			pool := []string{"0", "-0", "1", "-7", "0.5", "0.1", "1e308", "5e-324", "9007199254740993", "+Inf", "-Inf", "NaN"}
			var items []r.Element
			var w3 []ival
			var e3 []bool
			for _, sv := range pool {
				x := parseDouble(sv)
				env := make([]float64, nslot)
				for k := range env {
					env[k] = x
				}
				w, we, _ := runLowered(c.Code, env)
				w3 = append(w3, w)
				e3 = append(e3, we)
				items = append(items, value.NewNumber(x))
			}
			o3 := zn.RunScript(src3, map[string]r.Element{"表": value.NewArray(items)})
			runs++
			if got, ok := o3.Val["v"].([]interface{}); o3.Obs != "value" || !ok || len(got) != len(pool) {
				ms = append(ms, map[string]interface{}{"kind": "ieee:same-variable:" + o3.Obs, "expr": expr3, "vals": pool, "want": "a list of results", "got": lastLine(o3.Msg)})
			} else {
				for i, it := range got {
					v, _ := it.(zn.V)
					b, _ := json.Marshal(v)
					okv := true
					switch {
					case e3[i]:
						okv = v["t"] == "str" && v["v"] == "ERR"
					case w3[i].t == "num":
						okv = v["t"] == "num" && v["s"] == zn.NumStr(w3[i].f)
					case w3[i].t == "bool":
						okv = v["t"] == "bool" && v["v"] == w3[i].b
					}
					if !okv {
						ms = append(ms, map[string]interface{}{"kind": "ieee:same-variable:value-mismatch", "expr": expr3 + " with 同 = " + pool[i], "vals": []string{pool[i]}, "want": fmt.Sprintf("%v %v %v", w3[i].t, w3[i].f, w3[i].b), "got": string(b)})
						break
					}
				}
			}
		}
		o := zn.RunScript(src2, map[string]r.Element{"表": value.NewArray(rows)})
		runs++
		bad := func(kind, w, g string, row int) {
			ms = append(ms, map[string]interface{}{"kind": kind, "expr": expr2 + " (evaluated for several rows in one execution; row " + fmt.Sprint(row+1) + ")", "vals": c.Vals[row%len(c.Vals)], "want": w, "got": g})
		}
		if o.Obs != "value" {
			bad("ieee:reevaluation:"+o.Obs, "a list of results", lastLine(o.Msg), 0)
		} else if items, ok := o.Val["v"].([]interface{}); !ok || len(items) != nrows {
			bad("ieee:reevaluation:shape", fmt.Sprintf("%d results", nrows), fmt.Sprint(o.Val), 0)
		} else {
			for i, it := range items {
				v, _ := it.(zn.V)
				b, _ := json.Marshal(v)
				switch {
				case wantErrs[i]:
					if v["t"] != "str" || v["v"] != "ERR" {
						bad("ieee:reevaluation:value-for-error", "error", string(b), i)
					}
				case wants[i].t == "num":
					if v["t"] != "num" || v["s"] != zn.NumStr(wants[i].f) {
						bad("ieee:reevaluation:value-mismatch", "num "+zn.NumStr(wants[i].f), string(b), i)
					}
				case wants[i].t == "bool":
					if v["t"] != "bool" || v["v"] != wants[i].b {
						bad("ieee:reevaluation:value-mismatch", fmt.Sprintf("bool %v", wants[i].b), string(b), i)
					}
				}
				if len(ms) > 3 {
					break
				}
			}
		}
	}
	return map[string]interface{}{"obs": "done", "runs": runs, "mism": ms}
}

func init() { pool.Register("iexpr", handleIExpr) }
