package main

// C12 binding.
//   "coll":     replay a ZnColl history (TLC) as ONE Zn program: every operation is a small method taking the
//               collection (shared, not copied) with a 拦截异常 handler, the main program displays the reply and
//               the whole collection after every step, and finally iterates over it.
//   "collhist": drive value.Array / value.HashMap directly with a seeded random history and LOG every operation
//               with its reply and the full projected state; the log is validated by TLC (Trace_ZnColl).

import (
	"encoding/json"
	"fmt"
	"math/rand"
	"strings"

	zerr "github.com/DemoHn/Zn/pkg/error"
	r "github.com/DemoHn/Zn/pkg/runtime"
	"github.com/DemoHn/Zn/pkg/value"

	"verifharness/internal/pool"
	"verifharness/internal/zn"
)

type collOp struct {
	O     string `json:"o"`
	I     int    `json:"i"`
	J     int    `json:"j"`
	V     int    `json:"v"`
	Key   string `json:"key"`
	Other []int  `json:"other"`
}

type collCase struct {
	Kind  string `json:"kind"`
	Start struct {
		L []int    `json:"l"`
		K []string `json:"k"`
		V []int    `json:"v"`
	} `json:"start"`
	H []collOp `json:"h"`
}

func intList(xs []int) string {
	var s []string
	for _, x := range xs {
		s = append(s, fmt.Sprint(x))
	}
	return "【" + strings.Join(s, "，") + "】"
}

func opExpr(op collOp) string {
	switch op.O {
	case "lget":
		return fmt.Sprintf("C#%d", op.I)
	case "lset":
		return fmt.Sprintf("C#%d = %d", op.I, op.V)
	case "llen":
		return "C之长度"
	case "lfirst":
		return "C之首项"
	case "llast":
		return "C之末项"
	case "lrev":
		return "C之逆序"
	case "lprepend":
		return fmt.Sprintf("以C（前增：%d）", op.V)
	case "lappend":
		return fmt.Sprintf("以C（后增：%d）", op.V)
	case "lshift":
		return "以C（左移）"
	case "lpop":
		return "以C（右移）"
	case "lswap":
		return fmt.Sprintf("以C（交换：%d、%d）", op.I, op.J)
	case "lmerge":
		return "以C（合并：" + intList(op.Other) + "）"
	case "lcontains":
		return fmt.Sprintf("以C（包含：%d）", op.V)
	case "lfind":
		return fmt.Sprintf("以C（寻找：%d）", op.V)
	case "dget":
		return fmt.Sprintf("C#“%s”", op.Key)
	case "dset":
		return fmt.Sprintf("C#“%s” = %d", op.Key, op.V)
	case "dread":
		return fmt.Sprintf("以C（读取：“%s”）", op.Key)
	case "dwrite":
		return fmt.Sprintf("以C（写入：“%s”、%d）", op.Key, op.V)
	case "dremove":
		return fmt.Sprintf("以C（移除：“%s”）", op.Key)
	case "dlen":
		return "C之数目"
	case "dkeys":
		return "C之所有索引"
	case "dvals":
		return "C之所有值"
	}
	return "??"
}

func handleColl(raw json.RawMessage) interface{} {
	var c collCase
	if err := json.Unmarshal(raw, &c); err != nil {
		return map[string]interface{}{"obs": "harness-error", "detail": err.Error()}
	}
	var sb strings.Builder
	sb.WriteString("导入《@JSON》\n\n")
	for k, op := range c.H {
		fmt.Fprintf(&sb, "如何步%d？\n    输入C\n    输出%s\n    拦截异常：\n        输出“!ERR”\n\n", k+1, opExpr(op))
	}
	if c.Kind == "list" {
		sb.WriteString("令集 = " + intList(c.Start.L) + "\n")
	} else {
		if len(c.Start.K) == 0 {
			sb.WriteString("令集 = 【=】\n")
		} else {
			var it []string
			for i, k := range c.Start.K {
				it = append(it, fmt.Sprintf("“%s” = %d", k, c.Start.V[i]))
			}
			sb.WriteString("令集 = 【" + strings.Join(it, "，") + "】\n")
		}
	}
	for k := range c.H {
		if c.Kind == "list" {
			fmt.Fprintf(&sb, "（显示：（步%d：集）、集、集之长度、集之文本）\n", k+1)
		} else {
			fmt.Fprintf(&sb, "（显示：（步%d：集）、集、集之数目、集之所有索引、集之所有值、（生成JSON：集））\n", k+1)
		}
	}
	if c.Kind == "list" {
		sb.WriteString("以序、值遍历集：\n    （显示：序、值）\n")
	} else {
		sb.WriteString("以键、值遍历集：\n    （显示：键、值）\n")
	}
	sb.WriteString("0\n")
	src := sb.String()
	o := zn.RunScript(src, nil)
	return map[string]interface{}{"obs": o.Obs, "display": o.Display, "msg": o.Msg, "src": src}
}

// ------------------------------------------------------------------ recorded histories (direct API)
func replyOf(e r.Element, err error) map[string]interface{} {
	if err != nil {
		if re, ok := err.(*zerr.RuntimeError); ok {
			switch re.Code {
			case zerr.ErrIndexOutOfRange:
				return map[string]interface{}{"k": "index"}
			case zerr.ErrIndexKeyNotFound:
				return map[string]interface{}{"k": "key"}
			}
			return map[string]interface{}{"k": fmt.Sprintf("code%d", re.Code)}
		}
		return map[string]interface{}{"k": "error"}
	}
	switch v := e.(type) {
	case *value.Number:
		return map[string]interface{}{"k": "val", "v": int(v.GetValue())}
	case *value.Null:
		return map[string]interface{}{"k": "null"}
	case *value.Bool:
		return map[string]interface{}{"k": "bool", "b": v.GetValue()}
	case *value.Array:
		return map[string]interface{}{"k": "seq", "s": arrInts(v)}
	case *value.String:
		return map[string]interface{}{"k": "str", "s": v.GetValue()}
	}
	if e == nil {
		return map[string]interface{}{"k": "nil"}
	}
	return map[string]interface{}{"k": "other"}
}

func arrInts(a *value.Array) []interface{} {
	out := []interface{}{}
	for _, x := range a.GetValue() {
		switch v := x.(type) {
		case *value.Number:
			out = append(out, int(v.GetValue()))
		case *value.String:
			out = append(out, v.GetValue())
		default:
			out = append(out, -999)
		}
	}
	return out
}

func N(i int) r.Element { return value.NewNumber(float64(i)) }

func handleCollHist(raw json.RawMessage) interface{} {
	var c histCase
	json.Unmarshal(raw, &c)
	rnd := rand.New(rand.NewSource(c.Seed))
	keys := []string{"a", "b", "c", "d", "e", "f", "g", "h"}
	arr := value.NewArray([]r.Element{})
	hm := value.NewEmptyHashMap()
	var log []map[string]interface{}
	// the last NEW collection handed out (逆序 / 合并 / 所有索引 / 所有值): the recorder keeps the Go object and logs
	// what it contains NOW after every later step - the spec says it is a value of its own (ZnColl!kept)
	var kept *value.Array
	for step := 0; step < c.Len; step++ {
		e := map[string]interface{}{"i": 0, "j": 0, "v": 0, "key": "", "other": []int{}}
		var rep map[string]interface{}
		var keepEl r.Element
		if rnd.Intn(2) == 0 {
			n := arr.Length()
			i := rnd.Intn(n+3) - 0
			j := rnd.Intn(n + 3)
			v := 1 + rnd.Intn(9)
			if n > 12 && rnd.Intn(3) > 0 {
				// keep the list short
				el, err := arr.ExecMethod("左移", []r.Element{})
				e["o"] = "lshift"
				rep = replyOf(el, err)
			} else {
				switch rnd.Intn(14) {
				case 0:
					e["o"], e["i"] = "lget", i
					el, err := value.NewArrayIV(arr, i).ReduceRHS()
					rep = replyOf(el, err)
				case 1:
					e["o"], e["i"], e["v"] = "lset", i, v
					err := value.NewArrayIV(arr, i).ReduceLHS(N(v))
					rep = replyOf(N(v), err)
				case 2:
					e["o"] = "llen"
					el, err := arr.GetProperty("长度")
					rep = replyOf(el, err)
				case 3:
					e["o"] = "lfirst"
					el, err := arr.GetProperty("首项")
					rep = replyOf(el, err)
				case 4:
					e["o"] = "llast"
					el, err := arr.GetProperty("末项")
					rep = replyOf(el, err)
				case 5:
					e["o"] = "lrev"
					el, err := arr.GetProperty("逆序")
					rep = replyOf(el, err)
					keepEl = el
				case 6:
					e["o"], e["v"] = "lprepend", v
					el, err := arr.ExecMethod("前增", []r.Element{N(v)})
					rep = replyOf(el, err)
				case 7:
					e["o"], e["v"] = "lappend", v
					el, err := arr.ExecMethod("后增", []r.Element{N(v)})
					rep = replyOf(el, err)
				case 8:
					e["o"] = "lshift"
					el, err := arr.ExecMethod("左移", []r.Element{})
					rep = replyOf(el, err)
				case 9:
					e["o"] = "lpop"
					el, err := arr.ExecMethod("右移", []r.Element{})
					rep = replyOf(el, err)
				case 10:
					e["o"], e["i"], e["j"] = "lswap", i, j
					el, err := arr.ExecMethod("交换", []r.Element{N(i), N(j)})
					rep = replyOf(el, err)
				case 11:
					o := []int{v, 1 + rnd.Intn(9)}[:rnd.Intn(3)]
					e["o"], e["other"] = "lmerge", o
					var els []r.Element
					for _, x := range o {
						els = append(els, N(x))
					}
					el, err := arr.ExecMethod("合并", []r.Element{value.NewArray(els)})
					rep = replyOf(el, err)
					keepEl = el
				case 12:
					e["o"], e["v"] = "lcontains", v
					el, err := arr.ExecMethod("包含", []r.Element{N(v)})
					rep = replyOf(el, err)
				case 13:
					e["o"], e["v"] = "lfind", v
					el, err := arr.ExecMethod("寻找", []r.Element{N(v)})
					rep = replyOf(el, err)
					if rep["k"] == "val" {
						rep = map[string]interface{}{"k": "find", "raw": rep["v"]}
					}
				}
			}
		} else {
			k := keys[rnd.Intn(len(keys))]
			v := 1 + rnd.Intn(9)
			switch rnd.Intn(8) {
			case 0:
				e["o"], e["key"] = "dget", k
				el, err := value.NewHashMapIV(hm, k).ReduceRHS()
				rep = replyOf(el, err)
			case 1:
				e["o"], e["key"], e["v"] = "dset", k, v
				err := value.NewHashMapIV(hm, k).ReduceLHS(N(v))
				rep = replyOf(N(v), err)
			case 2:
				e["o"], e["key"] = "dread", k
				el, err := hm.ExecMethod("读取", []r.Element{value.NewString(k)})
				rep = replyOf(el, err)
			case 3:
				e["o"], e["key"], e["v"] = "dwrite", k, v
				el, err := hm.ExecMethod("写入", []r.Element{value.NewString(k), N(v)})
				rep = replyOf(el, err)
			case 4:
				e["o"], e["key"] = "dremove", k
				el, err := hm.ExecMethod("移除", []r.Element{value.NewString(k)})
				rep = replyOf(el, err)
			case 5:
				e["o"] = "dlen"
				el, err := hm.GetProperty("数目")
				rep = replyOf(el, err)
			case 6:
				e["o"] = "dkeys"
				el, err := hm.GetProperty("所有索引")
				rep = replyOf(el, err)
				keepEl = el
			case 7:
				e["o"] = "dvals"
				el, err := hm.GetProperty("所有值")
				rep = replyOf(el, err)
				keepEl = el
			}
		}
		e["r"] = rep
		if o, _ := e["o"].(string); (o == "lrev" || o == "lmerge" || o == "dkeys" || o == "dvals") && keepEl != nil {
			if a, ok := keepEl.(*value.Array); ok {
				kept = a
			}
		}
		if kept != nil {
			e["kept"] = arrInts(kept)
		} else {
			e["kept"] = []interface{}{}
		}
		// full projected state
		e["l"] = arrInts(arr)
		ks := []interface{}{}
		vs := []interface{}{}
		m := hm.GetValue()
		for _, k := range hm.GetKeyOrder() {
			ks = append(ks, k)
			if n, ok := m[k].(*value.Number); ok {
				vs = append(vs, int(n.GetValue()))
			} else {
				vs = append(vs, -999)
			}
		}
		e["dk"], e["dv"], e["dn"] = ks, vs, len(m)
		log = append(log, e)
	}
	return map[string]interface{}{"obs": "done", "log": log}
}

func init() {
	pool.Register("coll", handleColl)
	pool.Register("collhist", handleCollHist)
}
