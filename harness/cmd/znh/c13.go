package main

// C13 binding ("strlit" mode): a ZnStr literal (symbols) is concretised and read by zh.NextToken; for the
// “ ” and 「 」 families also end to end through Interpreter.Execute (输出‹literal›).

import (
	"encoding/json"
	"os"
	"path/filepath"
	"strconv"
	"strings"

	zerr "github.com/DemoHn/Zn/pkg/error"
	"github.com/DemoHn/Zn/pkg/syntax"
	"github.com/DemoHn/Zn/pkg/syntax/zh"

	"verifharness/internal/pool"
	"verifharness/internal/zn"
)

var strSym = map[string][]rune{
	"ql1": {'“'}, "qr1": {'”'}, "ql2": {'「'}, "qr2": {'」'}, "ql3": {'‘'}, "qr3": {'’'}, "ql4": {'『'}, "qr4": {'』'}, "ql5": {'《'}, "qr5": {'》'},
	"bt": {'`'}, "CR": {'\r'}, "LF": {'\n'}, "TAB": {'\t'}, "SP": {' '},
	"C": {'C'}, "R": {'R'}, "L": {'L'}, "F": {'F'}, "T": {'T'}, "A": {'A'}, "B": {'B'}, "S": {'S'}, "P": {'P'}, "K": {'K'}, "U": {'U'},
	"+": {'+'}, "0": {'0'}, "1": {'1'}, "8": {'8'}, "D": {'D'},
	// "any other character": letters of several scripts, digits, punctuation, blanks, and members of every general category that a
	// lexer might single out - controls, format characters (zero-width, bidirectional controls, variation selectors, tags),
	// line / paragraph separators, combining marks, private use, noncharacters, the last code point
	"x": {'x', '甲', ' ', '，', '1', 'c', '😀', '{', '：', '；', 0xFEFF,
		0x01, 0x08, 0x0B, 0x0C, 0x1B, 0x7F, 0x85, 0xA0, 0xAD, 0x301, 0x34F, 0x61C, 0x180E, 0x200B, 0x200C, 0x200D, 0x200E, 0x200F, 0x2028, 0x2029,
		0x202A, 0x202B, 0x202C, 0x202D, 0x202E, 0x2060, 0x2066, 0x2067, 0x2068, 0x2069, 0x3000, 0xFE0F, 0xFFF9, 0xFFFC, 0xFFFD, 0xFFFE, 0xFFFF, 0xE000,
		0xE0001, 0x10FFFF, 0xD7FF, 0x10000, 'é', 'ß', 'Ω', 'ア', '가', '\\', '"', '\'', '#', '%', '|', '$', '@', '~', '^', '&', '<', '>', '?', '!',
		'（', '）', '【', '】', '、', '。', '=', '*', '/', '-', '}', '[', ']', '(', ')', ',', ';', ':', '！', '？'},
}

type strCase struct {
	Lit  []string          `json:"lit"`
	Val  []json.RawMessage `json:"val"`
	Reps []int             `json:"reps"`
	E2E  bool              `json:"e2e"`
	Pads []int             `json:"pads"` // end to end through a FILE: the body is preceded (inside the literal) by this many ASCII letters
	Strad [][]json.RawMessage `json:"strad"` // the same, the letters followed by a multi-byte character that straddles the block boundary: [letters, character]
}

func symRune(s string, rep, i int) rune {
	alts := strSym[s]
	return alts[(rep+i*(rep%3))%len(alts)]
}

func handleStrLit(raw json.RawMessage) interface{} {
	var c strCase
	if err := json.Unmarshal(raw, &c); err != nil {
		return map[string]interface{}{"obs": "harness-error", "detail": err.Error()}
	}
	var runs []map[string]interface{}
	for _, rep := range c.Reps {
		src := make([]rune, len(c.Lit))
		// x positions of the literal: remember the concrete rune for the expected value
		xs := []rune{}
		for i, s := range c.Lit {
			src[i] = symRune(s, rep, i)
			if s == "x" {
				xs = append(xs, src[i])
			}
		}
		// expected value: symbols -> runes (x in order of appearance; escapes never produce x)
		want := []rune{}
		xi := 0
		for _, rv := range c.Val {
			var sym string
			if json.Unmarshal(rv, &sym) == nil {
				if sym == "x" {
					if xi < len(xs) {
						want = append(want, xs[xi])
					}
					xi++
				} else {
					want = append(want, strSym[sym][0])
				}
			} else {
				var u struct {
					U []string `json:"u"`
				}
				json.Unmarshal(rv, &u)
				h := ""
				for _, d := range u.U {
					h += d
				}
				n, _ := strconv.ParseInt(h, 16, 32)
				want = append(want, rune(n))
			}
		}
		l := syntax.NewLexer(src)
		tk, err := zh.NextToken(l)
		r := map[string]interface{}{"rep": rep, "src": string(src), "want": string(want)}
		if err != nil {
			r["status"] = "err"
			if se, ok := err.(*zerr.SyntaxError); ok {
				r["code"] = se.Code
			}
		} else {
			r["status"] = "ok"
			r["type"] = tk.Type
			r["got"] = string(tk.Literal)
			r["end"] = tk.EndIdx
			r["eq"] = string(tk.Literal) == string(want)
		}
		if c.E2E {
			o := zn.RunScript("输出"+string(src)+"\n", nil)
			r["e2e_obs"] = o.Obs
			if o.Obs == "value" && o.Val["t"] == "str" {
				r["e2e_eq"] = o.Val["v"] == string(want)
				r["e2e_got"] = o.Val["v"]
			} else {
				r["e2e_msg"] = lastLine(o.Msg)
			}
		}
		// long literals read from a file: the same body pushed to (and across) the 4096-byte read blocks
		type padw struct {
			n int
			w string
		}
		var pws []padw
		for _, pad := range c.Pads {
			pws = append(pws, padw{pad, ""})
		}
		for _, st := range c.Strad {
			var n int
			var w string
			if len(st) == 2 && json.Unmarshal(st[0], &n) == nil && json.Unmarshal(st[1], &w) == nil {
				pws = append(pws, padw{n, w})
			}
		}
		for _, pw := range pws {
			pad := pw.n
			padding := strings.Repeat("p", pad) + pw.w
			text := "输出" + string(src[:1]) + padding + string(src[1:]) + "\n"
			dir, derr := os.MkdirTemp(os.Getenv("VERIF_SCRATCH"), "strlit-")
			if derr != nil {
				continue
			}
			path := filepath.Join(dir, "长文.zn")
			os.WriteFile(path, []byte(text), 0644)
			o := zn.RunFile(path, nil)
			os.RemoveAll(dir)
			fr := map[string]interface{}{"pad": pad, "obs": o.Obs, "w": pw.w}
			if o.Obs == "value" && o.Val["t"] == "str" {
				got, _ := o.Val["v"].(string)
				fr["eq"] = got == padding+string(want)
				if got != padding+string(want) && len(got) >= pad {
					fr["got_tail"] = got[pad:]
				}
			} else {
				fr["msg"] = lastLine(o.Msg)
			}
			r["file_"+strconv.Itoa(pad)+pw.w] = fr
		}
		runs = append(runs, r)
	}
	return map[string]interface{}{"obs": "done", "runs": runs}
}

func init() { pool.Register("strlit", handleStrLit) }
