package main

// "lex" mode (C04): concretise a ZnLex symbol string and run the zh.NextToken loop.

import (
	"encoding/json"
	"fmt"

	zerr "github.com/DemoHn/Zn/pkg/error"
	"github.com/DemoHn/Zn/pkg/syntax"
	"github.com/DemoHn/Zn/pkg/syntax/zh"

	"verifharness/internal/pool"
)

var lexSym = map[string][]rune{
	"bian": {'遍'}, "bu": {'不'}, "chu": {'出'}, "da": {'大'}, "dang": {'当'}, "dao": {'导'}, "daoy": {'到'}, "de": {'的'}, "deng": {'等'}, "dey": {'得'}, "ding": {'定'}, "fou": {'否'}, "guo": {'果'}, "he": {'何'}, "heng": {'恒'}, "huan": {'环'}, "huo": {'或'}, "ji": {'继'}, "jian": {'建'}, "jie": {'结'}, "jiey": {'截'}, "lan": {'拦'}, "li": {'历'}, "ling": {'令'}, "mei": {'每'}, "pao": {'抛'}, "qi": {'其'}, "qie": {'且'}, "ru": {'如'}, "ruy": {'入'}, "she": {'设'}, "shr": {'输'}, "shu": {'束'}, "wei": {'为'}, "xiao": {'小'}, "xin": {'新'}, "xu": {'续'}, "xun": {'循'}, "yi": {'以'}, "yiy": {'义'}, "yu": {'于'}, "zai": {'再'}, "ze": {'则'}, "zhi": {'之'}, "zhu": {'注'},
	"L": {'甲', 'a', 'ア', '가', 'é', 'Ω', '_', 'Z'}, "D": {'1', '0', '7', '9'},
	"+": {'+'}, "-": {'-'}, "*": {'*'}, "/": {'/'}, "%": {'%'}, "sp": {' ', '\t', 0x3000}, "bt": {'`'}, "col": {'：', ':'},
	"dot": {'.'}, "eq": {'='}, "lq": {'“'}, "rq": {'”'},
}

var tokName = map[uint8]string{
	zh.TypeIdentifier: "id", zh.TypeString: "str", zh.TypeComment: "comment", zh.TypeFuncCall: "punct",
	zh.TypeAssignMark: "op=", zh.TypeEqualMark: "op==", zh.TypeNEMark: "op/=", zh.TypePlus: "op+", zh.TypeMinus: "op-",
	zh.TypeMultiply: "op*", zh.TypeDivision: "op/", zh.TypeModuloMark: "op%",
	zh.TypeDeclareW: "kwDeclare", zh.TypeLogicYesW: "kwLogicYes", zh.TypeAssignConstW: "kwAssignConst", zh.TypeCondOtherW: "kwCondOther", zh.TypeCondW: "kwCond", zh.TypeFuncW: "kwFunc", zh.TypeGetterW: "kwGetter", zh.TypeReturnW: "kwReturn", zh.TypeAssignW: "kwAssign", zh.TypeLogicNoW: "kwLogicNo", zh.TypeLogicNotEqW: "kwLogicNotEq", zh.TypeLogicLteW: "kwLogicLte", zh.TypeLogicGteW: "kwLogicGte", zh.TypeLogicLtW: "kwLogicLt", zh.TypeLogicGtW: "kwLogicGt", zh.TypeVarOneW: "kwVarOne", zh.TypeCondElseW: "kwCondElse", zh.TypeWhileLoopW: "kwWhileLoop", zh.TypeObjNewW: "kwObjNew", zh.TypeObjDefineW: "kwObjDefine", zh.TypeObjThisW: "kwObjThis", zh.TypeLogicOrW: "kwLogicOr", zh.TypeLogicAndW: "kwLogicAnd", zh.TypeObjDotW: "kwObjDot", zh.TypeObjDotIIW: "kwObjDotII", zh.TypeCatchErrorW: "kwCatchError", zh.TypeLogicEqualW: "kwLogicEqual", zh.TypeInputW: "kwInput", zh.TypeIteratorW: "kwIterator", zh.TypeImportW: "kwImport", zh.TypeGetResultW: "kwGetResult", zh.TypeThrowErrorW: "kwThrowError", zh.TypeContinueW: "kwContinue", zh.TypeBreakW: "kwBreak",
}

type lexCase struct {
	S    []string `json:"s"`
	Reps []int    `json:"reps"`
}

func handleLex(raw json.RawMessage) interface{} {
	var c lexCase
	if err := json.Unmarshal(raw, &c); err != nil {
		return map[string]interface{}{"obs": "harness-error", "detail": err.Error()}
	}
	var runs []map[string]interface{}
	hasZhu := false
	for _, s := range c.S {
		if s == "zhu" {
			hasZhu = true
		}
	}
	for _, rep := range c.Reps {
		src := make([]rune, len(c.S))
		for i, s := range c.S {
			alts := lexSym[s]
			k := 0
			if s == "L" || s == "D" {
				k = (rep + i) % len(alts)
			} else if s == "sp" || s == "col" {
				// the comment colon must be the Chinese one; keep rep 0 canonical
				k = rep % len(alts)
				// 注…： is a comment only with the Chinese colon: keep it when the text contains 注
				if s == "col" && (rep%3 != 2 || hasZhu) {
					k = 0
				}
			}
			src[i] = alts[k]
		}
		l := syntax.NewLexer(src)
		toks := []map[string]interface{}{}
		status := "ok"
		detail := ""
		for n := 0; ; n++ {
			if n > 4*len(src)+8 {
				status = "no-progress"
				break
			}
			tk, err := zh.NextToken(l)
			if err != nil {
				status = "err"
				if se, ok := err.(*zerr.SyntaxError); ok {
					detail = fmt.Sprintf("%d@%d", se.Code, se.Cursor)
				} else {
					detail = err.Error()
				}
				break
			}
			if tk.Type == zh.TypeEOF {
				break
			}
			name, ok := tokName[tk.Type]
			if !ok {
				name = fmt.Sprintf("type%d", tk.Type)
			}
			toks = append(toks, map[string]interface{}{"k": name, "a": tk.StartIdx, "b": tk.EndIdx, "lit": string(tk.Literal)})
		}
		runs = append(runs, map[string]interface{}{"rep": rep, "src": string(src), "status": status, "detail": detail, "toks": toks})
	}
	return map[string]interface{}{"obs": "done", "runs": runs}
}

func init() { pool.Register("lex", handleLex) }
