package main

// "repeat" mode (C11): execute the same program N times in this process (fresh interpreter each time;
// Go draws a fresh random start for every map range) and report the distinct outcome records.

import (
	"encoding/json"

	"verifharness/internal/pool"
	"verifharness/internal/zn"
)

type repeatCase struct {
	Src string `json:"src"`
	N   int    `json:"n"`
}

func handleRepeat(raw json.RawMessage) interface{} {
	var c repeatCase
	if err := json.Unmarshal(raw, &c); err != nil {
		return map[string]interface{}{"obs": "harness-error", "detail": err.Error()}
	}
	seen := map[string]int{}
	var firsts []map[string]interface{}
	for i := 0; i < c.N; i++ {
		o := zn.RunScript(c.Src, nil)
		rec := map[string]interface{}{"obs": o.Obs, "val": o.Val, "display": o.Display, "code": o.Code, "msg": o.Msg, "text": o.Text}
		b, _ := json.Marshal(rec)
		k := string(b)
		if _, ok := seen[k]; !ok {
			firsts = append(firsts, rec)
		}
		seen[k]++
	}
	counts := []int{}
	for _, f := range firsts {
		b, _ := json.Marshal(f)
		counts = append(counts, seen[string(b)])
	}
	return map[string]interface{}{"obs": "done", "distinct": len(firsts), "records": firsts, "counts": counts}
}

func init() { pool.Register("repeat", handleRepeat) }
