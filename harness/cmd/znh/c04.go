package main

// C04 binding.
//   "num":   ZnNum vectors (class string, classification, digit spans) -> exec.MatchIDType on concrete spellings;
//            the value must be the correctly rounded double of the denoted decimal (math/big).
//   "idrange": run-length encoding of syntax.IdInRange over all 0x110000 code points (+ a second lookup path).
//   "lex":   ZnLex vectors -> zh.NextToken loop.

import (
	"encoding/json"
	"fmt"
	"math"
	"math/big"
	"strings"

	"github.com/DemoHn/Zn/pkg/exec"
	r "github.com/DemoHn/Zn/pkg/runtime"
	"github.com/DemoHn/Zn/pkg/syntax"
	"github.com/DemoHn/Zn/pkg/syntax/zh"

	"verifharness/internal/pool"
	"verifharness/internal/zn"
)

type numCase struct {
	S    []string `json:"s"`
	C    string   `json:"c"`
	Neg  bool     `json:"neg"`
	IB   int      `json:"ib"`
	IE   int      `json:"ie"`
	FB   int      `json:"fb"`
	FE   int      `json:"fe"`
	ES   string   `json:"es"`
	EB   int      `json:"eb"`
	EE   int      `json:"ee"`
	Reps []int    `json:"reps"`
	Eval bool     `json:"eval"` // also evaluate the literal repeatedly in a program (a seeded sample)
}

var otherChars = []rune{'a', '甲', '_', 'x', 'f', 'é'}

func numConcrete(s []string, rep int) []rune {
	out := make([]rune, len(s))
	for i, c := range s {
		switch c {
		case "d":
			out[i] = rune('2' + (rep+i*3)%8)
		case "o":
			out[i] = otherChars[(rep+i)%len(otherChars)]
		default:
			out[i] = []rune(c)[0]
		}
	}
	return out
}

func handleNum(raw json.RawMessage) interface{} {
	var c numCase
	if err := json.Unmarshal(raw, &c); err != nil {
		return map[string]interface{}{"obs": "harness-error", "detail": err.Error()}
	}
	var ms []map[string]interface{}
	for _, rep := range c.Reps {
		lit := numConcrete(c.S, rep)
		id := new(syntax.ID)
		id.SetLiteral(lit)
		t, err := exec.MatchIDType(id)
		got := "name"
		var val float64
		if err != nil {
			got = "reject"
		} else if n, ok := t.(*r.IDNumber); ok {
			got = "number"
			val = n.GetValue()
		}
		if got != c.C {
			ms = append(ms, map[string]interface{}{"kind": "class:" + c.C + "->" + got, "lit": string(lit)})
			continue
		}
		if got == "number" {
			// denoted decimal from the spans the spec recorded
			intp := string(lit[c.IB-1 : c.IE])
			frac := ""
			if c.FB > 0 {
				frac = string(lit[c.FB-1 : c.FE])
			}
			ex := "0"
			if c.EB > 0 {
				ex = string(lit[c.EB-1 : c.EE])
			}
			want := decimalToFloat(c.Neg, intp, frac, c.ES == "-", ex)
			if math.Float64bits(want) != math.Float64bits(val) && !(want == 0 && val == 0) {
				ms = append(ms, map[string]interface{}{"kind": "value", "lit": string(lit), "want": fmt.Sprint(want), "got": fmt.Sprint(val)})
			}
			// the identifier denotes that number EVERY time it is evaluated: the same occurrence in a loop, as the receiver of the
			// in-place number methods, as an argument of a method that changes its input, in between plain uses
			if c.Eval && !math.IsInf(want, 0) && want != 0 { // (the sign of a zero is not compared, as above)
				src := "如何改？\n    输入数\n    以数（自增：1）\n    输出数\n\n令果 = 【】\n令次 = 0\n每当次 < 3：\n    次 = 次 + 1\n    以果（后增：以 " + string(lit) + " （自增：1））\n    以果（后增：（改： " + string(lit) + " ））\n    以果（后增： " + string(lit) + " ）\n输出果\n"
				o := zn.RunScript(src, nil)
				okAll := o.Obs == "value"
				var gotS []string
				if okAll {
					items, _ := o.Val["v"].([]interface{})
					okAll = len(items) == 9
					for i, it := range items {
						v, _ := it.(zn.V)
						gotS = append(gotS, fmt.Sprint(v["s"]))
						w := want
						if i%3 != 2 {
							w = want + 1
						}
						if v["t"] != "num" || v["s"] != zn.NumStr(w) {
							okAll = false
						}
					}
				}
				if !okAll {
					ms = append(ms, map[string]interface{}{"kind": "value-on-re-evaluation", "lit": string(lit), "want": fmt.Sprintf("three times [%s+1, %s+1, %s]", zn.NumStr(want), zn.NumStr(want), zn.NumStr(want)), "got": fmt.Sprint(o.Obs, " ", gotS, " ", lastLine(o.Msg))})
				}
			}
		}
	}
	return map[string]interface{}{"obs": "done", "mism": ms}
}

// correctly rounded double of  (-)intp.frac x 10^(+-ex), via exact rational arithmetic
func decimalToFloat(neg bool, intp, frac string, eneg bool, ex string) float64 {
	m := new(big.Int)
	m.SetString(intp+frac, 10)
	e := new(big.Int)
	e.SetString(ex, 10)
	if !e.IsInt64() || e.Int64() > 5000 {
		// far outside the double range: 0 or Inf
		if m.Sign() == 0 {
			return 0
		}
		if eneg {
			if neg {
				return math.Copysign(0, -1)
			}
			return 0
		}
		if neg {
			return math.Inf(-1)
		}
		return math.Inf(1)
	}
	exp := e.Int64()
	if eneg {
		exp = -exp
	}
	exp -= int64(len(frac))
	rat := new(big.Rat).SetInt(m)
	p := new(big.Int).Exp(big.NewInt(10), big.NewInt(abs64(exp)), nil)
	if exp >= 0 {
		rat.Mul(rat, new(big.Rat).SetInt(p))
	} else {
		rat.Quo(rat, new(big.Rat).SetInt(p))
	}
	if neg {
		rat.Neg(rat)
	}
	f, _ := rat.Float64()
	return f
}

func abs64(x int64) int64 {
	if x < 0 {
		return -x
	}
	return x
}

// run-length encoding of IdInRange over every code point
func handleIDRange(raw json.RawMessage) interface{} {
	var runs [][2]int
	start := -1
	for cp := 0; cp <= 0x110000; cp++ {
		in := cp < 0x110000 && syntax.IdInRange(rune(cp))
		if in && start < 0 {
			start = cp
		}
		if !in && start >= 0 {
			runs = append(runs, [2]int{start, cp - 1})
			start = -1
		}
	}
	// negative and huge values must be outside
	extra := []bool{syntax.IdInRange(-1), syntax.IdInRange(0x7fffffff), syntax.IdInRange(-0x80000000)}
	// second lookup path: IDContinue membership used by the lexer
	cont := []int{}
	for _, c := range syntax.IDContinue {
		cont = append(cont, int(c))
	}
	_ = strings.ToLower
	// third path: what the LEXER takes as part of a name - for every code point c the text "a" c "a" is tokenised; c counts as
	// a name character when the first token is an identifier that covers at least "a" c
	var lexruns [][2]int
	start = -1
	for cp := 0; cp <= 0x110000; cp++ {
		in := false
		if cp < 0x110000 && !(cp >= 0xD800 && cp <= 0xDFFF) {
			l := syntax.NewLexer([]rune{'a', rune(cp), 'a'})
			tk, err := zh.NextToken(l)
			in = err == nil && tk.Type == zh.TypeIdentifier && tk.StartIdx == 0 && tk.EndIdx >= 2
		}
		if in && start < 0 {
			start = cp
		}
		if !in && start >= 0 {
			lexruns = append(lexruns, [2]int{start, cp - 1})
			start = -1
		}
	}
	kwg := []int{}
	for k, v := range lexSym {
		if len(k) >= 2 && k != "sp" && k != "bt" && k != "col" && k != "dot" && k != "eq" && k != "lq" && k != "rq" {
			for _, c := range v {
				kwg = append(kwg, int(c))
			}
		}
	}
	return map[string]interface{}{"obs": "done", "runs": runs, "extra": extra, "cont": cont, "lexruns": lexruns, "kwglyphs": kwg}
}

func init() {
	pool.Register("num", handleNum)
	pool.Register("idrange", handleIDRange)
}
