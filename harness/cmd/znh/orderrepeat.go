package main

// "orderrepeat" mode (C11): a CORPUS of programs is executed several times in this one process, every round in another
// order (seeded shuffles; the first round in the given order, the second in reverse).  What a program yields must not
// depend on which programs ran before it in the process: per program, the records of all rounds must be one record.

import (
	"encoding/json"
	"math/rand"

	"verifharness/internal/pool"
	"verifharness/internal/zn"
)

type orderRepeatCase struct {
	Srcs   []string `json:"srcs"`
	Rounds int      `json:"rounds"`
	Seed   int64    `json:"seed"`
}

func handleOrderRepeat(raw json.RawMessage) interface{} {
	var c orderRepeatCase
	if err := json.Unmarshal(raw, &c); err != nil {
		return map[string]interface{}{"obs": "harness-error", "detail": err.Error()}
	}
	rnd := rand.New(rand.NewSource(c.Seed))
	n := len(c.Srcs)
	recs := make([]map[string]int, n)        // program -> record -> count
	first := make([]map[string][]int, n)     // program -> record -> [round, position, previous program]
	for i := range recs {
		recs[i] = map[string]int{}
		first[i] = map[string][]int{}
	}
	for round := 0; round < c.Rounds; round++ {
		order := make([]int, n)
		for i := range order {
			order[i] = i
		}
		switch round {
		case 0:
		case 1:
			for i, j := 0, n-1; i < j; i, j = i+1, j-1 {
				order[i], order[j] = order[j], order[i]
			}
		default:
			rnd.Shuffle(n, func(i, j int) { order[i], order[j] = order[j], order[i] })
		}
		prev := -1
		for pos, pi := range order {
			o := zn.RunScript(c.Srcs[pi], nil)
			rec := map[string]interface{}{"obs": o.Obs, "val": o.Val, "display": o.Display, "code": o.Code, "msg": o.Msg, "text": o.Text}
			b, _ := json.Marshal(rec)
			k := string(b)
			if _, ok := recs[pi][k]; !ok {
				first[pi][k] = []int{round, pos, prev}
			}
			recs[pi][k]++
			prev = pi
		}
	}
	var out []map[string]interface{}
	for pi := range recs {
		if len(recs[pi]) > 1 {
			var vs []map[string]interface{}
			for k, cnt := range recs[pi] {
				var rec map[string]interface{}
				json.Unmarshal([]byte(k), &rec)
				vs = append(vs, map[string]interface{}{"record": rec, "count": cnt, "first_seen": first[pi][k]})
			}
			out = append(out, map[string]interface{}{"program": pi, "variants": vs})
		}
	}
	return map[string]interface{}{"obs": "done", "differing": out, "runs": n * c.Rounds}
}

func init() { pool.Register("orderrepeat", handleOrderRepeat) }
