package main

// "prog" mode: render a ZnEval program record, execute it with the H2 tracer installed, and report
// the outcome, the display trace, the parsed error report and the statement-level event trace.

import (
	"encoding/json"
	"regexp"
	"strconv"
	"strings"

	r "github.com/DemoHn/Zn/pkg/runtime"
	"github.com/DemoHn/Zn/pkg/value"

	"verifharness/internal/pool"
	"verifharness/internal/render"
	"verifharness/internal/zn"
)

type progCase struct {
	Prog   render.Prog `json:"prog"`
	Inputs map[string]json.RawMessage `json:"inputs"`
}

type lineEv struct {
	L int `json:"l"`  // 1-based physical line
	F int `json:"f"`  // frames on the call stack
	D int `json:"d"`  // scope depth of the current module
}

var reHead = regexp.MustCompile(`位于第 (\d+) 行`)
var reBody = regexp.MustCompile(`第 (\d+) 行：`)

// parseChain extracts the line numbers of the head line and the body lines of a runtime error report.
func parseChain(text string) ([]int, int) {
	var chain []int
	native := 0
	for _, l := range strings.Split(text, "\n") {
		if strings.HasPrefix(l, "在") {
			if m := reHead.FindStringSubmatch(l); m != nil {
				n, _ := strconv.Atoi(m[1])
				chain = append(chain, n)
			} else if strings.Contains(l, "内置模块") {
				native++
			}
		} else if strings.HasPrefix(l, "来自") {
			if m := reBody.FindStringSubmatch(l); m != nil {
				n, _ := strconv.Atoi(m[1])
				chain = append(chain, n)
			} else if strings.Contains(l, "内置模块") {
				native++
			}
		}
	}
	return chain, native
}

func handleProg(raw json.RawMessage) interface{} {
	var c progCase
	if err := json.Unmarshal(raw, &c); err != nil {
		return map[string]interface{}{"obs": "harness-error", "detail": err.Error()}
	}
	src, lmap := render.Program(&c.Prog)
	var evs []lineEv
	var final r.VerifSnap
	nev := 0
	r.VerifHook = func(vm *r.VM, ev string, name string, n int) {
		nev++
		if ev == "line" {
			if len(evs) < 5000 {
				s := vm.VerifSnapshot()
				evs = append(evs, lineEv{n + 1, s.Frames, s.CurDepth})
			}
		}
		if ev == "pop" || ev == "end" {
			final = vm.VerifSnapshot()
		}
	}
	defer func() { r.VerifHook = nil }()
	var inputs map[string]r.Element
	if len(c.Prog.Inputs) > 0 {
		inputs = map[string]r.Element{}
		for j, n := range c.Prog.Inputs {
			inputs[render.Name(n)] = value.NewNumber(float64(j + 1))
		}
	}
	o := zn.RunScript(src, inputs)
	res := map[string]interface{}{"obs": o.Obs, "val": o.Val, "display": o.Display, "ev": evs, "lmap": lmap, "src": src,
		"code": o.Code, "errkind": o.ErrKind, "msg": lastLine(o.Msg), "nev": nev}
	if o.Obs == "error" {
		chain, native := parseChain(o.Text)
		res["chain"] = chain
		res["native"] = native
		res["text"] = o.Text
	} else {
		depths := 0
		live := 0
		for _, d := range final.Depth {
			depths += d
		}
		for _, l := range final.Live {
			live += l
		}
		res["end"] = map[string]int{"frames": final.Frames, "depth": depths, "live": live}
	}
	return res
}

func init() { pool.Register("prog", handleProg) }
