package main

// "prog" mode: render a ZnEval program record, execute it with the H2 tracer installed, and report
// the outcome, the display trace, the parsed error report and the statement-level event trace.

import (
	"encoding/json"
	"fmt"
	"os"
	"path/filepath"
	"regexp"
	"strconv"
	"strings"

	r "github.com/DemoHn/Zn/pkg/runtime"
	"github.com/DemoHn/Zn/pkg/value"

	"verifharness/internal/pool"
	"verifharness/internal/render"
	"verifharness/internal/zn"
)

type progCase struct {
	Prog   render.Prog `json:"prog"`
	Inputs map[string]json.RawMessage `json:"inputs"`
}

type lineEv struct {
	L int `json:"l"` // 1-based physical line
	F int `json:"f"` // frames on the call stack
	D int `json:"d"` // scope depth of the current module
	M int `json:"m"` // module the statement belongs to: 0 main file, k = k-th module file
}

var reHead = regexp.MustCompile(`位于第 (\d+) 行`)
var reBody = regexp.MustCompile(`第 (\d+) 行：`)
var reMod = regexp.MustCompile(`“([^”]*)”`)

// parseChain extracts the line numbers (and module names, "" = main module) of the head line and the
// body lines of a runtime error report.
func parseChain(text string) ([]int, []string, int) {
	var chain []int
	var mods []string
	native := 0
	modOf := func(l string) string {
		if strings.Contains(l, "主模块") {
			return ""
		}
		if m := reMod.FindStringSubmatch(l); m != nil {
			return m[1]
		}
		return "?"
	}
	for _, l := range strings.Split(text, "\n") {
		if strings.HasPrefix(l, "在") {
			if m := reHead.FindStringSubmatch(l); m != nil {
				n, _ := strconv.Atoi(m[1])
				chain = append(chain, n)
				mods = append(mods, modOf(l))
			} else if strings.Contains(l, "内置模块") {
				native++
			}
		} else if strings.HasPrefix(l, "来自") {
			if m := reBody.FindStringSubmatch(l); m != nil {
				n, _ := strconv.Atoi(m[1])
				chain = append(chain, n)
				mods = append(mods, modOf(l))
			} else if strings.Contains(l, "内置模块") {
				native++
			}
		}
	}
	return chain, mods, native
}

func handleProg(raw json.RawMessage) interface{} {
	var c progCase
	if err := json.Unmarshal(raw, &c); err != nil {
		return map[string]interface{}{"obs": "harness-error", "detail": err.Error()}
	}
	var src string
	var lmap map[string]int
	var modSrc map[string]string
	multi := len(c.Prog.Mods) > 0
	if multi {
		src, modSrc, lmap = render.Files(&c.Prog)
	} else {
		src, lmap = render.Program(&c.Prog)
	}
	modIdx := func(name string) int {
		for k, m := range c.Prog.Mods {
			if m.Name == name {
				return k + 1
			}
		}
		return 0
	}
	var evs []lineEv
	var final r.VerifSnap
	nev := 0
	mainMod := -1
	r.VerifHook = func(vm *r.VM, ev string, name string, n int) {
		nev++
		if ev == "line" {
			if mainMod < 0 {
				if s := vm.VerifSnapshot(); s.Frames == 1 {
					mainMod = s.CurMod
				}
			}
			if len(evs) < 5000 {
				s := vm.VerifSnapshot()
				mi := 0
				if multi {
					if cm := vm.GetCurrentModule(); cm != nil {
						mi = modIdx(cm.GetName())
					}
				}
				evs = append(evs, lineEv{n + 1, s.Frames, s.CurDepth, mi})
			}
		}
		if ev == "pop" || ev == "end" {
			final = vm.VerifSnapshot()
		}
	}
	defer func() { r.VerifHook = nil }()
	var inputs map[string]r.Element
	if len(c.Prog.Inputs) > 0 {
		inputs = map[string]r.Element{}
		for j, n := range c.Prog.Inputs {
			inputs[render.Name(n)] = value.NewNumber(float64(j + 1))
		}
	}
	var o zn.Outcome
	if multi {
		dir, derr := os.MkdirTemp(os.Getenv("VERIF_SCRATCH"), "prog-")
		if derr != nil {
			return map[string]interface{}{"obs": "harness-error", "detail": derr.Error()}
		}
		defer os.RemoveAll(dir)
		for name, text := range modSrc {
			os.WriteFile(filepath.Join(dir, name+".zn"), []byte(text), 0644)
		}
		mainPath := filepath.Join(dir, "主程序.zn")
		os.WriteFile(mainPath, []byte(src), 0644)
		o = zn.RunFile(mainPath, inputs)
		src = src + "\n" + fmt.Sprint(modSrc)
	} else {
		o = zn.RunScript(src, inputs)
	}
	res := map[string]interface{}{"obs": o.Obs, "val": o.Val, "display": o.Display, "ev": evs, "lmap": lmap, "src": src,
		"code": o.Code, "errkind": o.ErrKind, "msg": lastLine(o.Msg), "nev": nev}
	if o.Obs == "error" {
		chain, cmods, native := parseChain(o.Text)
		res["chain"] = chain
		cm := make([]int, len(cmods))
		for k, n := range cmods {
			cm[k] = modIdx(n)
			if n == "?" {
				cm[k] = -1
			}
		}
		res["chainm"] = cm
		res["native"] = native
		res["text"] = o.Text
	} else {
		depths := 0
		live := 0
		if multi {
			// an imported module keeps its own top-level symbols (its methods stay usable): only the
			// main file's module (current at the first statement) must be back to zero
			depths, live = final.Depth[mainMod], 0 // (a module run from a file keeps its top-level symbols: live is not compared)
		} else {
			for _, d := range final.Depth {
				depths += d
			}
			for _, l := range final.Live {
				live += l
			}
		}
		res["end"] = map[string]int{"frames": final.Frames, "depth": depths, "live": live}
	}
	return res
}

func init() { pool.Register("prog", handleProg) }
