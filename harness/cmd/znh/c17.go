package main

// C17 binding: replay ZnFile vectors through FileStream.Read(n), FileStream.ReadAll (vector
// straddling the 4096-byte block boundary at every split), ByteStream.ReadAll and end to end
// through LoadFile(..).Execute.  All expectations come from the TLA+ vector (ok / chars / bom);
// this file only substitutes concrete bytes for byte symbols and compares.

import (
	"bytes"
	"encoding/json"
	"fmt"
	"os"
	"path/filepath"

	zio "github.com/DemoHn/Zn/pkg/io"

	"verifharness/internal/pool"
	"verifharness/internal/zn"
)

var symBytes = map[string][]byte{
	"A":  {0x61, 0x7F, 0x20},
	"L2": {0xC2, 0xDF, 0xD0},
	"L3": {0xE1, 0xEC, 0xEE},
	"EF": {0xEF},
	"E0": {0xE0},
	"ED": {0xED},
	"L4": {0xF1, 0xF3, 0xF2},
	"F0": {0xF0},
	"F4": {0xF4},
	"C":  {0x80, 0x8F, 0x85},
	"BB": {0xBB},
	"BF": {0xBF},
	"BD": {0xBD},
	"X":  {0xFF, 0xC0, 0xF5, 0xFE, 0xC1, 0xF8},
}

type fileCase struct {
	F     []string   `json:"f"`
	OK    bool       `json:"ok"`
	Chars [][]string `json:"chars"`
	BOM   bool       `json:"bom"`
	BSS   []int      `json:"bss"`
	Reps  []int      `json:"reps"`
	Exec  bool       `json:"exec"`
}

func concrete(syms []string, rep int) []byte {
	out := make([]byte, 0, len(syms))
	for _, s := range syms {
		bs := symBytes[s]
		out = append(out, bs[rep%len(bs)])
	}
	return out
}

// code point of a UTF-8 byte tuple by the defining bit formula (independent of unicode/utf8)
func codePoint(b []byte) rune {
	switch len(b) {
	case 1:
		return rune(b[0])
	case 2:
		return rune(b[0]&0x1F)<<6 | rune(b[1]&0x3F)
	case 3:
		return rune(b[0]&0x0F)<<12 | rune(b[1]&0x3F)<<6 | rune(b[2]&0x3F)
	default:
		return rune(b[0]&0x07)<<18 | rune(b[1]&0x3F)<<12 | rune(b[2]&0x3F)<<6 | rune(b[3]&0x3F)
	}
}

func expectRunes(chars [][]string, rep int, strip bool) []rune {
	out := []rune{}
	for i, c := range chars {
		if i == 0 && strip {
			continue
		}
		out = append(out, codePoint(concrete(c, rep)))
	}
	return out
}

func runesEq(a, b []rune) bool {
	if len(a) != len(b) {
		return false
	}
	for i := range a {
		if a[i] != b[i] {
			return false
		}
	}
	return true
}

type mism struct {
	API  string `json:"api"`
	BS   int    `json:"bs"`
	Rep  int    `json:"rep"`
	Kind string `json:"kind"`
	Hex  string `json:"hex"`
	Want string `json:"want"`
	Got  string `json:"got"`
}

var workFile string

func tmpFile() string {
	if workFile == "" {
		dir := os.Getenv("VERIF_SCRATCH")
		if dir == "" {
			dir = os.TempDir()
		}
		workFile = filepath.Join(dir, fmt.Sprintf("c17-%d.zn", os.Getpid()))
	}
	return workFile
}

func kindOf(ok bool, gotErr bool, want, got []rune, bom bool, hasFFFD bool) string {
	if !ok {
		if gotErr {
			return ""
		}
		return "invalid-accepted"
	}
	if gotErr {
		return "valid-rejected"
	}
	if runesEq(want, got) {
		return ""
	}
	if bom && len(got) == len(want)+1 && got[0] == 0xFEFF {
		return "bom-not-stripped"
	}
	if hasFFFD {
		return "altered-fffd"
	}
	return "altered"
}

func show(rs []rune, err error) string {
	if err != nil {
		return "error: " + err.Error()
	}
	return fmt.Sprintf("%U", rs)
}

func handleFile(raw json.RawMessage) interface{} {
	var c fileCase
	if err := json.Unmarshal(raw, &c); err != nil {
		return map[string]interface{}{"obs": "harness-error", "detail": err.Error()}
	}
	var ms []mism
	runs := 0
	add := func(api string, bs, rep int, data []byte, want []rune, got []rune, gerr error, bom bool) {
		runs++
		hasFFFD := false
		for _, r := range want {
			if r == 0xFFFD {
				hasFFFD = true
			}
		}
		k := kindOf(c.OK, gerr != nil, want, got, bom, hasFFFD)
		if k != "" {
			w := "error"
			if c.OK {
				w = fmt.Sprintf("%U", want)
			}
			ms = append(ms, mism{api, bs, rep, k, fmt.Sprintf("% x", data), w, show(got, gerr)})
		}
	}
	path := tmpFile()
	for _, rep := range c.Reps {
		data := concrete(c.F, rep)
		wantStrip := expectRunes(c.Chars, rep, c.BOM)
		wantRaw := expectRunes(c.Chars, rep, false)
		// (i) FileStream.Read(n) loop
		for _, bs := range c.BSS {
			os.WriteFile(path, data, 0644)
			fs, err := zio.NewFileStream(path)
			if err != nil {
				return map[string]interface{}{"obs": "harness-error", "detail": err.Error()}
			}
			var got []rune
			var gerr error
			n := (len(data)+bs-1)/bs + 2
			for i := 0; i < n; i++ {
				rs, e := fs.Read(bs)
				if e != nil {
					gerr = e
					break
				}
				got = append(got, rs...)
			}
			add("Read", bs, rep, data, wantStrip, got, gerr, c.BOM)
		}
		// (ii) FileStream.ReadAll, plain and straddling the 4096 boundary at every split point
		{
			os.WriteFile(path, data, 0644)
			fs, _ := zio.NewFileStream(path)
			got, gerr := fs.ReadAll()
			add("ReadAll", 4096, rep, data, wantStrip, got, gerr, c.BOM)
		}
		if len(data) > 0 {
			for k := 0; k <= len(data) && k <= 6; k++ {
				pre := bytes.Repeat([]byte{'p'}, 4096-k)
				post := []byte("qq")
				full := append(append(append([]byte{}, pre...), data...), post...)
				os.WriteFile(path, full, 0644)
				fs, _ := zio.NewFileStream(path)
				got, gerr := fs.ReadAll()
				want := append(append([]rune(string(pre)), wantRaw...), 'q', 'q')
				// compare only the tail to keep messages small
				runs++
				kk := kindOf(c.OK, gerr != nil, want, got, false, false)
				if kk != "" {
					w := "error"
					if c.OK {
						w = fmt.Sprintf("pad+%U+qq", wantRaw)
					}
					g := "error: "
					if gerr != nil {
						g += gerr.Error()
					} else {
						t := got
						if len(t) > 4096-k {
							t = t[4096-k:]
						} else {
							t = nil
						}
						g = fmt.Sprintf("len=%d tail=%U", len(got), t)
					}
					ms = append(ms, mism{"ReadAll@4096", k, rep, kk, fmt.Sprintf("% x", data), w, g})
				}
			}
		}
		// (ii-b) the vector TILED into a file of more than two read blocks (ZnFile!ConcatLemma: decoding distributes over the
		// concatenation of valid files), as it is and behind a byte-order mark
		if c.OK && len(data) > 0 {
			big, bigWant := tile(data, wantRaw)
			for _, withBOM := range []bool{false, true} {
				full := big
				want := bigWant
				if withBOM {
					full = append([]byte{0xEF, 0xBB, 0xBF}, big...)
				} else if c.BOM {
					want = bigWant[1:]
				}
				os.WriteFile(path, full, 0644)
				fs, _ := zio.NewFileStream(path)
				got, gerr := fs.ReadAll()
				runs++
				if kk := kindOf(true, gerr != nil, want, got, false, false); kk != "" {
					g := fmt.Sprintf("%d characters", len(got))
					if gerr != nil {
						g = "error: " + gerr.Error()
					}
					ms = append(ms, mism{"ReadAll@tiled", len(full), rep, kk, fmt.Sprintf("% x repeated to %d bytes, byte-order mark in front: %v", data, len(full), withBOM), fmt.Sprintf("%d characters", len(want)), g})
				}
			}
		}
		// (iii) ByteStream.ReadAll (no BOM handling: a BOM is an ordinary character there)
		{
			b := zio.NewByteStream(data)
			got, gerr := b.ReadAll()
			add("ByteStream", len(data), rep, data, wantRaw, got, gerr, false)
		}
		// (iv) end to end: the vector sits inside a text literal of a 4-line program
		if c.Exec {
			prog := []byte("（显示：“甲”）\n令X = “")
			prog = append(prog, data...)
			prog = append(prog, []byte("”\n（显示：X）\n（显示：“乙”）\n")...)
			os.WriteFile(path, prog, 0644)
			o := zn.RunFile(path, nil)
			runs++
			if !c.OK {
				if o.Obs != "error" || len(o.Display) != 0 {
					ms = append(ms, mism{"Execute", 0, rep, "invalid-executed", fmt.Sprintf("% x", data), "error, nothing displayed",
						fmt.Sprintf("obs=%s display=%d msg=%s", o.Obs, len(o.Display), o.Msg)})
				}
			} else {
				want := string(wantRaw)
				good := o.Obs == "value" && len(o.Display) == 3
				if good {
					mid, _ := o.Display[1].([]interface{})
					if len(mid) != 1 {
						good = false
					} else if v, ok := mid[0].(zn.V); !ok || v["t"] != "str" || v["v"] != want {
						good = false
					}
				}
				if !good {
					ms = append(ms, mism{"Execute", 0, rep, "valid-altered", fmt.Sprintf("% x", data), fmt.Sprintf("display 甲, %q, 乙", want),
						fmt.Sprintf("obs=%s display=%v msg=%s", o.Obs, o.Display, o.Msg)})
				}
				// the same program as files that START with a byte-order mark (main file and an imported module file): the mark is
				// removed by the loader, the run is the same
				modName := fmt.Sprintf("bommod%d", os.Getpid()) // the scratch directory is shared by the worker processes
				modPath := filepath.Join(filepath.Dir(path), modName+".zn")
				os.WriteFile(modPath, append([]byte{0xEF, 0xBB, 0xBF}, []byte("如何取甲？\n    输出“甲”\n")...), 0644)
				bprog := append([]byte{0xEF, 0xBB, 0xBF}, []byte("导入《"+modName+"》\n（显示：（取甲））\n令X = “")...)
				bprog = append(bprog, data...)
				bprog = append(bprog, []byte("”\n（显示：X）\n（显示：“乙”）\n")...)
				os.WriteFile(path, bprog, 0644)
				ob := zn.RunFile(path, nil)
				os.Remove(modPath)
				runs++
				good = ob.Obs == "value" && len(ob.Display) == 3
				if good {
					mid, _ := ob.Display[1].([]interface{})
					if len(mid) != 1 {
						good = false
					} else if v, ok := mid[0].(zn.V); !ok || v["t"] != "str" || v["v"] != want {
						good = false
					}
				}
				if !good {
					ms = append(ms, mism{"Execute", 0, rep, "bom-file-altered", fmt.Sprintf("ef bb bf … % x", data), fmt.Sprintf("display 甲, %q, 乙", want),
						fmt.Sprintf("obs=%s display=%v msg=%s", ob.Obs, ob.Display, ob.Msg)})
				}
			}
		}
	}
	return map[string]interface{}{"obs": "done", "runs": runs, "mism": ms}
}

func init() { pool.Register("file", handleFile) }
