package main

// C17 binding, part 2:
//   "fileshort": a ZnFileShort vector (file + the number of bytes each read delivers) is replayed through a FIFO whose
//                writer hands out exactly those portions: FileStream.ReadAll / Read(4096) see short reads
//   "fileconc":  several loads in flight at the same time (ZnFileTwo): every goroutine decodes ITS file, repeatedly, while the
//                others decode theirs; each result must be the result of that file alone
// and the TILING of valid vectors into files of several 4096-byte blocks (used by "file" mode, see tileCases).

import (
	"bytes"
	"encoding/json"
	"fmt"
	"os"
	"path/filepath"
	"sync"
	"syscall"
	"time"
	"unsafe"

	zio "github.com/DemoHn/Zn/pkg/io"

	"verifharness/internal/pool"
	"verifharness/internal/zn"
)

type shortCase struct {
	F     []string   `json:"f"`
	Sched []int      `json:"sched"`
	OK    bool       `json:"ok"`
	Chars [][]string `json:"chars"`
	BOM   bool       `json:"bom"`
	Reps  []int      `json:"reps"`
	Scale int        `json:"scale"` // every portion is preceded by (scale) ASCII letters... 0 = as is
}

func fifoPending(f *os.File) int {
	var n int32
	syscall.Syscall(syscall.SYS_IOCTL, f.Fd(), uintptr(0x541B), uintptr(unsafe.Pointer(&n))) // FIONREAD
	return int(n)
}

// feed writes the portions one at a time; the next portion is written only after the reader has taken the previous one
func feed(path string, portions [][]byte, done chan struct{}) {
	defer close(done)
	w, err := os.OpenFile(path, os.O_WRONLY, 0)
	if err != nil {
		return
	}
	defer w.Close()
	for _, p := range portions {
		if _, err := w.Write(p); err != nil {
			return
		}
		// (bounded: a reader that has stopped reading - or a very busy machine - only makes two portions arrive together, which is
		// another legal schedule with the same expected result)
		for t0 := time.Now(); fifoPending(w) > 0 && time.Since(t0) < 1500*time.Millisecond; {
			time.Sleep(20 * time.Microsecond)
		}
		// the reader has the bytes; give it the time to come back and block in its next read
		time.Sleep(150 * time.Microsecond)
	}
}

func handleFileShort(raw json.RawMessage) interface{} {
	var c shortCase
	if err := json.Unmarshal(raw, &c); err != nil {
		return map[string]interface{}{"obs": "harness-error", "detail": err.Error()}
	}
	dir := os.Getenv("VERIF_SCRATCH")
	if dir == "" {
		dir = os.TempDir()
	}
	var ms []mism
	runs := 0
	for _, rep := range c.Reps {
		data := concrete(c.F, rep)
		want := expectRunes(c.Chars, rep, c.BOM)
		for _, api := range []string{"ReadAll", "Read4096"} {
			path := filepath.Join(dir, fmt.Sprintf("c17-fifo-%d", os.Getpid()))
			os.Remove(path)
			if err := syscall.Mkfifo(path, 0600); err != nil {
				return map[string]interface{}{"obs": "harness-error", "detail": err.Error()}
			}
			var portions [][]byte
			off := 0
			for _, n := range c.Sched {
				portions = append(portions, data[off:off+n])
				off += n
			}
			done := make(chan struct{})
			go feed(path, portions, done)
			fs, err := zio.NewFileStream(path)
			if err != nil {
				<-done
				os.Remove(path)
				return map[string]interface{}{"obs": "harness-error", "detail": err.Error()}
			}
			var got []rune
			var gerr error
			if api == "ReadAll" {
				got, gerr = fs.ReadAll()
			} else {
				for i := 0; i < len(c.Sched)+3; i++ {
					rs, e := fs.Read(4096)
					if e != nil {
						gerr = e
						break
					}
					got = append(got, rs...)
				}
			}
			// unblock a writer whose reader gave up early
			if f, e := os.OpenFile(path, os.O_RDONLY|syscall.O_NONBLOCK, 0); e == nil {
				select {
				case <-done:
				case <-time.After(2 * time.Second):
				}
				f.Close()
			}
			<-done
			os.Remove(path)
			runs++
			hasFFFD := false
			for _, r := range want {
				if r == 0xFFFD {
					hasFFFD = true
				}
			}
			if k := kindOf(c.OK, gerr != nil, want, got, c.BOM, hasFFFD); k != "" {
				w := "error"
				if c.OK {
					w = fmt.Sprintf("%U", want)
				}
				ms = append(ms, mism{api + "@short-reads", 0, rep, k, fmt.Sprintf("% x delivered as %v", data, c.Sched), w, show(got, gerr)})
			}
		}
	}
	return map[string]interface{}{"obs": "done", "runs": runs, "mism": ms}
}

// tile repeats the bytes / runes of a valid vector until the file spans more than two read blocks
func tile(data []byte, runes []rune) ([]byte, []rune) {
	if len(data) == 0 {
		return nil, nil
	}
	n := 9000/len(data) + 1
	return bytes.Repeat(data, n), func() []rune {
		out := make([]rune, 0, n*len(runes))
		for i := 0; i < n; i++ {
			out = append(out, runes...)
		}
		return out
	}()
}

type fileConcCase struct {
	Files []struct {
		F     []string   `json:"f"`
		Chars [][]string `json:"chars"`
		OK    bool       `json:"ok"`
		BOM   bool       `json:"bom"`
	} `json:"files"`
	Rep   int `json:"rep"`
	Loops int `json:"loops"`
}

func handleFileConc(raw json.RawMessage) interface{} {
	var c fileConcCase
	if err := json.Unmarshal(raw, &c); err != nil {
		return map[string]interface{}{"obs": "harness-error", "detail": err.Error()}
	}
	dir := os.Getenv("VERIF_SCRATCH")
	if dir == "" {
		dir = os.TempDir()
	}
	type job struct {
		path string
		data []byte
		want []rune
		ok   bool
	}
	var jobs []job
	for i, f := range c.Files {
		data := concrete(f.F, c.Rep+i)
		want := expectRunes(f.Chars, c.Rep+i, false)
		if f.OK {
			data, want = tile(data, want)
			if f.BOM && len(want) > 0 {
				want = want[1:]
			}
		} else {
			// an invalid file: valid padding of more than a block in front of it
			pad := bytes.Repeat([]byte{byte('a' + i)}, 5000)
			data = append(pad, data...)
		}
		p := filepath.Join(dir, fmt.Sprintf("c17-conc-%d-%d.zn", os.Getpid(), i))
		os.WriteFile(p, data, 0644)
		jobs = append(jobs, job{p, data, want, f.OK})
	}
	var mu sync.Mutex
	var ms []mism
	runs := 0
	var wg sync.WaitGroup
	for i := range jobs {
		wg.Add(1)
		go func(i int) {
			defer wg.Done()
			j := jobs[i]
			for l := 0; l < c.Loops; l++ {
				var got []rune
				var gerr error
				api := "ReadAll"
				if l%3 == 2 {
					api = "ByteStream"
					got, gerr = zio.NewByteStream(j.data).ReadAll()
					if j.ok && len(got) > 0 && len(j.want) == len(got)-1 && got[0] == 0xFEFF {
						got = got[1:] // ByteStream keeps a byte-order mark
					}
				} else {
					fs, err := zio.NewFileStream(j.path)
					if err != nil {
						continue
					}
					got, gerr = fs.ReadAll()
				}
				k := kindOf(j.ok, gerr != nil, j.want, got, false, false)
				mu.Lock()
				runs++
				if k != "" && len(ms) < 5 {
					w := "error"
					if j.ok {
						w = fmt.Sprintf("%d characters", len(j.want))
					}
					g := fmt.Sprintf("%d characters", len(got))
					if gerr != nil {
						g = "error: " + gerr.Error()
					} else if j.ok {
						for q := range got {
							if q >= len(j.want) || got[q] != j.want[q] {
								g += fmt.Sprintf(", first difference at character %d", q)
								break
							}
						}
					}
					ms = append(ms, mism{api + "@concurrent", len(jobs), c.Rep, k, fmt.Sprintf("file %d of %d decoded at the same time (% x ...)", i+1, len(jobs), j.data[:min(12, len(j.data))]), w, g})
				}
				mu.Unlock()
			}
		}(i)
	}
	wg.Wait()
	for _, j := range jobs {
		os.Remove(j.path)
	}
	return map[string]interface{}{"obs": "done", "runs": runs, "mism": ms}
}

func init() {
	pool.Register("fileshort", handleFileShort)
	pool.Register("fileconc", handleFileConc)
}

// "filebig": "whatever its size" - a valid vector tiled to a file of a given size (beyond 64 KiB, 1 MiB, 4 MiB, 16 MiB ...), a marker
// character at the very end; ReadAll must deliver every character, and a program of that size must run to its last statement
type bigCase struct {
	F     []string   `json:"f"`
	Chars [][]string `json:"chars"`
	Size  int        `json:"size"`
	Rep   int        `json:"rep"`
	BOM   bool       `json:"bom"` // put a byte-order mark in front
}

func handleFileBig(raw json.RawMessage) interface{} {
	var c bigCase
	if err := json.Unmarshal(raw, &c); err != nil {
		return map[string]interface{}{"obs": "harness-error", "detail": err.Error()}
	}
	dir := os.Getenv("VERIF_SCRATCH")
	if dir == "" {
		dir = os.TempDir()
	}
	path := filepath.Join(dir, fmt.Sprintf("c17-big-%d.zn", os.Getpid()))
	defer os.Remove(path)
	unit := concrete(c.F, c.Rep)
	urunes := expectRunes(c.Chars, c.Rep, false)
	n := c.Size/len(unit) + 1
	var ms []mism
	runs := 0
	// (a) the raw file
	{
		data := bytes.Repeat(unit, n)
		data = append(data, []byte("尾")...)
		if c.BOM {
			data = append([]byte{0xEF, 0xBB, 0xBF}, data...)
		}
		os.WriteFile(path, data, 0644)
		fs, err := zio.NewFileStream(path)
		if err != nil {
			return map[string]interface{}{"obs": "harness-error", "detail": err.Error()}
		}
		got, gerr := fs.ReadAll()
		runs++
		wantLen := n*len(urunes) + 1
		bad := ""
		if gerr != nil {
			bad = "error: " + gerr.Error()
		} else if len(got) != wantLen {
			bad = fmt.Sprintf("%d characters", len(got))
		} else if got[len(got)-1] != '尾' {
			bad = fmt.Sprintf("last character %U", got[len(got)-1])
		} else {
			for i := 0; i < len(got)-1; i++ {
				if got[i] != urunes[i%len(urunes)] {
					bad = fmt.Sprintf("character %d is %U", i, got[i])
					break
				}
			}
		}
		if bad != "" {
			k := "altered"
			if gerr != nil {
				k = "valid-rejected"
			}
			ms = append(ms, mism{"ReadAll@big", len(data), c.Rep, k, fmt.Sprintf("% x repeated to %d bytes + 尾, byte-order mark in front: %v", unit, len(data), c.BOM), fmt.Sprintf("%d characters ending in 尾", wantLen), bad})
		}
	}
	// (b) a program of that size: the padding sits in a comment between two statements
	{
		var b bytes.Buffer
		if c.BOM {
			b.Write([]byte{0xEF, 0xBB, 0xBF})
		}
		b.WriteString("令计 = 1\n// ")
		b.Write(bytes.Repeat(unit, n))
		b.WriteString("\n计 = 2\n输出计\n")
		// the unit may contain characters that end a line comment (none of the representatives is CR / LF)
		os.WriteFile(path, b.Bytes(), 0644)
		o := runBigFile(path)
		runs++
		if o != "2" {
			ms = append(ms, mism{"Execute@big", b.Len(), c.Rep, "valid-altered", fmt.Sprintf("program of %d bytes (padding % x in a comment)", b.Len(), unit), "2", o})
		}
	}
	return map[string]interface{}{"obs": "done", "runs": runs, "mism": ms}
}

func init() { pool.Register("filebig", handleFileBig) }

func runBigFile(path string) string {
	o := zn.RunFile(path, nil)
	if o.Obs != "value" {
		return o.Obs + ": " + lastLine(o.Msg)
	}
	if s, ok := o.Val["s"].(string); ok {
		return s
	}
	return fmt.Sprint(o.Val)
}
