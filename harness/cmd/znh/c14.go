package main

// C14 binding.
//   "text": ZnText vectors -> 长度 / 字符组 / 取样 / 分隔 on a concrete text (input variable, no literal escaping)
//   "fmt":  ZnFmt vectors  -> template % list with several argument shapes; numeric digits by strconv for the
//           verb / precision / sign the SPEC selected

import (
	"encoding/json"
	"fmt"
	"strconv"
	"strings"
	"sync"

	r "github.com/DemoHn/Zn/pkg/runtime"
	"github.com/DemoHn/Zn/pkg/value"

	"verifharness/internal/pool"
	"verifharness/internal/zn"
)

var textCls = map[string][]string{
	"a": {"a", "Z", "7", " "},
	"e": {"é", "ß", "Ω"},
	"z": {"你", "好", "、"},
	"m": {"😀", "𝄞", "🀅"},
	"c": {"́", "̈"},
}

type textCase struct {
	T   []string `json:"t"`
	I   int      `json:"i"`
	J   int      `json:"j"`
	Rep int      `json:"rep"`
}

const textProg = "输入甲、始、终\n输出【甲之长度，甲之字符组，以甲（分隔：“”），甲之字数】\n"
const sliceProg = "输入甲、始、终\n输出以甲（取样：始、终）\n拦截异常：\n    输出空\n"
const splitProg = "输入甲、隔\n令段 = 以甲（分隔：隔）\n输出【段，以段（拼接：隔）】\n"

func handleText(raw json.RawMessage) interface{} {
	var c textCase
	if err := json.Unmarshal(raw, &c); err != nil {
		return map[string]interface{}{"obs": "harness-error", "detail": err.Error()}
	}
	chars := make([]string, len(c.T))
	for k, cl := range c.T {
		alts := textCls[cl]
		chars[k] = alts[(c.Rep+k)%len(alts)]
	}
	txt := strings.Join(chars, "")
	in := r.ElementMap{"甲": value.NewString(txt), "始": value.NewNumber(float64(c.I)), "终": value.NewNumber(float64(c.J))}
	o1 := zn.RunScript(textProg, in)
	o2 := zn.RunScript(sliceProg, in)
	res := map[string]interface{}{"obs": "done", "chars": chars, "info": o1.Val, "info_obs": o1.Obs, "slice": o2.Val, "slice_obs": o2.Obs, "slice_msg": lastLine(o2.Msg)}
	// split / join with each class's first representative as separator
	splits := map[string]interface{}{}
	for cl, alts := range textCls {
		sep := alts[c.Rep%len(alts)]
		o3 := zn.RunScript(splitProg, r.ElementMap{"甲": value.NewString(txt), "隔": value.NewString(sep)})
		splits[cl] = map[string]interface{}{"sep": sep, "obs": o3.Obs, "val": o3.Val}
	}
	res["splits"] = splits
	return res
}

type fmtPlan struct {
	OK   bool   `json:"ok"`
	Soft bool   `json:"soft"`
	Plus bool   `json:"plus"`
	Prec int    `json:"prec"`
	Verb string `json:"verb"`
}

type fmtSeg struct {
	T    string   `json:"t"`
	S    []string `json:"s"`
	D    []string `json:"d"`
	Plan fmtPlan  `json:"plan"`
}

type fmtCase struct {
	Tpl  []string `json:"tpl"`
	Err  string   `json:"err"`
	Segs []fmtSeg `json:"segs"`
	NPh  int      `json:"nph"`
	Soft bool     `json:"soft"`
	Rep  int      `json:"rep"`
}

var fmtNums = []float64{1.5, -2.25, 0, 1234.5678, 0.000012345, 123456789, -0.5, 1e21, 2.675, 100,
	// products with 100 that sit next to a rounding tie, that are not exact, tiny and huge magnitudes
	0.575, 0.07, 1.005, 1.5e-14, 1e300, 0.285, -0.145, 5e-324, 0.0035, 1e-7}
var fmtLit = map[string]string{"x": "文", "#": "#", "+": "+", ".": ".", "2": "2", "0": "0", "E": "E", "%": "%", "{": "{", "}": "}", "_": " "}

// representatives of the blank symbol "_" (one per case, chosen by the case's rep number)
var fmtBlanks = []string{" ", "\t", "\n", "\u3000", "\u00a0", "\r", "  ", "\r\n", "\u2003", " \t"}

func renderNum(p fmtPlan, v float64) string {
	sign := ""
	if p.Plus && (v >= 0 || v == 0) && !strings.HasPrefix(strconv.FormatFloat(v, 'g', -1, 64), "-") {
		sign = "+"
	}
	switch p.Verb {
	case "g":
		return sign + strconv.FormatFloat(v, 'g', 6, 64)
	case "f":
		return sign + strconv.FormatFloat(v, 'f', p.Prec, 64)
	case "E":
		prec := p.Prec
		if prec < 0 {
			prec = 6
		}
		return sign + strconv.FormatFloat(v, 'E', prec, 64)
	case "pct":
		w := v * 100
		s2 := ""
		if p.Plus && !strings.HasPrefix(strconv.FormatFloat(w, 'g', -1, 64), "-") {
			s2 = "+"
		}
		if p.Prec < 0 {
			return s2 + strconv.FormatFloat(w, 'g', 6, 64) + "%"
		}
		return s2 + strconv.FormatFloat(w, 'f', p.Prec, 64) + "%"
	}
	return "?"
}

var fmtLitMu sync.Mutex

const fmtProg = "输入甲、乙\n输出甲 % 乙\n"

func handleFmt(raw json.RawMessage) interface{} {
	var c fmtCase
	if err := json.Unmarshal(raw, &c); err != nil {
		return map[string]interface{}{"obs": "harness-error", "detail": err.Error()}
	}
	var sb strings.Builder
	fmtLitMu.Lock()
	defer fmtLitMu.Unlock()
	fmtLit["_"] = fmtBlanks[c.Rep%len(fmtBlanks)]
	for _, s := range c.Tpl {
		sb.WriteString(fmtLit[s])
	}
	tpl := sb.String()
	type shape struct {
		name string
		args []r.Element
		want string // "" = error expected
		err  bool
	}
	var shapes []shape
	litOf := func(ss []string) string {
		var b strings.Builder
		for _, s := range ss {
			b.WriteString(fmtLit[s])
		}
		return b.String()
	}
	// shape 1: numbers (a template with at most one placeholder gets every number of the pool)
	reps := []int{c.Rep}
	if c.NPh <= 1 && c.Err == "" && c.NPh > 0 {
		reps = reps[:0]
		for q := range fmtNums {
			reps = append(reps, q)
		}
	}
	for _, rep := range reps {
		args := []r.Element{}
		var want strings.Builder
		k := 0
		for _, sg := range c.Segs {
			if sg.T == "lit" {
				want.WriteString(litOf(sg.S))
			} else {
				v := fmtNums[(rep+k)%len(fmtNums)]
				args = append(args, value.NewNumber(v))
				if sg.Plan.Verb == "disp" {
					want.WriteString(value.NewNumber(v).String())
				} else if sg.Plan.Prec > 300 {
					// absurd precision: an error, or a text starting with the correct digits (marker)
					want.WriteString("\x00HUGE:" + strconv.FormatFloat(v, 'f', 12, 64)[:8])
				} else {
					want.WriteString(renderNum(sg.Plan, v))
				}
				k++
			}
		}
		name := "numbers"
		if len(reps) > 1 {
			name = fmt.Sprintf("number-%d", rep)
		}
		shapes = append(shapes, shape{name, args, want.String(), c.Err != ""})
	}
	// shape 2: texts / other plain values: numeric directives must be rejected
	{
		args := []r.Element{}
		var want strings.Builder
		numeric := false
		k := 0
		// (also texts that LOOK like numbers: a numeric directive takes numbers, not their spellings)
		plain := []r.Element{value.NewString("丙"), value.NewBool(true), value.NewNull(), value.NewArray([]r.Element{value.NewNumber(1), value.NewString("s")}),
			value.NewString("12"), value.NewString("-7.5"), value.NewString("1.5*10^8"), value.NewString("0"), value.NewString("+3E+2"), value.NewArray([]r.Element{value.NewNumber(2)})}
		for _, sg := range c.Segs {
			if sg.T == "lit" {
				want.WriteString(litOf(sg.S))
			} else {
				a := plain[(c.Rep+k)%len(plain)]
				args = append(args, a)
				if sg.Plan.Verb != "disp" {
					numeric = true
				}
				want.WriteString(a.String())
				k++
			}
		}
		shapes = append(shapes, shape{"plain", args, want.String(), c.Err != "" || numeric})
	}
	// a template the spec rejects is rejected WHATEVER the argument list is: number lists of every length up to the number of
	// opening braces (so that a miscount of arguments is never the only reason for the error that is observed)
	if c.Err != "" {
		nb := 0
		for _, s := range c.Tpl {
			if s == "{" {
				nb++
			}
		}
		for n := 0; n <= nb; n++ {
			a := []r.Element{}
			for i := 0; i < n; i++ {
				a = append(a, value.NewNumber(fmtNums[(c.Rep+i)%len(fmtNums)]))
			}
			shapes = append(shapes, shape{fmt.Sprintf("numbers-x%d", n), a, "", true})
		}
	}
	// shape 3/4: one argument short / one long
	if c.Err == "" {
		n := c.NPh
		mk := func(m int) []r.Element {
			a := []r.Element{}
			for i := 0; i < m; i++ {
				a = append(a, value.NewNumber(1))
			}
			return a
		}
		if n > 0 {
			shapes = append(shapes, shape{"short", mk(n - 1), "", true})
		}
		shapes = append(shapes, shape{"long", mk(n + 1), "", true})
	}
	var out []map[string]interface{}
	for _, sh := range shapes {
		o := zn.RunScript(fmtProg, r.ElementMap{"甲": value.NewString(tpl), "乙": value.NewArray(sh.args)})
		rec := map[string]interface{}{"shape": sh.name, "obs": o.Obs, "want_err": sh.err, "want": sh.want, "msg": lastLine(o.Msg)}
		if o.Obs == "value" {
			rec["got"] = fmt.Sprint(o.Val["v"])
			rec["type"] = o.Val["t"]
		}
		out = append(out, rec)
	}
	return map[string]interface{}{"obs": "done", "tpl": tpl, "runs": out}
}

func init() {
	pool.Register("text", handleText)
	pool.Register("fmt", handleFmt)
}

// ---------------------------------------------------------------------------------------------
// "texthist": ONE text variable, observed before and after text methods are called on it.  Every
// observation row is logged; the driver has TLC validate the rows against Trace_ZnText.

type textHistCase struct {
	Text  string   `json:"text"`
	Calls []string `json:"calls"` // method call texts, e.g. "转换数值" or "替换：“1”、“2”"
}

func handleTextHist(raw json.RawMessage) interface{} {
	var c textHistCase
	if err := json.Unmarshal(raw, &c); err != nil {
		return map[string]interface{}{"obs": "harness-error", "detail": err.Error()}
	}
	var sb strings.Builder
	sb.WriteString("输入甲\n")
	sb.WriteString("如何样？\n    输出以甲（取样：1、甲之长度）\n    拦截异常：\n        输出空\n\n")
	for k, call := range c.Calls {
		fmt.Fprintf(&sb, "如何试%d？\n    输出以甲（%s）\n    拦截异常：\n        输出空\n\n", k+1, call)
	}
	row := "（显示：甲之长度、甲之字数、甲之字符组、{以甲（分隔：“”）}、（样）、甲）\n"
	sb.WriteString(row)
	for k := range c.Calls {
		fmt.Fprintf(&sb, "（试%d）\n", k+1)
		sb.WriteString(row)
	}
	sb.WriteString("输出1\n")
	o := zn.RunScript(sb.String(), r.ElementMap{"甲": value.NewString(c.Text)})
	return map[string]interface{}{"obs": o.Obs, "display": o.Display, "msg": lastLine(o.Msg), "src": sb.String()}
}

func init() { pool.Register("texthist", handleTextHist) }
