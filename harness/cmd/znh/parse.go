package main

// "parse" mode (C03 / C05): build the source text from layout pieces (or take raw text), run the real parser,
// dump the syntax tree with a nil-safe dumper into the node shape of spec/ZnGrammar.tla, and - on a syntax
// error - record code, cursor and the rendered report.

import (
	"encoding/json"
	"fmt"
	"reflect"
	"strconv"
	"strings"

	zerr "github.com/DemoHn/Zn/pkg/error"
	"github.com/DemoHn/Zn/pkg/exec"
	"github.com/DemoHn/Zn/pkg/syntax"
	"github.com/DemoHn/Zn/pkg/syntax/zh"

	"verifharness/internal/pool"
	"verifharness/internal/render"
)

type stree struct {
	N string   `json:"n"`
	A string   `json:"a"`
	C []*stree `json:"c"`
}

func nd(n, a string, c ...*stree) *stree {
	if c == nil {
		c = []*stree{}
	}
	return &stree{n, a, c}
}

var nilNode = &stree{"NIL", "", []*stree{}}

func isNil(x interface{}) bool {
	if x == nil {
		return true
	}
	v := reflect.ValueOf(x)
	return (v.Kind() == reflect.Ptr || v.Kind() == reflect.Interface || v.Kind() == reflect.Slice) && v.IsNil()
}

// unName: glyph -> spec symbol (inverse of render.Sym) so that identifiers compare with the spec's
var unSym = map[string]string{}

func symOf(lit string) string {
	if len(unSym) == 0 {
		for k, v := range render.Sym {
			unSym[v] = k
		}
	}
	if s, ok := unSym[lit]; ok {
		return s
	}
	return lit
}

func dID(id *syntax.ID) *stree {
	if id == nil {
		return nilNode
	}
	return nd("ID", symOf(id.GetLiteral()))
}

var arithName = map[uint8]string{syntax.ArithAdd: "add", syntax.ArithSub: "sub", syntax.ArithMul: "mul", syntax.ArithDiv: "div", syntax.ArithIntDiv: "idiv", syntax.ArithModulo: "mod"}
var logicName = map[uint8]string{syntax.LogicOR: "or", syntax.LogicAND: "and", syntax.LogicEQ: "eq", syntax.LogicNEQ: "neq", syntax.LogicGT: "gt", syntax.LogicGTE: "ge",
	syntax.LogicLT: "lt", syntax.LogicLTE: "le", syntax.LogicXEQ: "xeq", syntax.LogicXNEQ: "xneq"}

func dExprs(es []syntax.Expression) []*stree {
	out := []*stree{}
	for _, e := range es {
		out = append(out, dExpr(e))
	}
	return out
}

func dCall(c *syntax.FuncCallExpr) *stree {
	if c == nil {
		return nilNode
	}
	n := nd("Call", "", dID(c.FuncName), nd("Args", "", dExprs(c.Params)...))
	if c.YieldResult != nil {
		n.C = append(n.C, dID(c.YieldResult))
	}
	return n
}

func dExpr(e syntax.Expression) *stree {
	if isNil(e) {
		return nilNode
	}
	switch v := e.(type) {
	case *syntax.ID:
		return dID(v)
	case *syntax.String:
		return nd("Str", v.GetLiteral())
	case *syntax.ArrayExpr:
		return nd("List", "", dExprs(v.Items)...)
	case *syntax.HashMapExpr:
		n := nd("Dict", "")
		for _, kv := range v.KVPair {
			n.C = append(n.C, dExpr(kv.Key), dExpr(kv.Value))
		}
		return n
	case *syntax.ArithExpr:
		return nd("Arith", arithName[v.Type], dExpr(v.LeftExpr), dExpr(v.RightExpr))
	case *syntax.LogicExpr:
		return nd("Logic", logicName[v.Type], dExpr(v.LeftExpr), dExpr(v.RightExpr))
	case *syntax.VarAssignExpr:
		var t *stree = nilNode
		if !isNil(v.TargetVar) {
			t = dExpr(v.TargetVar)
		}
		return nd("Assign", "", t, dExpr(v.AssignExpr))
	case *syntax.MemberExpr:
		if v.RootType == syntax.RootTypeProp {
			return nd("Member", "prop", dID(v.MemberID))
		}
		if v.MemberType == syntax.MemberID {
			return nd("Member", "id", dExpr(v.Root), dID(v.MemberID))
		}
		return nd("Member", "index", dExpr(v.Root), dExpr(v.MemberIndex))
	case *syntax.FuncCallExpr:
		return dCall(v)
	case *syntax.MemberMethodExpr:
		ch := nd("Chain", "")
		for _, c := range v.MethodChain {
			ch.C = append(ch.C, dCall(c))
		}
		n := nd("MCall", "", dExpr(v.Root), ch)
		if v.YieldResult != nil {
			n.C = append(n.C, dID(v.YieldResult))
		}
		return n
	case *syntax.ObjNewExpr:
		return nd("New", "", append([]*stree{dID(v.ClassName)}, dExprs(v.Params)...)...)
	}
	return nd("UnknownExpr", fmt.Sprintf("%T", e))
}

func dBlock(b *syntax.StmtBlock) *stree {
	if b == nil {
		return nilNode
	}
	n := nd("Block", "")
	for _, s := range b.Children {
		n.C = append(n.C, dStmt(s))
	}
	return n
}

func dExec(x *syntax.ExecBlock) *stree {
	if x == nil {
		return nilNode
	}
	in := nd("Inputs", "")
	for _, id := range x.InputBlock {
		in.C = append(in.C, dID(id))
	}
	cs := nd("Catches", "")
	for _, c := range x.CatchBlock {
		if c == nil {
			cs.C = append(cs.C, nilNode)
			continue
		}
		cs.C = append(cs.C, nd("Catch", "", dID(c.ExceptionClass), dBlock(c.StmtBlock)))
	}
	return nd("Exec", "", in, dBlock(x.StmtBlock), cs)
}

func dFunc(f *syntax.FunctionDeclareStmt) *stree {
	if f == nil {
		return nilNode
	}
	kind := map[uint8]string{syntax.DeclareTypeFunc: "Func", syntax.DeclareTypeGetter: "Getter", syntax.DeclareTypeConstructor: "Ctor"}[f.DeclareType]
	return nd(kind, "", dID(f.Name), dExec(f.ExecBlock))
}

func dStmt(s syntax.Statement) *stree {
	if isNil(s) {
		return nilNode
	}
	switch v := s.(type) {
	case *syntax.VarDeclareStmt:
		n := nd("Decl", "")
		for _, p := range v.AssignPair {
			names := nd("Names", "")
			for _, id := range p.Variables {
				names.C = append(names.C, dID(id))
			}
			t := "assign"
			if p.Type == syntax.VDTypeAssignConst {
				t = "const"
			}
			n.C = append(n.C, nd("Pair", t, names, dExpr(p.AssignExpr)))
		}
		return n
	case *syntax.EmptyStmt:
		return nd("Empty", "")
	case *syntax.BranchStmt:
		el := nd("Elifs", "")
		for i, c := range v.OtherExprs {
			var b *syntax.StmtBlock
			if i < len(v.OtherBlocks) {
				b = v.OtherBlocks[i]
			}
			el.C = append(el.C, dExpr(c), dBlock(b))
		}
		n := nd("If", "", dExpr(v.IfTrueExpr), dBlock(v.IfTrueBlock), el)
		if v.HasElse {
			n.C = append(n.C, nd("Else", "", dBlock(v.IfFalseBlock)))
		}
		return n
	case *syntax.WhileLoopStmt:
		return nd("While", "", dExpr(v.TrueExpr), dBlock(v.LoopBlock))
	case *syntax.IterateStmt:
		names := nd("Names", "")
		for _, id := range v.IndexNames {
			names.C = append(names.C, dID(id))
		}
		return nd("Iter", "", names, dExpr(v.IterateExpr), dBlock(v.IterateBlock))
	case *syntax.FunctionDeclareStmt:
		return dFunc(v)
	case *syntax.ClassDeclareStmt:
		ps := nd("Props", "")
		for _, p := range v.PropertyList {
			if p == nil {
				ps.C = append(ps.C, nilNode)
				continue
			}
			ps.C = append(ps.C, nd("Prop", "", dID(p.PropertyID), dExpr(p.InitValue)))
		}
		ms := nd("Methods", "")
		for _, m := range v.MethodList {
			ms.C = append(ms.C, dFunc(m))
		}
		gs := nd("Getters", "")
		for _, g := range v.GetterList {
			gs.C = append(gs.C, dFunc(g))
		}
		return nd("Class", "", dID(v.ClassName), ps, ms, gs)
	case *syntax.FunctionReturnStmt:
		return nd("Return", "", dExpr(v.ReturnExpr))
	case *syntax.ThrowExceptionStmt:
		return nd("Throw", "", append([]*stree{dID(v.ExceptionClass)}, dExprs(v.Params)...)...)
	case *syntax.BreakStmt:
		return nd("Break", "")
	case *syntax.ContinueStmt:
		return nd("Continue", "")
	case syntax.Expression:
		return dExpr(v)
	}
	return nd("UnknownStmt", fmt.Sprintf("%T", s))
}

func dProgram(p *syntax.Program) *stree {
	if p == nil {
		return nilNode
	}
	n := nd("Program", "")
	for _, im := range p.ImportBlock {
		if im == nil {
			n.C = append(n.C, nilNode)
			continue
		}
		pre := "mod:"
		if im.ImportLibType == syntax.LibTypeStd {
			pre = "lib:"
		}
		name := ""
		if im.ImportName != nil {
			name = im.ImportName.GetLiteral()
		}
		in := nd("Import", pre+name)
		for _, id := range im.ImportItems {
			in.C = append(in.C, dID(id))
		}
		n.C = append(n.C, in)
	}
	if p.ExecBlock != nil {
		n.C = append(n.C, dExec(p.ExecBlock))
	}
	return n
}

// ------------------------------------------------------------------ pieces -> text
var kwGlyph = map[string]string{"LET": "令", "IF": "如果", "ELIF": "再如", "ELSE": "否则", "WHILE": "每当", "ITER": "遍历", "WITH": "以", "RET": "输出", "THROW": "抛出",
	"BREAK": "结束循环", "CONT": "继续循环", "HOW": "如何", "GETTER": "何为", "NEWKW": "新建", "DEF": "定义", "THIS": "其", "GET": "得到", "CATCH": "拦截", "INPUT": "输入",
	"IMPORT": "导入", "CONSTKW": "恒为", "AND": "且", "OR": "或"}
var punct = map[string]string{"lp": "（", "rp": "）", "col": "：", "comma": "，", "pause": "、", "lb": "【", "rb": "】", "lc": "{", "rc": "}", "q": "？", "bang": "！", "hash": "#",
	"dot": "之", "asg": " = ", "mapeq": " = ", "lp2": "(", "rp2": ")", "col2": ":", "comma2": ",", "lb2": "[", "rb2": "]", "q2": "?", "bang2": "!", "asg2": "设为", "dot2": "的",
	"sp": " ", "cmt": "/* 注释 */", "eolc1": " // 行尾注释", "eolc2": " 注：行尾注释"}
var opGlyph = map[string]string{"add": "+", "sub": "-", "mul": "*", "div": "/", "idiv": "|", "mod": "%", "eq": "==", "neq": "/=", "gt": ">", "lt": "<", "ge": ">=", "le": "<=",
	"xeq": "为", "xneq": "不为", "and": "且", "or": "或"}
var op2Glyph = map[string]string{"eq": "等于", "neq": "不等于", "gt": "大于", "lt": "小于", "ge": "不小于", "le": "不大于"}

func piecesToText(pieces []string, unit, eol string) string {
	u := "    "
	if unit == "tab" {
		u = "\t"
	}
	e := "\n"
	switch eol {
	case "crlf":
		e = "\r\n"
	case "cr":
		e = "\r"
	}
	var sb strings.Builder
	cur := 0
	first := true
	atLineStart := true
	write := func(t string) {
		if atLineStart {
			t = strings.TrimLeft(t, " ") // the blanks around operators must not change the indentation
		}
		if t != "" {
			atLineStart = false
		}
		sb.WriteString(t)
	}
	for _, p := range pieces {
		k, v := p, ""
		if i := strings.Index(p, ":"); i >= 0 {
			k, v = p[:i], p[i+1:]
		}
		switch k {
		case "nl":
			d, _ := strconv.Atoi(v)
			cur = d
			if !first {
				sb.WriteString(e)
			}
			sb.WriteString(strings.Repeat(u, d))
			atLineStart = true
		case "brk": // continuation line: one unit deeper than the statement
			sb.WriteString(e + strings.Repeat(u, cur+1))
			atLineStart = true
		case "brk0": // closing bracket on its own line, at the statement's indentation
			sb.WriteString(e + strings.Repeat(u, cur))
			atLineStart = true
		case "blankline":
			sb.WriteString(e)
		case "eolc3": // block comments that span lines, the closing mark at the START of a line (as in the manual's example)
			sb.WriteString(" 注：「跨行" + e + "注释" + e + "」")
		case "eolc4":
			sb.WriteString(" /* 跨行" + e + "*/")
		case "eolc5":
			sb.WriteString(" 注：“跨行" + e + e + "”")
		case "kw":
			write(kwGlyph[v])
		case "id":
			write(render.Name(v))
		case "num":
			write(v)
		case "str":
			write("“" + v + "”")
		case "libstr":
			write("《" + v + "》")
		case "op":
			write(" " + opGlyph[v] + " ")
		case "op2":
			write(" " + op2Glyph[v] + " ")
		case "opt": // no blank on either side
			write(opGlyph[v])
		case "op2t":
			write(op2Glyph[v])
		case "sp":
			if !atLineStart {
				write(" ")
			}
		default:
			write(punct[k])
		}
		first = false
	}
	sb.WriteString(e)
	return sb.String()
}

type parseCase struct {
	Out  []string `json:"out"`
	Unit string   `json:"unit"`
	EOL  string   `json:"eol"`
	Text *string  `json:"text"`
	Tree bool     `json:"tree"`
}

func handleParse(raw json.RawMessage) interface{} {
	var c parseCase
	if err := json.Unmarshal(raw, &c); err != nil {
		return map[string]interface{}{"obs": "harness-error", "detail": err.Error()}
	}
	text := ""
	if c.Text != nil {
		text = *c.Text
	} else {
		text = piecesToText(c.Out, c.Unit, c.EOL)
	}
	src := []rune(text)
	p := syntax.NewParser(src, zh.NewParserZH())
	prog, err := p.Parse()
	res := map[string]interface{}{"len": len(src)}
	if c.Tree || c.Text == nil {
		res["text"] = text
	}
	// the front end reads its input; it does not write to it
	if string(src) != text {
		res["mutated"] = string(src)
	}
	if err != nil {
		res["obs"] = "syntax-error"
		if se, ok := err.(*zerr.SyntaxError); ok {
			res["code"] = se.Code
			res["cursor"] = se.Cursor
		} else {
			res["obs"] = "non-syntax-error"
			res["detail"] = err.Error()
		}
		// rendering the error for the user must succeed and quote a line of the source
		rendered := exec.DisplayError(exec.WrapSyntaxError(p, "主模块", err))
		res["report"] = rendered
		return res
	}
	res["obs"] = "tree"
	res["tree"] = dProgram(prog)
	// an accepted text must also TOKENISE from its first to its last character (the lexer alone, same entry point
	// the parser uses): otherwise the tree cannot stand for the whole text
	l := syntax.NewLexer(src)
	for n := 0; n <= 4*len(src)+8; n++ {
		tk, lerr := zh.NextToken(l)
		if lerr != nil {
			if se, ok := lerr.(*zerr.SyntaxError); ok {
				res["lexerr"] = map[string]int{"code": se.Code, "cursor": se.Cursor}
			} else {
				res["lexerr"] = map[string]int{"code": -1, "cursor": -1}
			}
			break
		}
		if tk.Type == zh.TypeEOF {
			break
		}
	}
	return res
}

func init() { pool.Register("parse", handleParse) }
