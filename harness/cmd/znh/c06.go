package main

// C06 substrate binding.
//   "scope":     replay a ZnVM history (TLC) through runtime.Scope and runtime.VM, compare every reply.
//   "scopehist": drive the real runtime.VM with a seeded random history and LOG every operation with its
//                reply and scalar state; the log is validated by TLC against spec/Trace_ZnVM.tla.

import (
	"encoding/json"
	"fmt"
	"math/rand"

	zerr "github.com/DemoHn/Zn/pkg/error"
	r "github.com/DemoHn/Zn/pkg/runtime"
	"github.com/DemoHn/Zn/pkg/value"

	"verifharness/internal/pool"
)

type scopeOp struct {
	O string `json:"o"`
	N string `json:"n"`
	C bool   `json:"c"`
	V int    `json:"v"`
	R struct {
		K string `json:"k"`
		V int    `json:"v"`
	} `json:"r"`
}

type scopeCase struct {
	H []scopeOp `json:"h"`
}

func errKind(err error) string {
	if err == nil {
		return "ok"
	}
	if re, ok := err.(*zerr.RuntimeError); ok {
		switch re.Code {
		case zerr.ErrNameRedeclared:
			return "redeclared"
		case zerr.ErrAssignToConstant:
			return "const"
		case zerr.ErrNameNotDefined:
			return "undefined"
		}
		return fmt.Sprintf("code%d", re.Code)
	}
	return "error"
}

func newVM() *r.VM {
	vm := r.InitVM(map[string]r.Element{"g": value.NewString("GLOBAL")})
	m := vm.AllocateModule("主模块", nil)
	vm.PushCallFrame(r.NewScriptCallFrame(m))
	return vm
}

func numOf(e r.Element) (int, bool) {
	if n, ok := e.(*value.Number); ok {
		return int(n.GetValue()), true
	}
	return 0, false
}

func handleScope(raw json.RawMessage) interface{} {
	var c scopeCase
	if err := json.Unmarshal(raw, &c); err != nil {
		return map[string]interface{}{"obs": "harness-error", "detail": err.Error()}
	}
	hasG := false
	for _, op := range c.H {
		if op.N == "g" {
			hasG = true
		}
	}
	var ms []string
	// (b) through the VM
	vm := newVM()
	for i, op := range c.H {
		got := ""
		gv := 0
		switch op.O {
		case "begin":
			vm.BeginScope()
			got = "ok"
		case "end":
			vm.EndScope()
			got = "ok"
		case "decl":
			var err error
			if op.C {
				err = vm.DeclareConstElement(r.NewIDName(op.N), value.NewNumber(float64(op.V)))
			} else {
				err = vm.DeclareElement(r.NewIDName(op.N), value.NewNumber(float64(op.V)))
			}
			got = errKind(err)
		case "set":
			got = errKind(vm.SetElement(r.NewIDName(op.N), value.NewNumber(float64(op.V))))
			if op.R.K == "global" && got != "ok" {
				got = "global" // any error is fine for a predefined name
			}
		case "get":
			e, err := vm.FindElement(r.NewIDName(op.N))
			if err != nil {
				got = errKind(err)
			} else if s, ok := e.(*value.String); ok && s.GetValue() == "GLOBAL" {
				got = "global"
			} else if n, ok := numOf(e); ok {
				got = "val"
				gv = n
			} else {
				got = "other"
			}
		}
		if got != op.R.K || (got == "val" && gv != op.R.V) {
			ms = append(ms, fmt.Sprintf("VM step %d %s(%s): spec %s %d, real %s %d", i+1, op.O, op.N, op.R.K, op.R.V, got, gv))
			break
		}
	}
	// (a) through the raw Scope (no predefined names at this level)
	if !hasG {
		sp := r.NewScope()
		for i, op := range c.H {
			got := ""
			gv := 0
			switch op.O {
			case "begin":
				sp.BeginScope()
				got = "ok"
			case "end":
				sp.EndScope()
				got = "ok"
			case "decl":
				var err error
				if op.C {
					err = sp.DeclareConstValue(op.N, value.NewNumber(float64(op.V)))
				} else {
					err = sp.DeclareValue(op.N, value.NewNumber(float64(op.V)))
				}
				got = errKind(err)
			case "set":
				got = errKind(sp.SetValue(op.N, value.NewNumber(float64(op.V))))
			case "get":
				e := sp.GetValue(op.N)
				if e == nil {
					got = "undefined"
				} else if n, ok := numOf(e); ok {
					got = "val"
					gv = n
				}
			}
			if got != op.R.K || (got == "val" && gv != op.R.V) {
				ms = append(ms, fmt.Sprintf("Scope step %d %s(%s): spec %s %d, real %s %d", i+1, op.O, op.N, op.R.K, op.R.V, got, gv))
				break
			}
		}
	}
	return map[string]interface{}{"obs": "done", "mism": ms}
}

type histCase struct {
	Seed int64 `json:"seed"`
	Len  int   `json:"len"`
}

// handleScopeHist: record a random history from the real VM
func handleScopeHist(raw json.RawMessage) interface{} {
	var c histCase
	json.Unmarshal(raw, &c)
	rnd := rand.New(rand.NewSource(c.Seed))
	names := []string{"a", "b", "c", "d", "g"}
	vm := newVM()
	depth := 0
	var log []map[string]interface{}
	for i := 1; i <= c.Len; i++ {
		e := map[string]interface{}{"v": i, "n": "", "c": false}
		k := rnd.Intn(10)
		n := names[rnd.Intn(len(names))]
		switch {
		case k == 0 && depth < 6:
			vm.BeginScope()
			depth++
			e["o"], e["r"] = "begin", "ok"
		case k == 1 && depth > 0:
			vm.EndScope()
			depth--
			e["o"], e["r"] = "end", "ok"
		case k <= 4:
			cst := rnd.Intn(3) == 0
			var err error
			if cst {
				err = vm.DeclareConstElement(r.NewIDName(n), value.NewNumber(float64(i)))
			} else {
				err = vm.DeclareElement(r.NewIDName(n), value.NewNumber(float64(i)))
			}
			e["o"], e["n"], e["c"], e["r"] = "decl", n, cst, errKind(err)
		case k <= 6:
			got := errKind(vm.SetElement(r.NewIDName(n), value.NewNumber(float64(i))))
			if n == "g" && got != "ok" {
				got = "global"
			}
			e["o"], e["n"], e["r"] = "set", n, got
		default:
			el, err := vm.FindElement(r.NewIDName(n))
			e["o"], e["n"] = "get", n
			if err != nil {
				e["r"] = errKind(err)
			} else if s, ok := el.(*value.String); ok && s.GetValue() == "GLOBAL" {
				e["r"] = "global"
			} else if nn, ok := numOf(el); ok {
				e["r"], e["rv"] = "val", nn
			} else {
				e["r"] = "other"
			}
		}
		s := vm.VerifSnapshot()
		e["depth"] = s.CurDepth
		e["live"] = s.Live[s.CurMod]
		log = append(log, e)
	}
	return map[string]interface{}{"obs": "done", "log": log}
}

func init() {
	pool.Register("scope", handleScope)
	pool.Register("scopehist", handleScopeHist)
}
