// znh - replay/record tool binding the TLA+ specifications under /verif/spec to DemoHn/Zn.
//
//	znh <mode> [-j N] [-t seconds]   reads ndjson cases on stdin, writes ndjson results on stdout
//	znh worker <mode>                child side (internal)
package main

import (
	"flag"
	"fmt"
	"os"
	"runtime"
	"time"

	"verifharness/internal/pool"
)

func main() {
	if len(os.Args) < 2 {
		fmt.Fprintln(os.Stderr, "usage: znh <mode> | znh worker <mode>; modes:", pool.Modes())
		os.Exit(2)
	}
	for _, a := range os.Args[1:] {
		if a == "--child-worker" {
			runChildWorker() // prefork worker spawned by the real master (C20)
			return
		}
	}
	if os.Args[1] == "worker" {
		pool.RunWorker(os.Args[2])
		return
	}
	mode := os.Args[1]
	fs := flag.NewFlagSet("znh", flag.ExitOnError)
	j := fs.Int("j", runtime.NumCPU(), "workers")
	t := fs.Float64("t", 5, "per-case watchdog seconds")
	fs.Parse(os.Args[2:])
	if err := pool.RunParent(mode, os.Stdin, os.Stdout, *j, time.Duration(*t*float64(time.Second))); err != nil {
		fmt.Fprintln(os.Stderr, err)
		os.Exit(2)
	}
}
