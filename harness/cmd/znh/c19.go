package main

// C19 binding ("json" mode): run 生成JSON / 解析JSON / their composition on values and documents passed
// as input variables (so no literal escaping is involved); the Python driver uses Python's json module
// as the independent reader / writer.

import (
	"encoding/json"
	"math"
	"strconv"

	r "github.com/DemoHn/Zn/pkg/runtime"
	"github.com/DemoHn/Zn/pkg/value"

	"verifharness/internal/pool"
	"verifharness/internal/zn"
)

type jVal struct {
	T string   `json:"t"`
	V string   `json:"v"` // str
	S string   `json:"s"` // num spelling (Go syntax, NaN, +Inf, -Inf)
	B bool     `json:"b"`
	I []jVal   `json:"i"` // list items
	K []string `json:"k"` // dict keys
	D []jVal   `json:"d"` // dict values
}

// buildShared is buildVal with ONE object for structurally equal lists / dictionaries (the same list mentioned at several places of a
// value: 【“前” = 甲，“后” = 甲】): what is generated depends on the value, not on the identity of its parts
func buildShared(v jVal, memo map[string]r.Element) r.Element {
	if v.T != "list" && v.T != "dict" {
		return buildVal(v)
	}
	kb, _ := json.Marshal(v)
	if e, ok := memo[string(kb)]; ok {
		return e
	}
	var out r.Element
	if v.T == "list" {
		items := []r.Element{}
		for _, x := range v.I {
			items = append(items, buildShared(x, memo))
		}
		out = value.NewArray(items)
	} else {
		hm := value.NewEmptyHashMap()
		for i, k := range v.K {
			hm.AppendKVPair(value.KVPair{Key: k, Value: buildShared(v.D[i], memo)})
		}
		out = hm
	}
	memo[string(kb)] = out
	return out
}

func buildVal(v jVal) r.Element {
	switch v.T {
	case "str":
		return value.NewString(v.V)
	case "num":
		switch v.S {
		case "NaN":
			return value.NewNumber(math.NaN())
		case "+Inf":
			return value.NewNumber(math.Inf(1))
		case "-Inf":
			return value.NewNumber(math.Inf(-1))
		}
		f, _ := strconv.ParseFloat(v.S, 64)
		return value.NewNumber(f)
	case "bool":
		return value.NewBool(v.B)
	case "null":
		return value.NewNull()
	case "list":
		items := []r.Element{}
		for _, x := range v.I {
			items = append(items, buildVal(x))
		}
		return value.NewArray(items)
	case "dict":
		hm := value.NewEmptyHashMap()
		for i, k := range v.K {
			hm.AppendKVPair(value.KVPair{Key: k, Value: buildVal(v.D[i])})
		}
		return hm
	}
	return value.NewNull()
}

type jsonCase struct {
	Op   string `json:"op"`
	Val  jVal   `json:"val"`
	Bad  jVal   `json:"bad"` // "genafter": a value 生成JSON must refuse, generated (and caught) BEFORE val is generated
	Text string `json:"text"`
}

// a refused generation / a failed parse leaves nothing behind: the next 生成JSON / 解析JSON of the same execution is unaffected
const jsonGenAfter = "导入《@JSON》\n输入坏、甲、乱\n如何试生？\n    输出（生成JSON：坏）\n    拦截异常：\n        输出“ERR”\n\n如何试解？\n    输出（解析JSON：乱）\n    拦截异常：\n        输出“ERR”\n\n" +
	"令一 = （试生）\n令二 = （试解）\n令文 = （生成JSON：甲）\n令三 = （试生）\n输出【一，二，文，三，（生成JSON：甲），（解析JSON：文） 为 甲】\n"

const jsonGen = "导入《@JSON》\n输入甲\n输出（生成JSON：甲）\n"
const jsonParse = "导入《@JSON》\n输入甲\n输出（解析JSON：甲）\n"
const jsonParseGen = "导入《@JSON》\n输入甲\n输出（生成JSON：（解析JSON：甲））\n"
const jsonRound = "导入《@JSON》\n输入甲\n令文 = （生成JSON：甲）\n令乙 = （解析JSON：文）\n（显示：乙 为 甲）\n输出乙\n"
const jsonCatchParse = "导入《@JSON》\n输入甲\n令乙 = （解析JSON：甲）\n输出“no-error”\n拦截异常：\n    输出“caught”\n"
const jsonCatchGen = "导入《@JSON》\n输入甲\n令乙 = （生成JSON：甲）\n输出“no-error”\n拦截异常：\n    输出“caught”\n"

func handleJSON(raw json.RawMessage) interface{} {
	var c jsonCase
	if err := json.Unmarshal(raw, &c); err != nil {
		return map[string]interface{}{"obs": "harness-error", "detail": err.Error()}
	}
	var o zn.Outcome
	switch c.Op {
	case "gen":
		o = zn.RunScript(jsonGen, r.ElementMap{"甲": buildVal(c.Val)})
	case "genshared":
		o = zn.RunScript(jsonGen, r.ElementMap{"甲": buildShared(c.Val, map[string]r.Element{})})
	case "parse":
		o = zn.RunScript(jsonParse, r.ElementMap{"甲": value.NewString(c.Text)})
	case "parsegen":
		o = zn.RunScript(jsonParseGen, r.ElementMap{"甲": value.NewString(c.Text)})
	case "round":
		o = zn.RunScript(jsonRound, r.ElementMap{"甲": buildVal(c.Val)})
	case "catchparse":
		o = zn.RunScript(jsonCatchParse, r.ElementMap{"甲": value.NewString(c.Text)})
	case "genafter":
		o = zn.RunScript(jsonGenAfter, r.ElementMap{"坏": buildVal(c.Bad), "甲": buildVal(c.Val), "乱": value.NewString(c.Text)})
	case "catchgen":
		o = zn.RunScript(jsonCatchGen, r.ElementMap{"甲": buildVal(c.Val)})
	}
	return map[string]interface{}{"obs": o.Obs, "val": o.Val, "display": o.Display, "msg": lastLine(o.Msg), "code": o.Code}
}

func init() { pool.Register("json", handleJSON) }
