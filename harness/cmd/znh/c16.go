package main

// C16 binding.
//   "iso":     run a sequence of polluter programs and then the probe in THIS process (which the pool discards
//              afterwards: "_fresh"); same interpreter object or separate ones.
//   "isoconc": replay an interleaving of concurrent playground requests through ONE ZnPlaygroundHandler, the
//              order of the steps "bind source" / "read source" enforced by the H4 gates.

import (
	"bytes"
	"encoding/json"
	"fmt"
	"net/http"
	"net/http/httptest"
	"os"
	"path/filepath"
	"runtime"
	"strconv"
	"strings"
	"sync"
	"time"

	"github.com/DemoHn/Zn/pkg/exec"
	r "github.com/DemoHn/Zn/pkg/runtime"
	"github.com/DemoHn/Zn/pkg/server"

	"verifharness/internal/pool"
	"verifharness/internal/zn"
)

var polluters = map[string]string{
	"incNum":    "以数值（自增：5）\n输出数值\n",
	"redefExc":  "如何新建异常？\n    输入文\n    （显示：“user-ctor”）\n输出1\n",
	"redefLib":  "导入《@测试》\n如何新建HTTP请求？\n    输入甲、乙\n    其方法 = “HACK”\n输出1\n",
	// the library type reached through a variable that holds the type object
	"redefLibAlias": "导入《@测试》\n令T = HTTP请求\n如何改？\n    如何新建T？\n        输入甲、乙\n        其方法 = “HACK”\n    输出1\n（改）\n令物 = （新建HTTP请求：“GET”、“u”）\n输出物之方法\n",
	"mutLib":    "导入《@测试》\n令物 = （新建HTTP请求：“GET”、“u”）\n以{物之头部}（写入：“x”、“1”）\n物之头部#“y” = 2\n输出物之头部\n",
	"failDeep":  "如何F1？\n    输出（F2）\n如何F2？\n    输出（F3）\n如何F3？\n    输出1 / 0\n输出（F1）\n",
	"declare":   "令X = 1\n令Y恒为2\n如何试名？\n    输出“polluted”\n定义某类：\n    其p = 1\n输出X\n",
	"importLib": "导入《@JSON》\n导入《@文件》\n输出（生成JSON：【“a” = 1】）\n",
	"mutResp":   "导入《@测试》\n令应 = （新建HTTP响应：200、“ok”）\n以{应之头部}（写入：“Set-Cookie”、“sid=1”）\n应之头部#“X” = “y”\n令应二 = （新建HTTP响应：200、【1】）\n以{应二之头部}（写入：“Set-Cookie”、“sid=2”）\n输出应之头部\n",
	// executed as a FILE (LoadFile) next to the module file 工具/计算.zn
	"fileImport": "导入“工具-计算”\n输出（算：1）\n",
	// executed as a FILE in ANOTHER directory, next to a module file of the same name 工具/计算.zn with OTHER content
	"fileImportOther": "导入“工具-计算”\n输出（算：1）\n",
	// not a program: the INPUT-VARIABLE TEXT of a request (exec.ExecVarInputText, as the playground handler evaluates it)
	"varInputInc": "甲 = 以数值（自增：5）；乙 = 数值",
	// names declared inside the body of a redefined constructor of a predefined type (that body runs in a frame of the native-code module)
	"ctorDeclare": "如何新建异常？\n    输入文\n    如何内助？\n        输出“leak”\n    定义内类：\n        其p = 1\n    令丑 = （内助）\n令错 = （新建异常：“x”）\n输出1\n",
}

// the early failing execution: an uncaught fault three calls deep, one of the calls a method of an object
const isoEarlyFail = "定义早类：\n    其p = 1\n\n    如何深？\n        输出（早三：其p）\n\n如何早一？\n    令物 = （新建早类）\n    输出以物（深）\n\n如何早三？\n    输入甲\n    输出【1】#{甲 + 8}\n\n（显示：“early”）\n输出（早一）\n"

// second probe program: declares names of its own inside the body of ITS redefinition of 异常's constructor, and uses them
const isoProbe2 = "如何新建异常？\n    输入文\n    如何内助？\n        输出“mine”\n    定义内类：\n        其p = 2\n    令物 = （新建内类）\n    如果（内助） /= “mine”：\n        令丑 = 1 / 0\n    如果物之p /= 2：\n        令寅 = 1 / 0\n令错 = （新建异常：“x”）\n输出“own-names”\n"

// the probe's own input-variable text
const isoVarProbe = "丙 = 数值 + 1"

const isoModule = "如何算？\n    输入甲\n    输出甲 + 41\n"

// the probe is executed as a FILE too, next to the same module file
const isoProbe = "导入《@测试》\n导入“工具-计算”\n如何试异常？\n    抛出异常：“m”！\n    拦截异常：\n        输出其内容\n\n如何试名？\n    输出X\n    拦截异常：\n        输出“undefined”\n\n" +
	"如何试深？\n    输出1 / 0\n    拦截异常：\n        输出“caught”\n\n令物 = （新建HTTP请求：“GET”、“u”）\n令应 = （新建HTTP响应：200、“ok”）\n令应二 = （新建HTTP响应：200、【1】）\n输出【数值，（试异常），物之方法，物之头部，（试名），（试深），应之头部，应二之头部，（算：1）】\n"

type isoCase struct {
	Seq  []string `json:"seq"`
	Same bool     `json:"same"`
}

func handleIso(raw json.RawMessage) interface{} {
	var c isoCase
	if err := json.Unmarshal(raw, &c); err != nil {
		return map[string]interface{}{"obs": "harness-error", "detail": err.Error()}
	}
	zn.InstallDisplay()
	mk := func() *exec.Interpreter { return exec.NewInterpreter("verif").SetExternalLibs(libs()) }
	z := mk()
	var outs []string
	dir, derr := os.MkdirTemp(os.Getenv("VERIF_SCRATCH"), "iso-")
	if derr != nil {
		return map[string]interface{}{"obs": "harness-error", "detail": derr.Error()}
	}
	defer os.RemoveAll(dir)
	os.MkdirAll(filepath.Join(dir, "工具"), 0755)
	os.WriteFile(filepath.Join(dir, "工具", "计算.zn"), []byte(isoModule), 0644)
	runFile := func(z *exec.Interpreter, name, src string) (r.Element, error) {
		p := filepath.Join(dir, name)
		os.WriteFile(p, []byte(src), 0644)
		return z.LoadFile(p).Execute(r.ElementMap{})
	}
	// an execution that FAILS three calls deep, before anything else: its error value is kept and rendered only after the
	// polluters and the probe have run (twelfth observation)
	_, earlyErr := mk().LoadScript([]rune(isoEarlyFail)).Execute(r.ElementMap{})
	for k, p := range c.Seq {
		if !c.Same {
			z = mk()
		}
		var err error
		if p == "fileImportOther" {
			od := filepath.Join(dir, fmt.Sprintf("别处%d", k))
			os.MkdirAll(filepath.Join(od, "工具"), 0755)
			os.WriteFile(filepath.Join(od, "工具", "计算.zn"), []byte("如何算？\n    输入甲\n    输出甲 + 100\n"), 0644)
			op := filepath.Join(od, "污.zn")
			os.WriteFile(op, []byte(polluters[p]), 0644)
			_, err = z.LoadFile(op).Execute(r.ElementMap{})
		} else if p == "fileImport" {
			_, err = runFile(z, fmt.Sprintf("污%d.zn", k), polluters[p])
		} else if p == "varInputInc" {
			var in r.ElementMap
			in, err = exec.ExecVarInputText(polluters[p])
			if err == nil {
				_, err = z.LoadScript([]rune("输入甲、乙\n输出乙\n")).Execute(in)
			}
		} else {
			_, err = z.LoadScript([]rune(polluters[p])).Execute(r.ElementMap{})
		}
		if err != nil {
			outs = append(outs, "error")
		} else {
			outs = append(outs, "ok")
		}
	}
	if !c.Same {
		z = mk()
	}
	v, err := runFile(z, "探.zn", isoProbe)
	res := map[string]interface{}{"obs": "value", "_fresh": true, "polluters": outs}
	if err != nil {
		res["obs"] = "error"
		res["msg"] = lastLine(err.Error())
	} else {
		val := zn.Snapshot(v)
		// tenth observation: what the probe's input-variable text sees
		vin, verr := exec.ExecVarInputText(isoVarProbe)
		var tenth interface{} = map[string]interface{}{"t": "error", "msg": fmt.Sprint(verr)}
		if verr == nil {
			tenth = zn.Snapshot(vin["丙"])
		}
		// eleventh observation: the second probe program (a fresh interpreter unless the sequence shares one)
		if !c.Same {
			z = mk()
		}
		var eleventh interface{}
		if v2, err2 := z.LoadScript([]rune(isoProbe2)).Execute(r.ElementMap{}); err2 != nil {
			eleventh = map[string]interface{}{"t": "error", "msg": lastLine(err2.Error())}
		} else {
			eleventh = zn.Snapshot(v2)
		}
		var twelfth interface{} = map[string]interface{}{"t": "error", "msg": "the early program did not fail"}
		if earlyErr != nil {
			twelfth = map[string]interface{}{"t": "str", "v": earlyErr.Error()}
		}
		if items, ok := val["v"].([]interface{}); ok {
			val["v"] = append(items, tenth, eleventh, twelfth)
		}
		res["val"] = val
	}
	return res
}

// ------------------------------------------------------------------ concurrent replay
type schedStep struct {
	R int    `json:"r"`
	A string `json:"a"`
}

type concCase struct {
	S    []schedStep `json:"s"`
	N    int         `json:"n"`
	Free bool        `json:"free"` // no gates: free-running goroutines (race detector runs)
}

func goid() int {
	buf := make([]byte, 64)
	buf = buf[:runtime.Stack(buf, false)]
	// "goroutine 123 [running]:"
	f := strings.Fields(string(buf))
	n, _ := strconv.Atoi(f[1])
	return n
}

func handleIsoConc(raw json.RawMessage) interface{} {
	var c concCase
	if err := json.Unmarshal(raw, &c); err != nil {
		return map[string]interface{}{"obs": "harness-error", "detail": err.Error()}
	}
	var mu sync.Mutex
	cond := sync.NewCond(&mu)
	pos := 0
	reqOf := map[int]int{} // goroutine id -> request number
	aborted := false
	actionOf := map[string]string{"load-enter": "load", "execute-enter": "read"}
	doneOf := map[string]string{"loaded": "load", "source-read": "read"}
	exec.VerifGate = func(z *exec.Interpreter, point string) {
		if c.Free {
			return
		}
		mu.Lock()
		defer mu.Unlock()
		rq, ok := reqOf[goid()]
		if !ok {
			return
		}
		if a, ok := actionOf[point]; ok {
			// wait for this request's turn
			for !aborted && !(pos < len(c.S) && c.S[pos].R == rq && c.S[pos].A == a) {
				cond.Wait()
			}
		} else if a, ok := doneOf[point]; ok {
			if pos < len(c.S) && c.S[pos].R == rq && c.S[pos].A == a {
				pos++
				cond.Broadcast()
			}
		}
	}
	defer func() { exec.VerifGate = nil }()
	zn.InstallDisplay()
	h := server.NewZnPlaygroundHandler(exec.NewInterpreter("verif").SetExternalLibs(libs()))
	bodies := make([]string, c.N+1)
	codes := make([]int, c.N+1)
	var wg sync.WaitGroup
	for rq := 1; rq <= c.N; rq++ {
		wg.Add(1)
		go func(rq int) {
			defer wg.Done()
			mu.Lock()
			reqOf[goid()] = rq
			mu.Unlock()
			payload, _ := json.Marshal(map[string]string{"VarInput": "", "SourceCode": fmt.Sprintf("令甲 = %d\n输出“R” + “” == “” 且 真 或 假\n", rq)})
			_ = payload
			src := fmt.Sprintf("输出“我是请求%d”\n", rq)
			vin := ""
			if c.Free {
				// free-running requests (race detector runs) use everything that is predefined or registered once per process
				src = fmt.Sprintf("导入《@JSON》\n令随 = （取随机数）\n以数值（自增：1）\n令文 = （生成JSON：【“a” = 随】）\n如何试？\n    抛出异常：“x”！\n    拦截异常：\n        输出1\n（试）\n输出“我是请求%d”\n", rq)
				vin = "子 = 以数值（自增：1）；丑 = （取随机数）；寅 = 【1，2】"
			}
			payload, _ = json.Marshal(map[string]string{"VarInput": vin, "SourceCode": src})
			req := httptest.NewRequest(http.MethodPost, "/", bytes.NewReader(payload))
			rec := httptest.NewRecorder()
			h.ServeHTTP(rec, req)
			bodies[rq] = rec.Body.String()
			codes[rq] = rec.Code
		}(rq)
	}
	finished := make(chan struct{})
	go func() { wg.Wait(); close(finished) }()
	select {
	case <-finished:
	case <-time.After(5 * time.Second):
		mu.Lock()
		aborted = true
		cond.Broadcast()
		mu.Unlock()
		<-finished
		return map[string]interface{}{"obs": "stuck", "pos": pos, "bodies": bodies[1:], "_fresh": true}
	}
	return map[string]interface{}{"obs": "done", "bodies": bodies[1:], "codes": codes[1:], "pos": pos}
}

func init() {
	pool.Register("iso", handleIso)
	pool.Register("isoconc", handleIsoConc)
}
