package main

// C20 binding ("pm" mode): the REAL prefork master (pkg/server.ZnPMServer.StartMaster) runs inside this process,
// its workers are child processes of this binary (`znh --child-worker`, real StartWorker with a scripted handler).
//   mode "free":  gates open; randomized load (bursts of concurrent requests, hung requests, crashing workers);
//   mode "sched": the four H5 gates (cmd.Start, addChan / updateChan / delChan sends) are held and released in the
//                 order of a TLC schedule (counterexample of the deviation, or a simulated behaviour of the intended
//                 design); when the schedule cannot be followed any further the gates are opened.
// Observations: the H5 event log (validated by TLC against Trace_ZnPrefork), the maximum number of live workers
// (from the events and, independently, from /proc), the final number of live workers, the HTTP responses.

import (
	"encoding/json"
	"fmt"
	"io"
	"math/rand"
	"net"
	"net/http"
	"os"
	"path/filepath"
	"strconv"
	"strings"
	"sync"
	"syscall"
	"time"

	"github.com/DemoHn/Zn/pkg/server"

	"verifharness/internal/pool"
)

// ------------------------------------------------------------------ worker side
type scriptedHandler struct{}

func (scriptedHandler) ServeHTTP(w http.ResponseWriter, r *http.Request) {
	tok := r.URL.Query().Get("t")
	parts := strings.Split(strings.Trim(r.URL.Path, "/"), "/")
	switch parts[0] {
	case "sleep":
		ms, _ := strconv.Atoi(parts[1])
		time.Sleep(time.Duration(ms) * time.Millisecond)
	case "wait": // finish when the token file appears
		dir := os.Getenv("VERIF_PM_DIR")
		for i := 0; i < 200000; i++ {
			if _, err := os.Stat(filepath.Join(dir, parts[1])); err == nil {
				break
			}
			time.Sleep(3 * time.Millisecond)
		}
	case "hang":
		time.Sleep(time.Hour)
	case "exit":
		os.Exit(3)
	}
	w.Header().Add("Content-Type", "text/plain")
	w.WriteHeader(200)
	io.WriteString(w, fmt.Sprintf("ok %s %d", tok, os.Getpid()))
}

func runChildWorker() {
	zns := server.NewZnPMServer(server.ZnPMServerConfig{})
	zns.SetHandler(scriptedHandler{})
	if err := zns.StartWorker(); err != nil {
		fmt.Fprintln(os.Stderr, "worker:", err)
		os.Exit(4)
	}
}

// ------------------------------------------------------------------ master side
type pmAct struct {
	A string `json:"a"`
	P int    `json:"p"`
}

type pmCase struct {
	Init    int     `json:"init"`
	Max     int     `json:"max"`
	Timeout int     `json:"timeout"`
	Mode    string  `json:"mode"`
	Sched   []pmAct `json:"sched"`
	Seed    int64   `json:"seed"`
	Bursts  int     `json:"bursts"`
	Slow    int     `json:"slow"`  // free mode: every bookkeeping step of the master takes this many milliseconds (the scheduler may delay it at will)
	Storm   int     `json:"storm"` // free mode: this many times, ALL live workers are killed at the same moment
}

type pmEvent struct {
	E   string `json:"e"`
	Pid int    `json:"pid"`
	St  string `json:"st,omitempty"`
	RC  int    `json:"rc"`
	NC  int    `json:"nc"`
	N   int    `json:"n"`
}

type gateWaiter struct {
	point string
	pid   int
	state uint8
	ch    chan struct{}
}

type pmCtl struct {
	mu      sync.Mutex
	cond    *sync.Cond
	open    bool
	waiting []*gateWaiter
	events  []pmEvent
	live    map[int]bool
	maxLive int
	slow    time.Duration
}

func stName(s uint8) string {
	switch s {
	case server.WORKER_STATE_IDLE:
		return "IDLE"
	case server.WORKER_STATE_BUSY:
		return "BUSY"
	case server.WORKER_STATE_STOPPED:
		return "STOPPED"
	}
	return fmt.Sprint(s)
}

func (c *pmCtl) gate(point string, pid int, state uint8) {
	c.mu.Lock()
	if c.open {
		c.mu.Unlock()
		return
	}
	w := &gateWaiter{point, pid, state, make(chan struct{})}
	c.waiting = append(c.waiting, w)
	c.cond.Broadcast()
	c.mu.Unlock()
	<-w.ch
}

func (c *pmCtl) event(ev string, pid int, state uint8, rc, nc, n int) {
	if c.slow > 0 && (ev == "add" || ev == "update" || ev == "del") {
		time.Sleep(c.slow) // the master's goroutine is still inside this bookkeeping step
	}
	c.mu.Lock()
	defer c.mu.Unlock()
	switch ev {
	case "started":
		c.live[pid] = true
		if len(c.live) > c.maxLive {
			c.maxLive = len(c.live)
		}
	case "exited":
		delete(c.live, pid)
	case "reserve", "refill":
		// merged into the preceding update / del event of the same goroutine
		if k := len(c.events) - 1; k >= 0 {
			c.events[k].N = n
			c.events[k].RC = rc
		}
		c.cond.Broadcast()
		return
	}
	e := pmEvent{E: ev, Pid: pid, RC: rc, NC: nc}
	if ev == "update" {
		e.St = stName(state)
	}
	c.events = append(c.events, e)
	c.cond.Broadcast()
}

// release the first waiter at `point` (for pid when pid > 0); waits up to d for one to arrive
func (c *pmCtl) release(point string, pid int, d time.Duration) *gateWaiter {
	deadline := time.Now().Add(d)
	c.mu.Lock()
	defer c.mu.Unlock()
	for {
		for i, w := range c.waiting {
			if w.point == point && (pid <= 0 || w.pid == pid) {
				c.waiting = append(c.waiting[:i], c.waiting[i+1:]...)
				close(w.ch)
				return w
			}
		}
		if time.Now().After(deadline) {
			return nil
		}
		go func() { time.Sleep(5 * time.Millisecond); c.cond.Broadcast() }()
		c.cond.Wait()
	}
}

// peek: wait until a waiter at point exists (without releasing)
func (c *pmCtl) peek(point string, want func(*gateWaiter) bool, d time.Duration) *gateWaiter {
	deadline := time.Now().Add(d)
	c.mu.Lock()
	defer c.mu.Unlock()
	for {
		for _, w := range c.waiting {
			if w.point == point && (want == nil || want(w)) {
				return w
			}
		}
		if time.Now().After(deadline) {
			return nil
		}
		go func() { time.Sleep(5 * time.Millisecond); c.cond.Broadcast() }()
		c.cond.Wait()
	}
}

func (c *pmCtl) waitEvent(n0 int, ev string, pid int, d time.Duration) bool {
	deadline := time.Now().Add(d)
	c.mu.Lock()
	defer c.mu.Unlock()
	for {
		for _, e := range c.events[n0:] {
			if e.E == ev && (pid <= 0 || e.Pid == pid) {
				return true
			}
		}
		if time.Now().After(deadline) {
			return false
		}
		go func() { time.Sleep(5 * time.Millisecond); c.cond.Broadcast() }()
		c.cond.Wait()
	}
}

func (c *pmCtl) openAll() {
	c.mu.Lock()
	c.open = true
	for _, w := range c.waiting {
		close(w.ch)
	}
	c.waiting = nil
	c.mu.Unlock()
}

func (c *pmCtl) nEvents() int { c.mu.Lock(); defer c.mu.Unlock(); return len(c.events) }

// live children according to /proc (independent of the hooks)
func procChildren() int {
	n := 0
	tasks, _ := os.ReadDir("/proc/self/task")
	for _, t := range tasks {
		b, err := os.ReadFile("/proc/self/task/" + t.Name() + "/children")
		if err != nil {
			continue
		}
		for _, f := range strings.Fields(string(b)) {
			st, err := os.ReadFile("/proc/" + f + "/stat")
			if err != nil {
				continue
			}
			// pid (comm) state ...
			s := string(st)
			if k := strings.LastIndex(s, ") "); k >= 0 && k+2 < len(s) && s[k+2] != 'Z' {
				cl, _ := os.ReadFile("/proc/" + f + "/cmdline")
				if strings.Contains(string(cl), "--child-worker") {
					n++
				}
			}
		}
	}
	return n
}

func freePort() int {
	l, err := net.Listen("tcp", "127.0.0.1:0")
	if err != nil {
		return 0
	}
	defer l.Close()
	return l.Addr().(*net.TCPAddr).Port
}

func handlePM(raw json.RawMessage) interface{} {
	var c pmCase
	if err := json.Unmarshal(raw, &c); err != nil {
		return map[string]interface{}{"obs": "harness-error", "detail": err.Error()}
	}
	base := os.Getenv("VERIF_SCRATCH")
	if base == "" {
		base = os.TempDir()
	}
	dir, _ := os.MkdirTemp(base, "pm-")
	defer os.RemoveAll(dir)
	os.Setenv("VERIF_PM_DIR", dir)
	pipesBefore, _ := filepath.Glob("/tmp/zinc-server-pipe-*")
	ctl := &pmCtl{live: map[int]bool{}, open: c.Mode != "sched", slow: time.Duration(c.Slow) * time.Millisecond}
	ctl.cond = sync.NewCond(&ctl.mu)
	server.VerifPMEvent = ctl.event
	server.VerifPMGate = ctl.gate
	cfg := server.ZnPMServerConfig{InitProcs: c.Init, MaxProcs: c.Max, Timeout: c.Timeout}
	zns := server.NewZnPMServer(cfg)
	zns.SetHandler(scriptedHandler{})
	port := freePort()
	url := fmt.Sprintf("http://127.0.0.1:%d", port)
	masterDone := make(chan error, 1)
	go func() { masterDone <- zns.StartMaster(fmt.Sprintf("tcp://127.0.0.1:%d", port), cfg) }()
	// /proc sampler
	maxProc := 0
	stopSample := make(chan struct{})
	var sampleWG sync.WaitGroup
	sampleWG.Add(1)
	go func() {
		defer sampleWG.Done()
		for {
			select {
			case <-stopSample:
				return
			default:
			}
			if n := procChildren(); n > maxProc {
				maxProc = n
			}
			time.Sleep(4 * time.Millisecond)
		}
	}()
	client := &http.Client{Timeout: 8 * time.Second}
	var respMu sync.Mutex
	responses := map[string][]string{}
	var reqWG sync.WaitGroup
	fire := func(path, tok string) {
		reqWG.Add(1)
		go func() {
			defer reqWG.Done()
			resp, err := client.Get(url + path + "?t=" + tok)
			out := "ERR"
			if err == nil {
				b, _ := io.ReadAll(resp.Body)
				resp.Body.Close()
				out = string(b)
			}
			respMu.Lock()
			responses[tok] = append(responses[tok], out)
			respMu.Unlock()
		}()
	}
	diverged := -1
	note := ""
	if c.Mode == "sched" {
		realOf := map[int]int{}
		tokOf := map[int]string{}
		nspawn := 0
		step := 350 * time.Millisecond
	loop:
		for i, a := range c.Sched {
			n0 := ctl.nEvents()
			switch a.A {
			case "spawn":
				if ctl.release("spawn-start", 0, step) == nil {
					diverged, note = i, "no spawn loop is waiting to start a process"
					break loop
				}
				if !ctl.waitEvent(n0, "started", 0, 2*time.Second) {
					diverged, note = i, "process did not start"
					break loop
				}
				nspawn++
				ctl.mu.Lock()
				for _, e := range ctl.events[n0:] {
					if e.E == "started" {
						realOf[a.P] = e.Pid
					}
				}
				ctl.mu.Unlock()
				time.Sleep(60 * time.Millisecond) // let the child reach accept()
			case "add":
				if ctl.release("send-add", realOf[a.P], step) == nil {
					diverged, note = i, "no registration pending for that process"
					break loop
				}
				ctl.waitEvent(n0, "add", realOf[a.P], time.Second)
			case "accept", "accept-hang":
				tok := fmt.Sprintf("tok%d", i)
				tokOf[a.P] = tok
				fire("/wait/"+tok, tok)
				// the BUSY report of the accepting worker arrives at the update gate
				w := ctl.peek("send-update", func(w *gateWaiter) bool { return w.state == server.WORKER_STATE_BUSY }, 2*time.Second)
				if w == nil {
					// the pipe reader may still hold an earlier report: BUSY is queued behind it - fine
				} else if w.pid != realOf[a.P] {
					// another idle worker took the request: workers are interchangeable only if they have the same status
					for sp, rp := range realOf {
						if rp == w.pid {
							realOf[sp], realOf[a.P] = realOf[a.P], w.pid
						}
					}
				}
			case "update":
				if ctl.release("send-update", 0, 2*time.Second) == nil {
					diverged, note = i, "no state report pending"
					break loop
				}
				ctl.waitEvent(n0, "update", 0, time.Second)
			case "del":
				if ctl.release("send-del", realOf[a.P], 2*time.Second) == nil {
					diverged, note = i, "no exit pending for that process"
					break loop
				}
				ctl.waitEvent(n0, "del", realOf[a.P], time.Second)
			case "done":
				os.WriteFile(filepath.Join(dir, tokOf[a.P]), []byte("x"), 0644)
				time.Sleep(40 * time.Millisecond)
			case "timeout":
				ctl.waitEvent(0, "exited", realOf[a.P], time.Duration(c.Timeout)*time.Second+2*time.Second)
			case "crash":
				syscall.Kill(realOf[a.P], syscall.SIGKILL)
				ctl.waitEvent(n0, "exited", realOf[a.P], 2*time.Second)
			}
		}
		ctl.openAll()
		// let every spawn loop finish, then release the waiting requests
		time.Sleep(700 * time.Millisecond)
		for _, t := range tokOf {
			os.WriteFile(filepath.Join(dir, t), []byte("x"), 0644)
		}
		time.Sleep(time.Duration(c.Timeout)*time.Second + 600*time.Millisecond)
	} else {
		rnd := rand.New(rand.NewSource(c.Seed))
		time.Sleep(300 * time.Millisecond)
		tokn := 0
		for b := 0; b < c.Bursts; b++ {
			k := 1 + rnd.Intn(c.Max+2)
			for j := 0; j < k; j++ {
				tokn++
				tok := fmt.Sprintf("r%d", tokn)
				x := rnd.Intn(20)
				switch {
				case x == 0:
					fire("/hang", "hang-"+tok)
				case x == 1:
					fire("/exit", "exit-"+tok)
				default:
					fire(fmt.Sprintf("/sleep/%d", 20+rnd.Intn(250)), tok)
				}
			}
			time.Sleep(time.Duration(30+rnd.Intn(300)) * time.Millisecond)
		}
		reqWG.Wait()
		time.Sleep(time.Duration(c.Timeout)*time.Second + 900*time.Millisecond)
		// storms: all live workers die at the same moment (the master learns of several exits at once, while it is busy with one)
		for st := 0; st < c.Storm; st++ {
			ctl.mu.Lock()
			var victims []int
			for pid := range ctl.live {
				victims = append(victims, pid)
			}
			ctl.mu.Unlock()
			for _, pid := range victims {
				syscall.Kill(pid, syscall.SIGKILL)
			}
			time.Sleep(time.Duration(400+c.Slow*8) * time.Millisecond)
			tokn++
			fire(fmt.Sprintf("/sleep/%d", 30+rnd.Intn(60)), fmt.Sprintf("storm%d", tokn))
			reqWG.Wait()
			time.Sleep(time.Duration(300+c.Slow*6) * time.Millisecond)
		}
		// a late round: the workers have been idle for longer than --timeout; short requests must be served as usual
		for j := 0; j < 1+rnd.Intn(c.Max); j++ {
			tokn++
			fire(fmt.Sprintf("/sleep/%d", 150+rnd.Intn(200)), fmt.Sprintf("late%d", tokn))
			time.Sleep(time.Duration(rnd.Intn(120)) * time.Millisecond)
		}
		reqWG.Wait()
		time.Sleep(time.Duration(c.Timeout)*time.Second + 900*time.Millisecond)
	}
	// quiet: final counts.  "Once the system is quiet" - on a heavily loaded machine the refill may simply not have been scheduled yet: before
	// the pool is declared short, it gets up to 10 more seconds (a pool that lost track of a worker never refills, however long one waits)
	for t0 := time.Now(); time.Since(t0) < 10*time.Second; time.Sleep(100 * time.Millisecond) {
		ctl.mu.Lock()
		nl := len(ctl.live)
		ctl.mu.Unlock()
		if nl >= c.Init && procChildren() >= c.Init {
			break
		}
	}
	finalProc := procChildren()
	ctl.mu.Lock()
	finalLive := len(ctl.live)
	evs := append([]pmEvent{}, ctl.events...)
	maxLive := ctl.maxLive
	ctl.mu.Unlock()
	close(stopSample)
	sampleWG.Wait()
	// no orderly shutdown of the master: asking it to stop while one of its spawn loops is still starting a worker makes the
	// master end the whole process (log.Fatalf "启动子进程失败 ... use of closed network connection") before this case's result is
	// written - a shutdown race that is not part of the property and was once reported as a violation (seed 2, loaded machine).
	// The result is marked _fresh: the pool kills this worker's process group (master, workers) right after reading it.
	_ = masterDone
	reqWG.Wait()
	// remove OUR named pipe (the master leaves it behind): the one this process has open
	fds, _ := os.ReadDir("/proc/self/fd")
	for _, fd := range fds {
		if t, err := os.Readlink("/proc/self/fd/" + fd.Name()); err == nil && strings.HasPrefix(t, "/tmp/zinc-server-pipe-") {
			os.Remove(t)
		}
	}
	_ = pipesBefore
	return map[string]interface{}{"obs": "done", "_fresh": true, "events": evs, "max_live": maxLive, "max_proc": maxProc, "final_live": finalLive,
		"final_proc": finalProc, "diverged": diverged, "note": note, "responses": responses}
}

func init() { pool.Register("pm", handlePM) }
