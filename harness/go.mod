module verifharness

go 1.18

require github.com/DemoHn/Zn v0.0.0

replace github.com/DemoHn/Zn => /repo
