// Package render turns the program records of spec/ZnEval.tla (JSON) into Zn source text in the
// canonical layout (one statement per line, 4-space indentation) and returns the map from
// statement paths to physical lines.  It contains no semantics: only glyph substitution and layout.
package render

import (
	"fmt"
	"strconv"
	"strings"
)

type Expr struct {
	K     string   `json:"k"`
	V     any      `json:"v"`
	N     string   `json:"n"`
	Op    string   `json:"op"`
	L     *Expr    `json:"l"`
	R     *Expr    `json:"r"`
	Items []*Expr  `json:"items"`
	Keys  []string `json:"keys"`
	Vals  []*Expr  `json:"vals"`
	E     *Expr    `json:"e"`
	I     *Expr    `json:"i"`
	P     string   `json:"p"`
	F     string   `json:"f"`
	Args  []*Expr  `json:"args"`
	Y     string   `json:"y"`
	M     string   `json:"m"`
	Cls   string   `json:"cls"`
	Tgt   *Expr    `json:"tgt"`
	Chain bool     `json:"chain"` // layout only: render nested method calls as 以X（a）、（b）
	Big   int      `json:"big"`   // a number literal of a SCALED program: the specification runs it with v, the interpreter with big
}

type Stmt struct {
	K      string    `json:"k"`
	Names  []string  `json:"names"`
	Const  bool      `json:"const"`
	E      *Expr     `json:"e"`
	Conds  []*Expr   `json:"conds"`
	Blocks [][]*Stmt `json:"blocks"`
	Els    [][]*Stmt `json:"els"`
	C      *Expr     `json:"c"`
	Body   []*Stmt   `json:"body"`
	Cls    string    `json:"cls"`
	Args   []*Expr   `json:"args"`
	// layout extras (C18): lines of material inserted before this statement
	Pre []string `json:"pre"`
	// "declblock": 令： followed by one indented line per pair
	Pairs []*Stmt `json:"pairs"`
}

type Catch struct {
	Cls  string  `json:"cls"`
	Body []*Stmt `json:"body"`
}

type Func struct {
	Name    string   `json:"name"`
	Params  []string `json:"params"`
	Body    []*Stmt  `json:"body"`
	Catches []Catch  `json:"catches"`
	Mod     int      `json:"mod"` // 0 = main file, k = k-th module file
}

// Module file of a multi-file program: its name (导入“name”) and the modules it imports itself
type Module struct {
	Name    string `json:"name"`
	Imports []int  `json:"imports"`
}

type Prop struct {
	N string `json:"n"`
	E *Expr  `json:"e"`
}

type Class struct {
	Name    string `json:"name"`
	Props   []Prop `json:"props"`
	Ctor    []Func `json:"ctor"`
	Methods []Func `json:"methods"`
	Mod     int    `json:"mod"` // 0 = main file, k = the type is defined in the k-th module file (properties only)
}

type Prog struct {
	ID      int      `json:"id"`
	Funcs   []Func   `json:"funcs"`
	Classes []Class  `json:"classes"`
	Main    []*Stmt  `json:"main"`
	Catches []Catch  `json:"catches"`
	Inputs  []string `json:"inputs"`
	EOL     string   `json:"eol"` // "" = LF, "crlf", "cr"
	Mods    []Module `json:"mods"`    // module files (functions with Mod = k live in Mods[k-1])
	Imports []int    `json:"imports"` // modules the main file imports
	// selective imports of the main file: module number (as text) -> the listed names (导入“M”之a、b); absent = everything
	ImportSel map[string][]string `json:"importsel"`
}

// Sym maps the ASCII symbols of the specification to glyphs.
var Sym = map[string]string{
	"@display": "显示", "@exc": "异常", "@content": "内容", "@len": "长度", "@first": "首项", "@last": "末项",
	"@append": "后增", "@prepend": "前增", "@shift": "左移", "@pop": "右移", "@put": "写入", "@remove": "移除", "@incr": "自增", "@decr": "自减",
	"@self": "自身", "@true": "真", "@false": "假", "@null": "空", "@random": "取随机数", "@num": "数值",
}

func Name(s string) string {
	if g, ok := Sym[s]; ok {
		return g
	}
	return s
}

var opText = map[string]string{"add": "+", "sub": "-", "mul": "*", "div": "/", "idiv": "|", "mod": "%",
	"eq": "==", "neq": "/=", "gt": ">", "lt": "<", "ge": ">=", "le": "<=", "xeq": "为", "xneq": "不为", "and": "且", "or": "或"}

type R struct {
	lines []string
	Map   map[string]int // path -> 1-based physical line
}

func pathKey(p []int) string {
	s := make([]string, len(p))
	for i, x := range p {
		s[i] = strconv.Itoa(x)
	}
	return strings.Join(s, ",")
}

func (r *R) emit(ind int, text string) int {
	// a statement may span several physical lines (multi-line text literal): its line is the first
	parts := strings.Split(text, "\n")
	r.lines = append(r.lines, strings.Repeat("    ", ind)+parts[0])
	first := len(r.lines)
	r.lines = append(r.lines, parts[1:]...)
	return first
}

func numText(v any) string {
	switch x := v.(type) {
	case float64:
		return strconv.FormatFloat(x, 'f', -1, 64)
	case int:
		return strconv.Itoa(x)
	}
	return fmt.Sprint(v)
}

// E renders an expression; every compound operand is braced (layout and precedence are C01/C03's subject).
func E(e *Expr) string {
	switch e.K {
	case "num":
		if e.Big != 0 {
			return fmt.Sprint(e.Big)
		}
		return numText(e.V)
	case "str":
		return "“" + fmt.Sprint(e.V) + "”"
	case "bool":
		if b, _ := e.V.(bool); b {
			return "真"
		}
		return "假"
	case "null":
		return "空"
	case "var":
		return Name(e.N)
	case "bin":
		return operand(e.L) + " " + opText[e.Op] + " " + operand(e.R)
	case "list":
		if len(e.Items) == 0 {
			return "【】"
		}
		var it []string
		for _, x := range e.Items {
			it = append(it, E(x))
		}
		return "【" + strings.Join(it, "，") + "】"
	case "dict":
		if len(e.Keys) == 0 {
			return "【=】"
		}
		var it []string
		for i, k := range e.Keys {
			it = append(it, "“"+k+"” = "+E(e.Vals[i]))
		}
		return "【" + strings.Join(it, "，") + "】"
	case "idx":
		ix := e.I
		if ix.K == "num" || ix.K == "str" {
			return operand(e.E) + "#" + E(ix)
		}
		return operand(e.E) + "#{" + E(ix) + "}"
	case "mem":
		return operand(e.E) + "之" + Name(e.P)
	case "this":
		return "其" + Name(e.P)
	case "call":
		s := "（" + Name(e.F)
		if len(e.Args) > 0 {
			s += "：" + args(e.Args)
		}
		s += "）"
		if e.Y != "" {
			s += "，得到" + Name(e.Y)
		}
		return s
	case "mcall":
		if e.Chain && e.E.K == "mcall" {
			// 以 X（a）、（b）: flatten the nested method calls into the chain form
			var calls []*Expr
			var root *Expr
			cur := e
			for {
				calls = append([]*Expr{cur}, calls...)
				if cur.Chain && cur.E.K == "mcall" {
					cur = cur.E
				} else {
					root = cur.E
					break
				}
			}
			s := "以" + operand(root)
			for i, c := range calls {
				if i > 0 {
					s += "、"
				}
				s += "（" + Name(c.M)
				if len(c.Args) > 0 {
					s += "：" + args(c.Args)
				}
				s += "）"
			}
			return s
		}
		s := "以" + operand(e.E) + "（" + Name(e.M)
		if len(e.Args) > 0 {
			s += "：" + args(e.Args)
		}
		s += "）"
		if e.Y != "" {
			s += "，得到" + Name(e.Y)
		}
		return s
	case "new":
		s := "（新建" + Name(e.Cls)
		if len(e.Args) > 0 {
			s += "：" + args(e.Args)
		}
		return s + "）"
	case "asg":
		return E(e.Tgt) + " = " + E(e.E)
	}
	return "??" + e.K
}

func args(as []*Expr) string {
	var it []string
	for _, a := range as {
		if a.K == "mcall" {
			// 以X（m）、… would read as a call chain: brace a method call used as an argument
			it = append(it, "{"+E(a)+"}")
		} else {
			it = append(it, E(a))
		}
	}
	return strings.Join(it, "、")
}

func operand(e *Expr) string {
	switch e.K {
	case "bin", "asg", "mcall":
		return "{" + E(e) + "}"
	}
	return E(e)
}

func (r *R) stmts(ss []*Stmt, pfx []int, ind int) {
	for j, s := range ss {
		r.stmt(s, append(append([]int{}, pfx...), j+1), ind)
	}
}

func (r *R) stmt(s *Stmt, p []int, ind int) {
	for _, pre := range s.Pre {
		// layout material (comments, blank lines); may span several physical lines
		for i, l := range strings.Split(pre, "\n") {
			if i == 0 && l != "" {
				l = strings.Repeat("    ", ind) + l
			}
			r.lines = append(r.lines, l)
		}
	}
	key := pathKey(p)
	switch s.K {
	case "decl":
		var ns []string
		for _, n := range s.Names {
			ns = append(ns, Name(n))
		}
		kw := " = "
		if s.Const {
			kw = "恒为"
		}
		r.Map[key] = r.emit(ind, "令"+strings.Join(ns, "、")+kw+E(s.E))
	case "declblock":
		r.Map[key] = r.emit(ind, "令：")
		for _, pr := range s.Pairs {
			var ns []string
			for _, n := range pr.Names {
				ns = append(ns, Name(n))
			}
			kw := " = "
			if pr.Const {
				kw = "恒为"
			}
			r.emit(ind+1, strings.Join(ns, "、")+kw+E(pr.E))
		}
	case "expr":
		r.Map[key] = r.emit(ind, E(s.E))
	case "if":
		for a, c := range s.Conds {
			kw := "如果"
			if a > 0 {
				kw = "再如"
			}
			ln := r.emit(ind, kw+E(c)+"：")
			if a == 0 {
				r.Map[key] = ln
			}
			r.stmts(s.Blocks[a], append(append([]int{}, p...), a+1), ind+1)
		}
		if len(s.Els) > 0 {
			r.emit(ind, "否则：")
			r.stmts(s.Els[0], append(append([]int{}, p...), len(s.Conds)+1), ind+1)
		}
	case "while":
		r.Map[key] = r.emit(ind, "每当"+E(s.C)+"：")
		r.stmts(s.Body, append(append([]int{}, p...), 1), ind+1)
	case "iter":
		head := "遍历"
		if len(s.Names) > 0 {
			var ns []string
			for _, n := range s.Names {
				ns = append(ns, Name(n))
			}
			head = "以" + strings.Join(ns, "、") + "遍历"
		}
		r.Map[key] = r.emit(ind, head+E(s.E)+"：")
		r.stmts(s.Body, append(append([]int{}, p...), 1), ind+1)
	case "break":
		r.Map[key] = r.emit(ind, "结束循环")
	case "cont":
		r.Map[key] = r.emit(ind, "继续循环")
	case "ret":
		r.Map[key] = r.emit(ind, "输出"+E(s.E))
	case "throw":
		r.Map[key] = r.emit(ind, "抛出"+Name(s.Cls)+"："+args(s.Args)+"！")
	default:
		r.Map[key] = r.emit(ind, "??"+s.K)
	}
}

func (r *R) body(params []string, body []*Stmt, catches []Catch, pfx []int, ind int, inputKw bool) {
	if len(params) > 0 {
		var ns []string
		for _, n := range params {
			ns = append(ns, Name(n))
		}
		r.emit(ind, "输入"+strings.Join(ns, "、"))
	}
	r.stmts(body, pfx, ind)
	for q, c := range catches {
		r.emit(ind, "拦截"+Name(c.Cls)+"：")
		r.stmts(c.Body, append(append([]int{}, pfx...), -(q + 1)), ind+1)
	}
}

// Files renders a multi-file program: the main source, the module sources (by module name) and the
// path->line map (the file of a path is the module of the function its first component names).
func Files(p *Prog) (string, map[string]string, map[string]int) {
	eol := "\n"
	switch p.EOL {
	case "crlf":
		eol = "\r\n"
	case "cr":
		eol = "\r"
	}
	lmap := map[string]int{}
	mods := map[string]string{}
	for k, m := range p.Mods {
		r := &R{Map: lmap}
		for _, i := range m.Imports {
			il := r.emit(0, "导入“"+p.Mods[i-1].Name+"”")
			r.Map[fmt.Sprintf("H%d:%d", k+1, il)] = il // import statements are executed when the file is loaded, like the definitions' headers
		}
		for _, c := range p.Classes {
			if c.Mod != k+1 {
				continue
			}
			hl := r.emit(0, "定义"+Name(c.Name)+"：")
			r.Map[fmt.Sprintf("H%d:%d", k+1, hl)] = hl
			for _, pr := range c.Props {
				r.emit(1, "其"+Name(pr.N)+" = "+E(pr.E))
			}
			r.emit(0, "")
		}
		for fi, f := range p.Funcs {
			if f.Mod != k+1 {
				continue
			}
			hl := r.emit(0, "如何"+Name(f.Name)+"？")
			r.Map[fmt.Sprintf("H%d:%d", k+1, hl)] = hl // header lines of definitions (executed when the file is loaded)
			r.body(f.Params, f.Body, f.Catches, []int{fi + 1}, 1, true)
			r.emit(0, "")
		}
		mods[m.Name] = strings.Join(r.lines, eol) + eol
	}
	main, _ := program(p, lmap)
	return main, mods, lmap
}

// Program renders the whole (single-file) program. Returns source and path->line map.
func Program(p *Prog) (string, map[string]int) {
	return program(p, map[string]int{})
}

func program(p *Prog, lmap map[string]int) (string, map[string]int) {
	r := &R{Map: lmap}
	for _, i := range p.Imports {
		line := "导入“" + p.Mods[i-1].Name + "”"
		if sel, ok := p.ImportSel[fmt.Sprint(i)]; ok && len(sel) > 0 {
			var ns []string
			for _, n := range sel {
				ns = append(ns, Name(n))
			}
			line += "之" + strings.Join(ns, "、")
		}
		il := r.emit(0, line)
		r.Map[fmt.Sprintf("H0:%d", il)] = il
	}
	for ci, c := range p.Classes {
		if c.Mod != 0 {
			continue
		}
		hl := r.emit(0, "定义"+Name(c.Name)+"：") // the definition itself is a statement too
		r.Map[pathKey([]int{100 * (ci + 1)})] = hl
		r.Map[fmt.Sprintf("H0:%d", hl)] = hl
		for _, pr := range c.Props {
			r.emit(1, "其"+Name(pr.N)+" = "+E(pr.E))
		}
		for mi, m := range c.Methods {
			r.emit(1, "如何"+Name(m.Name)+"？")
			r.body(m.Params, m.Body, m.Catches, []int{100*(ci+1) + mi + 1}, 2, true)
		}
		r.emit(0, "")
		for _, ct := range c.Ctor {
			hl2 := r.emit(0, "如何新建"+Name(c.Name)+"？")
			r.Map[fmt.Sprintf("H0:%d", hl2)] = hl2
			r.body(ct.Params, ct.Body, ct.Catches, []int{100 * (ci + 1)}, 1, true)
			r.emit(0, "")
		}
	}
	for fi, f := range p.Funcs {
		if f.Mod != 0 {
			continue
		}
		hl := r.emit(0, "如何"+Name(f.Name)+"？")
		r.Map[pathKey([]int{fi + 1})] = hl
		r.Map[fmt.Sprintf("H0:%d", hl)] = hl
		r.body(f.Params, f.Body, f.Catches, []int{fi + 1}, 1, true)
		r.emit(0, "")
	}
	r.body(p.Inputs, p.Main, p.Catches, []int{0}, 0, true)
	eol := "\n"
	switch p.EOL {
	case "crlf":
		eol = "\r\n"
	case "cr":
		eol = "\r"
	}
	return strings.Join(r.lines, eol) + eol, r.Map
}
