// Package zn wraps the public API of DemoHn/Zn for the harness: run a program, record the
// display trace as structured values, classify errors.
package zn

import (
	"fmt"
	"math"
	"reflect"
	"strconv"
	"strings"
	"sync"

	zerr "github.com/DemoHn/Zn/pkg/error"
	"github.com/DemoHn/Zn/pkg/exec"
	r "github.com/DemoHn/Zn/pkg/runtime"
	"github.com/DemoHn/Zn/pkg/value"
	libfile "github.com/DemoHn/Zn/stdlib/file"
	libjson "github.com/DemoHn/Zn/stdlib/json"
)

// V is the structural snapshot of a Zn value.
type V map[string]interface{}

type snap struct {
	ids map[uintptr]int
}

func NumStr(f float64) string {
	if math.IsNaN(f) {
		return "NaN"
	}
	if math.IsInf(f, 1) {
		return "+Inf"
	}
	if math.IsInf(f, -1) {
		return "-Inf"
	}
	if f == 0 && math.Signbit(f) {
		return "-0"
	}
	return strconv.FormatFloat(f, 'g', -1, 64)
}

func (s *snap) id(x interface{}) int {
	p := reflect.ValueOf(x).Pointer()
	if v, ok := s.ids[p]; ok {
		return v
	}
	n := len(s.ids) + 1
	s.ids[p] = n
	return n
}

// Snapshot converts an element to a JSON-friendly structure (depth-limited).
func Snapshot(e r.Element) V {
	s := &snap{ids: map[uintptr]int{}}
	return s.snap(e, 0)
}

func (s *snap) snap(e r.Element, d int) V {
	if e == nil || (reflect.ValueOf(e).Kind() == reflect.Ptr && reflect.ValueOf(e).IsNil()) {
		return V{"t": "nil"}
	}
	if d > 12 {
		return V{"t": "deep"}
	}
	switch v := e.(type) {
	case *value.Number:
		return V{"t": "num", "s": NumStr(v.GetValue())}
	case *value.String:
		return V{"t": "str", "v": v.GetValue()}
	case *value.Bool:
		return V{"t": "bool", "v": v.GetValue()}
	case *value.Null:
		return V{"t": "null"}
	case *value.Array:
		items := []interface{}{}
		for _, it := range v.GetValue() {
			items = append(items, s.snap(it, d+1))
		}
		return V{"t": "list", "v": items}
	case *value.HashMap:
		keys := []interface{}{}
		vals := []interface{}{}
		m := v.GetValue()
		for _, k := range v.GetKeyOrder() {
			keys = append(keys, k)
			if it, ok := m[k]; ok {
				vals = append(vals, s.snap(it, d+1))
			} else {
				vals = append(vals, V{"t": "missing"})
			}
		}
		return V{"t": "dict", "k": keys, "v": vals, "n": len(m)}
	case *value.Object:
		return V{"t": "obj", "cls": v.GetObjectName(), "oid": s.id(v)}
	case *value.Function:
		return V{"t": "func"}
	case *value.ClassModel:
		return V{"t": "class", "name": v.GetName()}
	case *value.Exception:
		return V{"t": "exc", "msg": v.Error()}
	case *value.GoValue:
		return V{"t": "go"}
	}
	return V{"t": "other", "go": fmt.Sprintf("%T", e)}
}

// Outcome of one execution.
type Outcome struct {
	Obs     string        `json:"obs"`           // "value" | "error"
	Val     V             `json:"val,omitempty"` // result value
	Display []interface{} `json:"display"`       // each entry: list of snapshots (the arguments)
	ErrKind string        `json:"errkind,omitempty"`
	Code    int           `json:"code,omitempty"`
	Msg     string        `json:"msg,omitempty"`
	Text    string        `json:"text,omitempty"` // DisplayError text
	Frames  int           `json:"frames"`         // call frames left on the VM stack (via error wrapper), -1 unknown
}

var mu sync.Mutex
var displayLog *[]interface{}
var installed bool

// OnDisplay - when non-nil, called at every 显示 with the first argument's text (used to put display markers into an event log in order)
var OnDisplay func(first string)

// InstallDisplay replaces the predefined 显示 with a recorder (exported map entry, no hook).
func InstallDisplay() {
	if installed {
		return
	}
	installed = true
	exec.GlobalValues["显示"] = value.NewFunction(func(receiver r.Element, params []r.Element) (r.Element, error) {
		// what the predefined 显示 does (pkg/exec/globals.go: param.String() of every argument, joined and printed):
		// the text is built exactly like that - so a value whose text form crashes, crashes here too - but not printed,
		// because stdout carries the worker protocol
		for _, p := range params {
			_ = p.String()
		}
		args := []interface{}{}
		s := &snap{ids: map[uintptr]int{}}
		for _, p := range params {
			args = append(args, s.snap(p, 0))
		}
		if displayLog != nil {
			*displayLog = append(*displayLog, args)
		}
		if OnDisplay != nil && len(params) > 0 {
			if st, ok := params[0].(*value.String); ok {
				OnDisplay(st.GetValue())
			}
		}
		return value.NewNull(), nil
	})
}

func Libs() []*r.Library {
	return []*r.Library{libjson.Export(), libfile.Export()}
}

func classify(err error, o *Outcome) {
	o.Obs = "error"
	o.Msg = err.Error()
	o.Frames = -1
	switch e := err.(type) {
	case *exec.SyntaxErrorWrapper:
		o.ErrKind = "syntax"
		inner := reflect.ValueOf(e).Elem().FieldByName("err")
		_ = inner
	case *exec.RuntimeErrorWrapper:
		o.ErrKind = "runtime"
	case *zerr.IOError:
		o.ErrKind = "io"
		o.Code = e.Code
	case *zerr.SyntaxError:
		o.ErrKind = "syntax"
		o.Code = e.Code
	case *zerr.RuntimeError:
		o.ErrKind = "runtime"
		o.Code = e.Code
	default:
		o.ErrKind = fmt.Sprintf("%T", err)
	}
	func() {
		defer func() {
			if rec := recover(); rec != nil {
				o.Text = "PANIC in DisplayError: " + fmt.Sprint(rec)
			}
		}()
		o.Text = exec.DisplayError(err)
	}()
	// the code is rendered as 类[code]：msg in the last line
	if o.Code == 0 {
		o.Code = codeFromText(o.Text)
	}
}

func codeFromText(t string) int {
	// find "[NN]：" in last non-empty line
	lines := strings.Split(strings.TrimSpace(t), "\n")
	if len(lines) == 0 {
		return 0
	}
	last := lines[len(lines)-1]
	i := strings.Index(last, "[")
	j := strings.Index(last, "]：")
	if i >= 0 && j > i {
		if n, err := strconv.Atoi(last[i+1 : j]); err == nil {
			return n
		}
	}
	return 0
}

// RunScript executes source text with a fresh interpreter.
func RunScript(src string, inputs map[string]r.Element) Outcome {
	return RunScriptLibs(src, inputs, Libs())
}

// RunScriptLibs - same, with an explicit library list
func RunScriptLibs(src string, inputs map[string]r.Element, libs []*r.Library) Outcome {
	InstallDisplay()
	mu.Lock()
	defer mu.Unlock()
	var log []interface{}
	displayLog = &log
	defer func() { displayLog = nil }()
	z := exec.NewInterpreter("verif").SetExternalLibs(libs)
	if inputs == nil {
		inputs = r.ElementMap{}
	}
	val, err := z.LoadScript([]rune(src)).Execute(inputs)
	o := Outcome{Display: log}
	if o.Display == nil {
		o.Display = []interface{}{}
	}
	if err != nil {
		classify(err, &o)
		o.Display = log
		if o.Display == nil {
			o.Display = []interface{}{}
		}
		return o
	}
	o.Obs = "value"
	o.Val = Snapshot(val)
	return o
}

// RunFile executes a file with a fresh interpreter.
func RunFile(path string, inputs map[string]r.Element) Outcome {
	InstallDisplay()
	mu.Lock()
	defer mu.Unlock()
	var log []interface{}
	displayLog = &log
	defer func() { displayLog = nil }()
	z := exec.NewInterpreter("verif").SetExternalLibs(Libs())
	if inputs == nil {
		inputs = r.ElementMap{}
	}
	val, err := z.LoadFile(path).Execute(inputs)
	o := Outcome{}
	if err != nil {
		classify(err, &o)
	} else {
		o.Obs = "value"
		o.Val = Snapshot(val)
	}
	o.Display = log
	if o.Display == nil {
		o.Display = []interface{}{}
	}
	return o
}
