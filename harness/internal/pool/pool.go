// Package pool runs test cases in worker subprocesses so that a Go panic, a process exit or a
// hang in the code under test is an *observation* ("panic", "exit", "timeout"), never a failure
// of the harness.  The parent re-executes its own binary as `znh worker <mode>`; cases and
// results are ndjson lines over pipes, one outstanding case per worker.
package pool

import (
	"bufio"
	"bytes"
	"encoding/json"
	"fmt"
	"io"
	"os"
	"os/exec"
	"runtime/debug"
	"strings"
	"sync"
	"syscall"
	"time"
)

// Handler executes one case (raw JSON) and returns a JSON-serialisable result.
type Handler func(raw json.RawMessage) interface{}

var handlers = map[string]Handler{}

func Register(mode string, h Handler) { handlers[mode] = h }
func Modes() []string {
	var m []string
	for k := range handlers {
		m = append(m, k)
	}
	return m
}

type caseHead struct {
	ID interface{} `json:"id"`
}

// RunWorker: child side. Reads cases from stdin, writes one result line per case.
func RunWorker(mode string) {
	h, ok := handlers[mode]
	if !ok {
		fmt.Fprintf(os.Stderr, "unknown mode %s\n", mode)
		os.Exit(3)
	}
	in := bufio.NewReaderSize(os.Stdin, 1<<20)
	out := bufio.NewWriterSize(os.Stdout, 1<<20)
	for {
		line, err := in.ReadBytes('\n')
		if len(line) > 0 {
			res := safeCall(h, line)
			b, e := json.Marshal(res)
			if e != nil {
				b, _ = json.Marshal(map[string]interface{}{"obs": "harness-error", "detail": e.Error()})
			}
			out.Write(b)
			out.WriteByte('\n')
			out.Flush()
		}
		if err != nil {
			return
		}
	}
}

func safeCall(h Handler, line []byte) (res interface{}) {
	defer func() {
		if r := recover(); r != nil {
			st := string(debug.Stack())
			res = map[string]interface{}{"obs": "panic", "detail": fmt.Sprint(r), "stack": trimStack(st)}
		}
	}()
	return h(json.RawMessage(line))
}

func trimStack(s string) string {
	lines := strings.Split(s, "\n")
	var keep []string
	for _, l := range lines {
		if strings.Contains(l, "DemoHn/Zn") || strings.Contains(l, "/repo/") {
			keep = append(keep, strings.TrimSpace(l))
			if len(keep) >= 6 {
				break
			}
		}
	}
	return strings.Join(keep, " | ")
}

type worker struct {
	cmd  *exec.Cmd
	in   io.WriteCloser
	outp io.ReadCloser
	out  *bufio.Reader
	err  *tailBuf
	dead chan struct{} // closed when the worker PROCESS has exited (whoever still holds its pipes)
}

type tailBuf struct {
	mu  sync.Mutex
	buf []byte
}

// forwardStderr: the workers' stderr is also copied to the parent's (race detector reports are written there)
var forwardStderr = os.Getenv("VERIF_WORKER_STDERR") == "1"

func (t *tailBuf) Write(p []byte) (int, error) {
	if forwardStderr {
		os.Stderr.Write(p)
	}
	t.mu.Lock()
	t.buf = append(t.buf, p...)
	if len(t.buf) > 8192 {
		t.buf = t.buf[len(t.buf)-8192:]
	}
	t.mu.Unlock()
	return len(p), nil
}
func (t *tailBuf) String() string { t.mu.Lock(); defer t.mu.Unlock(); return string(t.buf) }

func spawn(mode string) (*worker, error) {
	cmd := exec.Command(os.Args[0], "worker", mode)
	cmd.Env = os.Environ()
	in, err := cmd.StdinPipe()
	if err != nil {
		return nil, err
	}
	outp, err := cmd.StdoutPipe()
	if err != nil {
		return nil, err
	}
	tb := &tailBuf{}
	cmd.Stderr = tb
	// a process group of its own: processes started by the code under test (prefork workers) die with the worker, and a worker
	// that dies while such processes still hold its pipes is noticed through its exit, not through end-of-file
	cmd.SysProcAttr = &syscall.SysProcAttr{Setpgid: true}
	cmd.WaitDelay = 2 * time.Second
	if err := cmd.Start(); err != nil {
		return nil, err
	}
	w := &worker{cmd: cmd, in: in, outp: outp, out: bufio.NewReaderSize(outp, 1<<20), err: tb, dead: make(chan struct{})}
	go func() {
		cmd.Wait()
		close(w.dead)
	}()
	return w, nil
}

func (w *worker) kill() {
	w.in.Close()
	syscall.Kill(-w.cmd.Process.Pid, syscall.SIGKILL)
	w.cmd.Process.Kill()
	select {
	case <-w.dead:
	case <-time.After(5 * time.Second):
	}
	w.outp.Close()
}

// RunParent: reads all cases from r, distributes to n workers, writes results to wr.
// Every result gets the case's "id". Watchdog per case.
func RunParent(mode string, r io.Reader, wr io.Writer, n int, perCase time.Duration) error {
	if _, ok := handlers[mode]; !ok {
		return fmt.Errorf("unknown mode %s", mode)
	}
	cases := make(chan []byte, 1024)
	results := make(chan []byte, 1024)
	var wg sync.WaitGroup
	for i := 0; i < n; i++ {
		wg.Add(1)
		go func() {
			defer wg.Done()
			var w *worker
			defer func() {
				if w != nil {
					w.kill()
				}
			}()
			for c := range cases {
				if w == nil {
					var err error
					w, err = spawn(mode)
					if err != nil {
						results <- mkObs(c, "harness-error", err.Error())
						continue
					}
				}
				type rep struct {
					line []byte
					err  error
				}
				ch := make(chan rep, 1)
				if _, err := w.in.Write(c); err != nil {
					results <- mkObs(c, "exit", "write: "+err.Error()+" stderr: "+lastLines(w.err.String()))
					w.kill()
					w = nil
					continue
				}
				go func(w *worker) {
					l, e := w.out.ReadBytes('\n')
					ch <- rep{l, e}
				}(w)
				var rp rep
				got := false
				select {
				case rp = <-ch:
					got = true
				case <-w.dead:
					// the process is gone; a result written just before is still accepted
					select {
					case rp = <-ch:
						got = true
					case <-time.After(300 * time.Millisecond):
						rp = rep{nil, io.EOF}
						got = true
					}
				case <-time.After(perCase):
				}
				switch {
				case got:
					if rp.err != nil || len(rp.line) == 0 {
						select {
						case <-w.dead:
						case <-time.After(3 * time.Second):
						}
						results <- mkObs(c, "exit", lastLines(w.err.String()))
						w.kill()
						w = nil
					} else {
						results <- withID(c, rp.line)
						// a handler may ask for a fresh process for the next case (C16: process-wide state)
						if bytes.Contains(rp.line, []byte(`"_fresh":true`)) {
							w.kill()
							w = nil
						}
					}
				default:
					results <- mkObs(c, "timeout", "")
					w.kill()
					w = nil
				}
			}
		}()
	}
	done := make(chan struct{})
	go func() {
		bw := bufio.NewWriterSize(wr, 1<<20)
		for l := range results {
			bw.Write(l)
			if len(l) == 0 || l[len(l)-1] != '\n' {
				bw.WriteByte('\n')
			}
		}
		bw.Flush()
		close(done)
	}()
	br := bufio.NewReaderSize(r, 1<<20)
	for {
		line, err := br.ReadBytes('\n')
		if len(strings.TrimSpace(string(line))) > 0 {
			if line[len(line)-1] != '\n' {
				line = append(line, '\n')
			}
			cases <- line
		}
		if err != nil {
			break
		}
	}
	close(cases)
	wg.Wait()
	close(results)
	<-done
	return nil
}

func lastLines(s string) string {
	ls := strings.Split(strings.TrimSpace(s), "\n")
	// keep the panic header and the first Zn frames
	var keep []string
	for _, l := range ls {
		if strings.HasPrefix(l, "panic:") || strings.HasPrefix(l, "fatal error:") || strings.Contains(l, "DemoHn/Zn") || strings.HasPrefix(l, "runtime:") {
			keep = append(keep, strings.TrimSpace(l))
		}
		if len(keep) >= 8 {
			break
		}
	}
	if len(keep) == 0 && len(ls) > 0 {
		keep = ls
		if len(keep) > 5 {
			keep = keep[len(keep)-5:]
		}
	}
	return strings.Join(keep, " | ")
}

func caseID(c []byte) interface{} {
	var h caseHead
	json.Unmarshal(c, &h)
	return h.ID
}

func mkObs(c []byte, obs, detail string) []byte {
	b, _ := json.Marshal(map[string]interface{}{"id": caseID(c), "obs": obs, "detail": detail})
	return b
}

func withID(c []byte, line []byte) []byte {
	var m map[string]interface{}
	if err := json.Unmarshal(line, &m); err != nil {
		return mkObs(c, "harness-error", "bad result line: "+string(line))
	}
	m["id"] = caseID(c)
	b, _ := json.Marshal(m)
	return b
}
