"""C07 - lists and dictionaries are copied on assignment; objects are shared (ZnEval, heap facet)."""
import random, itertools, common
from zneval import *

NAMES = ["A", "B", "C", "D"]


def ops_for(declared, flavour):
    """all single steps applicable when `declared` names exist."""
    out = []
    fresh = [n for n in NAMES if n not in declared]
    k1 = num(1) if flavour == "list" else s("a")
    k2 = num(2) if flavour == "list" else s("c")
    for x in declared:
        if fresh:
            out.append(("D %s=%s" % (fresh[0], x), [decl(fresh[0], var(x))], [fresh[0]]))
        if len(fresh) >= 2:
            out.append(("M %s,%s=%s" % (fresh[0], fresh[1], x), [decl([fresh[0], fresh[1]], var(x))], fresh[:2]))
        # a LITERAL that mentions x: the literal is new, and so is everything in it (x's value is copied in)
        lit = lst(var(x), num(3)) if flavour == "list" else dct(["a", "z"], [var(x), num(3)])
        if fresh:
            out.append(("DL %s=[%s]" % (fresh[0], x), [decl(fresh[0], lit)], [fresh[0]]))
        if len(fresh) >= 2:
            out.append(("ML %s,%s=[%s]" % (fresh[0], fresh[1], x), [decl([fresh[0], fresh[1]], lit)], fresh[:2]))
        # a literal that mentions x TWICE: both positions get their own copy (they are not each other's alias either)
        lit2 = lst(var(x), var(x), num(3)) if flavour == "list" else dct(["a", "z", "c"], [var(x), num(3), var(x)])
        if fresh:
            out.append(("DLL %s=[%s,%s]" % (fresh[0], x, x), [decl(fresh[0], lit2)], [fresh[0]]))
        for y in declared:
            if x != y:
                out.append(("SLL %s=[%s,%s]" % (y, x, x), [ex(asg(var(y), lit2))], []))
        for y in declared:
            if x != y:
                out.append(("S %s=%s" % (y, x), [ex(asg(var(y), var(x)))], []))
                out.append(("E %s#=%s" % (y, x), [ex(asg(idx(var(y), k1), var(x)))], []))
                out.append(("SL %s=[%s]" % (y, x), [ex(asg(var(y), lit))], []))
        # assignment through the 首项 / 末项 setters of a list stores a copy too
        if flavour == "list":
            for y in declared:
                if x != y:
                    # (guarded: what the setters do on an EMPTY list is not demanded)
                    out.append(("F %s.first=%s" % (y, x), [if_([bin_("gt", mem(var(y), "@len"), num(0))], [[ex(asg(mem(var(y), "@first"), var(x)))]])], []))
                    out.append(("F %s.last=%s" % (y, x), [if_([bin_("gt", mem(var(y), "@len"), num(0))], [[ex(asg(mem(var(y), "@last"), var(x)))]])], []))
            out.append(("F %s.last=[%s]" % (x, x), [if_([bin_("gt", mem(var(x), "@len"), num(0))], [[ex(asg(mem(var(x), "@last"), lst(var(x))))]])], []))
        # a collection handed to a storing method (后增 / 写入) is copied in, like an element assignment
        for y in declared:
            if x != y:
                if flavour == "list":
                    out.append(("A %s<<%s" % (y, x), [ex(mcall(var(y), "@append", var(x)))], []))
                else:
                    out.append(("A %s<<%s" % (y, x), [ex(mcall(var(y), "@put", s("p"), var(x)))], []))
        if flavour == "list":
            out.append(("A %s<<%s" % (x, x), [ex(mcall(var(x), "@append", var(x)))], []))
        else:
            out.append(("A %s<<%s" % (x, x), [ex(mcall(var(x), "@put", s("p"), var(x)))], []))
        # binding the RESULT of a call: 后增 yields its receiver, 写入 the stored value, 读取-like index reads a stored element -
        # the bound name still gets its own copy
        for y in declared:
            if x != y:
                if flavour == "list":
                    out.append(("SR %s=%s.app" % (y, x), [ex(asg(var(y), mcall(var(x), "@append", num(6))))], []))
                else:
                    out.append(("SR %s=%s.put" % (y, x), [ex(asg(var(y), mcall(var(x), "@put", s("q"), lst(num(6)))))], []))
        if fresh:
            if flavour == "list":
                out.append(("DR %s=%s.app" % (fresh[0], x), [decl(fresh[0], mcall(var(x), "@append", num(6)))], [fresh[0]]))
            else:
                out.append(("DR %s=%s.put" % (fresh[0], x), [decl(fresh[0], mcall(var(x), "@put", s("q"), lst(num(6))))], [fresh[0]]))
        # mutations through x
        out.append(("m1 %s" % x, [ex(asg(idx(idx(var(x), k1), num(1)), num(9)))], []))
        out.append(("m2 %s" % x, [ex(mcall(idx(var(x), k1), "@append", num(7)))], []))
        out.append(("m3 %s" % x, [ex(asg(idx(var(x), k2), lst(num(8))))], []))
        if flavour == "list":
            out.append(("m4 %s" % x, [ex(mcall(var(x), "@append", lst(num(5))))], []))
            out.append(("m5 %s" % x, [ex(mcall(var(x), "@shift"))], []))
            out.append(("L %s" % x, [iter_(["V"], var(x), [ex(mcall(var("V"), "@append", num(0)))])], []))
        else:
            out.append(("m4 %s" % x, [ex(mcall(var(x), "@put", s("d"), lst(num(5))))], []))
            out.append(("m5 %s" % x, [ex(mcall(var(x), "@remove", s("a")))], []))
            out.append(("L %s" % x, [iter_(["K", "V"], var(x), [ex(mcall(var("V"), "@append", num(0)))])], []))
    return out


def build(flavour, steps):
    init = lst(lst(num(1), num(2)), lst(num(3), num(4))) if flavour == "list" else dct(["a", "b"], [lst(num(1), num(2)), lst(num(3))])
    main = [decl("A", init)]
    declared = ["A"]
    tags = []
    for tag, stmts, newnames in steps:
        main += stmts
        declared = declared + newnames
        main.append(disp(*[var(n) for n in declared]))
        tags.append(tag)
    main.append(ex(num(0)))
    p = prog(main)
    p["tag"] = flavour + ":" + ";".join(tags)
    return p


def enum_hist(flavour, length, declared=("A",)):
    if length == 0:
        yield []
        return
    for op in ops_for(list(declared), flavour):
        for rest in enum_hist(flavour, length - 1, tuple(declared) + tuple(op[2])):
            yield [op] + rest


def random_hist(flavour, length, rnd):
    declared = ["A"]
    steps = []
    for _ in range(length):
        op = rnd.choice(ops_for(declared, flavour))
        steps.append(op)
        declared += op[2]
    return steps


def object_programs():
    P = []
    def add(tag, p):
        p["tag"] = tag; P.append(p)
    K = cls("K", [("p", num(1)), ("q", lst(num(1), num(2)))],
            methods=[func("push", ["X"], [ex(mcall(this("q"), "@append", var("X"))), ret(this("q"))]),
                     func("setp", ["X"], [ex(asg(this("p"), var("X"))), ret(this("p"))])])
    O, O2 = var("O"), var("O2")
    add("obj-shared-assign", prog([decl("O", new("K")), decl("O2", O), ex(asg(mem(O2, "p"), num(5))), disp(mem(O, "p"), mem(O2, "p")), ex(num(0))], classes=[K]))
    add("obj-shared-method", prog([decl("O", new("K")), decl("O2", O), ex(mcall(O2, "push", num(9))), disp(mem(O, "q"), mem(O2, "q")), ex(num(0))], classes=[K]))
    add("obj-in-list-shared", prog([decl("O", new("K")), decl("L", lst(O)), decl("L2", var("L")), ex(mcall(idx(var("L2"), num(1)), "setp", num(7))), disp(mem(O, "p"), mem(idx(var("L"), num(1)), "p")), ex(num(0))], classes=[K]))
    add("obj-prop-copied-out", prog([decl("O", new("K")), decl("L", mem(O, "q")), ex(mcall(var("L"), "@append", num(3))), disp(var("L"), mem(O, "q")), ex(num(0))], classes=[K]))
    add("obj-prop-copied-in", prog([decl("O", new("K")), decl("L", lst(num(5))), ex(asg(mem(O, "q"), var("L"))), ex(mcall(var("L"), "@append", num(6))), disp(var("L"), mem(O, "q")), ex(num(0))], classes=[K]))
    add("two-objects-own-defaults", prog([decl("O", new("K")), decl("O2", new("K")), ex(mcall(O, "push", num(9))), disp(mem(O, "q"), mem(O2, "q")), decl("O3", new("K")), disp(mem(var("O3"), "q")), ex(num(0))], classes=[K]))
    add("literal-fresh-each-time", prog([disp(call("mk")), disp(call("mk")), ex(num(0))],
        funcs=[func("mk", [], [decl("T", lst(num(1))), ex(mcall(var("T"), "@append", num(2))), ret(var("T"))])]))
    add("literal-in-loop-fresh", prog([decl("ALL", lst()), decl("I", num(0)), while_(bin_("lt", var("I"), num(3)), [ex(asg(var("I"), bin_("add", var("I"), num(1)))), decl("T", lst()), ex(mcall(var("T"), "@append", var("I"))), ex(mcall(var("ALL"), "@append", var("T")))]), disp(var("ALL")), ex(num(0))]))
    add("const-decl-copies", prog([decl("A", lst(num(1))), decl("B", var("A"), const=True), ex(mcall(var("A"), "@append", num(2))), disp(var("A"), var("B")), ex(num(0))]))
    add("loop-var-copy-list", prog([decl("X", lst(lst(num(1), num(2)), lst(num(3)))), iter_(["V"], var("X"), [ex(asg(idx(var("V"), num(1)), num(9))), disp(var("V"))]), disp(var("X")), ex(num(0))]))
    add("loop-var-copy-dict", prog([decl("X", dct(["a"], [lst(num(1))])), iter_(["K", "V"], var("X"), [ex(mcall(var("V"), "@append", num(9))), disp(var("K"), var("V"))]), disp(var("X")), ex(num(0))]))
    # NUMBER elements: a copied list / dictionary of plain values owns its numbers too - the in-place number methods 自增 / 自减 on an
    # element of one never show through the other (every copy route x which side is changed)
    def incr(path, m="@incr", by=10): return ex(mcall(path, m, num(by)))
    A_, B_, C_ = var("A"), var("B"), var("C")
    routes = {
        "declare": [decl("B", A_)], "assign": [decl("B", lst()), ex(asg(B_, A_))], "multi-declare": [decl(["B", "C"], A_)], "const-declare": [decl("B", A_, const=True)],
        "literal-mention": [decl("B", lst(A_, A_))], "element-assign": [decl("B", lst(num(0))), ex(asg(idx(B_, num(1)), A_))], "append": [decl("B", lst()), ex(mcall(B_, "@append", A_))],
        "dict-value": [decl("B", dct(["k"], [A_]))], "put": [decl("B", dct([], [])), ex(mcall(B_, "@put", s("k"), A_))],
    }
    where = {"declare": lambda: idx(B_, num(1)), "assign": lambda: idx(B_, num(1)), "multi-declare": lambda: idx(C_, num(2)), "const-declare": lambda: idx(B_, num(1)),
             "literal-mention": lambda: idx(idx(B_, num(2)), num(1)), "element-assign": lambda: idx(idx(B_, num(1)), num(2)), "append": lambda: idx(idx(B_, num(1)), num(1)),
             "dict-value": lambda: idx(idx(B_, s("k")), num(1)), "put": lambda: idx(idx(B_, s("k")), num(2))}
    for init_tag, init in (("flat", lambda: lst(num(1), num(2), num(3))), ("with-text", lambda: lst(num(1), num(2), s("t"))), ("nested", lambda: lst(num(1), num(2), lst(num(5))))):
        for rn, rstmts in routes.items():
            for side in ("copy", "original"):
                for m in ("@incr", "@decr"):
                    tgt = where[rn]() if side == "copy" else idx(A_, num(1 if rn not in ("multi-declare", "element-assign", "put") else 2))
                    names = [A_, B_] + ([C_] if rn == "multi-declare" else [])
                    add("number-elements:%s:%s:%s:%s" % (init_tag, rn, side, m), prog([decl("A", init())] + json_copy(rstmts) + [disp(*names), incr(tgt, m), disp(*names), incr(idx(A_, num(2)), m, 100), disp(*names), ex(num(0))]))
    # dictionaries of numbers, loop variables
    add("number-elements:dict", prog([decl("A", dct(["a", "b"], [num(1), num(2)])), decl("B", A_), incr(idx(B_, s("a"))), disp(A_, B_), incr(idx(A_, s("b")), "@decr"), disp(A_, B_), ex(num(0))]))
    add("number-elements:loop-var", prog([decl("A", lst(lst(num(1), num(2)), lst(num(3)))), iter_(["V"], A_, [incr(idx(var("V"), num(1))), disp(var("V"))]), disp(A_), ex(num(0))]))
    # the SAME collection mentioned several times in a literal / merged with itself, then copied: every position is its own value
    for copy_tag, cp in (("declare", lambda: [decl("G", lst(var("R"), var("R"), var("R"))), decl("H", var("G"))]), ("direct", lambda: [decl("H", lst(var("R"), var("R"), var("R")))]),
                         ("dict", lambda: [decl("G", dct(["p", "q"], [var("R"), var("R")])), decl("H", var("G"))])):
        hk = (lambda k: idx(var("H"), s("pq"[k - 1]))) if copy_tag == "dict" else (lambda k: idx(var("H"), num(k)))
        add("same-collection-twice:%s" % copy_tag, prog([decl("R", lst(num(0), num(0)))] + cp() + [ex(asg(idx(hk(1), num(1)), num(7))), disp(var("H"), var("R")), ex(mcall(hk(2), "@append", num(5))), disp(var("H"), var("R")),
                                                                                                  decl("J", var("H")), ex(asg(idx(idx(var("J"), s("q") if copy_tag == "dict" else num(2)), num(2)), num(8))), disp(var("J"), var("H")), ex(num(0))]))
    # literals used DIRECTLY (no name in between) where they can be changed in place - as the receiver of a storing method, as an
    # argument of a method that changes its parameter, as the result of 输出 that the caller changes - executed repeatedly: every
    # execution of the literal is a new value, so every repetition shows the same thing
    forms = {"empty-list": lambda: lst(), "const-list": lambda: lst(num(0)), "const-list-2": lambda: lst(num(1), s("x")), "nested-const-list": lambda: lst(lst(num(1))),
             "empty-dict": lambda: dct([], []), "const-dict": lambda: dct(["a"], [num(1)])}
    for fname, mk in forms.items():
        isd = "dict" in fname
        def mut(recv, x):
            return mcall(recv, "@put", s("k"), x) if isd else mcall(recv, "@append", x)
        contexts = {
            "receiver": ([], lambda x: [ex(mut(mk(), x)), disp(mut(mk(), x))]),
            "argument": ([func("chg", ["P"], [ex(mut(var("P"), num(7))), ret(var("P"))])], lambda x: [disp(call("chg", mk()))]),
            "returned": ([func("mk", [], [ret(mk())])], lambda x: [disp(mut(call("mk"), x)), disp(call("mk"))]),
        }
        for cname, (fs, body) in contexts.items():
            add("literal-direct:%s:%s:calls" % (fname, cname), prog([disp(call("rep", num(1))), disp(call("rep", num(2))), disp(call("rep", num(3))), ex(num(0))],
                funcs=fs + [func("rep", ["X"], body(var("X")) + [ret(mk())])]))
            add("literal-direct:%s:%s:while" % (fname, cname), prog([decl("I", num(0)), while_(bin_("lt", var("I"), num(3)), [ex(asg(var("I"), bin_("add", var("I"), num(1))))] + body(var("I"))), ex(num(0))], funcs=fs))
            add("literal-direct:%s:%s:iterate" % (fname, cname), prog([iter_(["V"], lst(num(1), num(2), num(3)), body(var("V"))), ex(num(0))], funcs=fs))
    return P


def json_copy(x):
    import json
    return json.loads(json.dumps(x))


def run(ctx):
    znh = common.build_harness(ctx)
    rnd = random.Random(ctx.seed)
    progs = object_programs()
    ex_len = 2
    for fl in ("list", "dict"):
        for L in range(1, ex_len + 1):
            for h in enum_hist(fl, L):
                progs.append(build(fl, h))
    nrand = 2500 if ctx.tier == "quick" else 40000
    for i in range(nrand):
        fl = ("list", "dict")[i % 2]
        progs.append(build(fl, random_hist(fl, rnd.choice([3, 4, 5]), rnd)))
    log("[C07] %d programs (exhaustive histories <= %d steps + %d random of 3-5 steps + object programs)" % (len(progs), ex_len, nrand))
    stats, vecs, res = run_family(ctx, znh, progs, "c07")
    pick = [p for p in progs if p["tag"].startswith("list:D B=A;m2 B")][:1] + [p for p in progs if p["tag"] == "loop-var-copy-list"]
    samples = [dict(tag=p["tag"], source=res[p["id"]].get("src"), spec_display=vecs[p["id"]]["out"]) for p in pick]
    cov = dict(traces_validated_against_impl=stats["programs"] - stats["skipped"], samples=samples,
               evaluations=stats["programs"], distinct_nontrivial=len(set(p["tag"] for p in progs)),
               rule="copy/mutate histories over names A..D starting from a nested list or a dictionary of lists: steps = declare-copy, multi-declare, assign, the same three with a literal that mentions a variable or with the result of a storing method (which yields its receiver / the stored value), "
                    "element/key assignment of a collection, assignment through the 首项 / 末项 setters, 5 mutations through any name at nesting 1-2 (index/key assignment, 后增, 左移, 写入, 移除), "
                    "mutation through a 遍历 loop variable; every variable is displayed after every step. Exhaustive for <= %d steps, seeded random for 3-5 "
                    "steps; plus object sharing / default-copy / literal-freshness programs, NUMBER elements (9 copy routes x which side is changed by 自增 / 自减 x 3 element mixes), and one collection mentioned several times in a literal and then copied. The ZnEval heap machine (deep copy on bind, reference "
                    "objects; invariant FreshVars in every state) predicts every displayed snapshot" % ex_len, **stats)
    return cov, ["a list / dictionary handed to 后增 / 前增 / 写入 is stored as a copy (repo fix 52e2856; before it the methods aliased their argument and a collection could contain itself)",
                 "parameter passing and 得到 share the value with the caller (not demanded by the property; the spec shares them too)",
                 "sharing is observed through displayed values after every step, not through pointer identity"]
