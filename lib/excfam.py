"""Program family shared by C09 (exceptions) and C18 (fault position / call chain):
a chain main -> F1 -> ... -> Fd with a raise at the deepest level, handlers placed per level."""
from zneval import *

RAISES = {
    # (the messages carry characters that mean something to formatting / templating code: they are data and reach the top unchanged)
    "thr": lambda: throw("@exc", s("boom 100%! %d %s {} {#.2} \\n")),
    "cust": lambda: throw("E1", s("x%v")),
    "custm": lambda: throw("E3", s("x")),      # a type defined in the module file of the raising method
    "idx": lambda: ex(idx(lst(num(1)), num(5))),
    "div": lambda: decl("Q", bin_("div", num(1), bin_("sub", num(2), num(2)))),
    "undef": lambda: ex(var("NOPE")),
}
RAISE_CLASS = {"thr": "@exc", "cust": "E1", "custm": "E3", "idx": "@exc", "div": "@exc", "undef": "@exc"}
CLASSES = [cls("E1", [("@content", s("custom1"))]), cls("E2", [("@content", s("custom2"))])]


def raise_expr(rk):
    """the raise as an EXPRESSION (for the positions below); 抛出 is a statement, so it is wrapped in a method RF"""
    if rk == "idx": return idx(lst(num(1)), num(5))
    if rk == "div": return bin_("div", num(1), bin_("sub", num(2), num(2)))
    if rk == "undef": return var("NOPE")
    return call("RF")
def raise_funcs(rk):
    if rk == "thr": return [func("RF", [], [mark("RF-in"), throw("@exc", s("boom 100%! %d %s {} {#.2} \\n")), mark("RF-dead")])]
    if rk == "cust": return [func("RF", [], [mark("RF-in"), throw("E1", s("x")), mark("RF-dead")])]
    if rk == "custm": return [func("RF", [], [mark("RF-in"), throw("E3", s("x")), mark("RF-dead")])]
    return []
EXPR_SITES = ["iter-target", "while-cond", "if-cond", "elif-cond", "call-arg", "decl-rhs", "list-item", "ret-value"]


def wrap_site(stmt, sw, rk=None):
    if sw in EXPR_SITES:
        e = raise_expr(rk)
        if "pre" in stmt: pre = stmt["pre"]
        else: pre = None
        def tagpre(s_):
            if pre: s_["pre"] = pre
            return s_
        if sw == "iter-target": return [tagpre(iter_(["V"], e, [mark("dead-it")])), mark("dead-after-it")]
        if sw == "while-cond": return [tagpre(while_(bin_("eq", e, num(1)), [mark("dead-w")])), mark("dead-after-w")]
        if sw == "if-cond": return [tagpre(if_([bin_("eq", e, num(1))], [[mark("dead-if")]], [mark("dead-else")])), mark("dead-after-if")]
        if sw == "elif-cond": return [tagpre(if_([b(False), bin_("eq", e, num(1))], [[mark("dead-if")], [mark("dead-elif")]], [mark("dead-else")])), mark("dead-after-if")]
        if sw == "call-arg": return [tagpre(disp(s("arg"), e)), mark("dead-after-call")]
        if sw == "decl-rhs": return [tagpre(decl("Q9", bin_("add", num(1), e))), mark("dead-after-decl")]
        if sw == "list-item": return [tagpre(decl("Q9", lst(num(1), e, num(3)))), mark("dead-after-decl")]
        if sw == "ret-value": return [tagpre(ret(e)), mark("dead-after-ret")]
    if sw == "plain": return [stmt]
    if sw == "inif": return [if_([b(True)], [[mark("in-if"), stmt, mark("dead-if")]]), mark("dead-after-if")]
    if sw == "inwhile": return [decl("W", num(0)), while_(bin_("lt", var("W"), num(3)), [ex(asg(var("W"), bin_("add", var("W"), num(1)))), mark("in-while"), stmt, mark("dead-w")]), mark("dead-after-w")]
    if sw == "initer": return [iter_(["V"], lst(num(1), num(2)), [mark("in-iter"), stmt, mark("dead-it")]), mark("dead-after-it")]
    raise ValueError(sw)


def handler(level, hk, rk, he):
    """hk: none | match | nomatch | nomatch+match | other-first"""
    rc = RAISE_CLASS[rk]
    other = "E2" if rc != "E2" else "E1"
    def body(tagm):
        bd = [mark("h%d-%s" % (level, tagm)), disp(this("@content"))]
        if he == "ret": bd.append(ret(num(-10 - level)))
        elif he == "rethrow": bd.append(throw("@exc", s("again%d" % level)))
        elif he == "fault": bd.append(ex(idx(lst(), num(1))))
        elif he == "noretx":      # no 输出, and the block ends with a statement that HAS a value: the protected body still yields 空
            bd += [decl("HC%d" % level, num(0)), ex(asg(var("HC%d" % level), bin_("add", var("HC%d" % level), num(41))))]
        elif he == "noretc":
            bd.append(ex(this("@content")))
        else: bd.append(mark("h%d-end" % level))
        return bd
    if hk == "none": return []
    if hk == "match": return [catch(rc, body("m"))]
    if hk == "nomatch": return [catch(other, body("x"))]
    if hk == "nomatch+match": return [catch(other, body("x")), catch(rc, body("m"))]
    if hk == "match+match": return [catch(rc, body("m1")), catch(rc, body("m2"))]
    raise ValueError(hk)


MODNAMES = ["模甲", "模乙", "模丙"]


def chain_prog(depth, rk, sw, hks, he, followups=True, pre=None, levels=None, selective=False):
    """hks: handler kind per level 0..depth (0 = main).
    levels: module of F1..Fd (0 = main file, k = k-th module file; non-decreasing, each step to the same or the next
    module) - the call chain then crosses module boundaries; None = everything in the main file."""
    funcs = []
    lv = list(levels) if levels else [0] * depth
    raise_stmt = RAISES[rk]()
    if pre:
        raise_stmt["pre"] = pre
    for lvl in range(1, depth + 1):
        body = [decl("L%d" % lvl, bin_("add", var("X"), num(lvl))), mark("F%d-in" % lvl)]
        if lvl == depth:
            body += wrap_site(raise_stmt, sw, rk)
            body += [mark("F%d-dead" % lvl), ret(num(lvl))]
        else:
            # (after the call the caller reads its OWN input again - every method of the chain calls its input X)
            body += [decl("R%d" % lvl, call("F%d" % (lvl + 1), var("L%d" % lvl))), disp(s("F%d-out" % lvl), var("R%d" % lvl), var("X"), var("L%d" % lvl)),
                     ret(bin_("add", var("R%d" % lvl), num(1)))]
        funcs.append(func("F%d" % lvl, ["X"], body, handler(lvl, hks[lvl], rk, he), mod=lv[lvl - 1]))
    main = [decl("M", num(5)), mark("start")]
    if depth == 0:
        main += wrap_site(raise_stmt, sw, rk) + [mark("main-dead")]
    else:
        main += [decl("R", call("F1", var("M"))), disp(s("R"), var("R")), disp(var("M"))]
        if followups:
            main += [decl("S", call("F1", bin_("add", var("M"), num(1)))), disp(s("S"), var("S")), mark("probe"), ex(var("L1"))]
    if sw in EXPR_SITES:
        rf = raise_funcs(rk)
        for f in rf: f["mod"] = lv[depth - 1] if depth else 0
        funcs = funcs + rf
    mods, imports = [], []
    if levels and any(lv):
        # after the call: a method of the MAIN file must still be callable (the caller's module is what it was)
        if depth and followups:
            main.insert(len(main) - 2, disp(s("HM"), call("HM")))
        funcs = funcs + [func("HM", [], [ret(num(77))])]
        nm = max(lv)
        mods = [dict(name=MODNAMES[k], imports=sorted(set(b for a, b in zip(lv, lv[1:]) if a == k + 1 and b != a))) for k in range(nm)]
        imports = sorted(set(([lv[0]] if lv[0] else []) + [b for a, b in zip(lv, lv[1:]) if a == 0 and b != 0]))
    classes = list(CLASSES)
    if rk == "custm":
        # the exception's type lives in the module file of the method that raises it; handlers name it by its NAME, wherever they are
        c3 = cls("E3", [("@content", s("custom3"))]); c3["mod"] = lv[depth - 1] if depth else 0
        classes.append(c3)
    p = prog(main, funcs=funcs, classes=classes, catches=handler(0, hks[0], rk, he), mods=mods, imports=imports)
    if selective and mods:
        # the main file lists only the METHODS it calls (导入“模”之F1、...): types of the module are not among its names
        p["importsel"] = {str(k): sorted(set(f["name"] for f in funcs if f.get("mod") == k and f["name"].startswith("F"))) for k in imports}
        p["importsel"] = {k: v for k, v in p["importsel"].items() if v}
    p["tag"] = "d%d/%s/%s/%s/%s" % (depth, rk, sw, ",".join(hks), he) + ("/mods" + "".join(str(x) for x in lv) if levels and any(lv) else "") + ("/sel" if selective else "")
    return p
