"""C02 - branches, loops and 输出 follow the documented control flow (spec/ZnEval.tla, control facet)."""
import random, itertools, common
from zneval import *


class Gen:
    """Instantiates control skeletons: marks are numbered, every 每当 gets its own counter."""
    def __init__(self, probe=False):
        self.m = 0; self.w = 0; self.it = 0; self.q = 0; self.probe = probe
    def q_(self, e, fn="Q"):
        """probe variant: the expression is evaluated through a method that displays a numbered mark first, so HOW OFTEN and
        WHEN a condition / loop target is evaluated is part of the compared display trace"""
        if not self.probe: return e
        self.q += 1
        return call(fn, s("q%d" % self.q), e)
    def mark(self):
        self.m += 1
        return mark("m%d" % self.m)
    def cond(self, c, loopvar):
        return self.q_(self.cond0(c, loopvar))
    def cond0(self, c, loopvar):
        if c == "T": return b(True)
        if c == "F": return b(False)
        if c == "N": return num(1)
        if c == "K": return bin_("eq", var(loopvar), num(2)) if loopvar else b(True)
        raise ValueError(c)
    def block(self, sk, loopvar):
        out = []
        for st in sk:
            out += self.stmt(st, loopvar)
        return out
    def stmt(self, st, loopvar):
        k = st[0]
        if k == "M": return [self.mark()]
        if k == "B": return [BREAK]
        if k == "C": return [CONT]
        if k == "R":
            self.m += 1
            return [ret(num(100 + self.m))]
        if k == "IF":   # ("IF", [(cond, block)...], else-block-or-None)
            conds = [self.cond(c, loopvar) for c, _ in st[1]]
            blocks = [self.block(bl, loopvar) for _, bl in st[1]]
            els = self.block(st[2], loopvar) if st[2] is not None else None
            return [if_(conds, blocks, els)]
        if k == "W":
            self.w += 1
            c = "C%d" % self.w
            body = [ex(asg(var(c), bin_("add", var(c), num(1))))] + self.block(st[1], c)
            return [decl(c, num(0)), while_(self.q_(bin_("lt", var(c), num(3))), body)]
        if k == "IT":  # ("IT", coll, nnames, body)
            self.it += 1
            kn, vn = "K%d" % self.it, "V%d" % self.it
            coll = {"L": lst(num(1), num(2), num(3)), "D": dct(["a", "b", "c"], [num(1), num(2), num(3)]),
                    "E": lst()}[st[1]]
            names = [[], [vn], [kn, vn]][st[2]]
            lv = vn if st[2] >= 1 else None
            body = self.block(st[3], lv)
            if st[2] == 2:
                body = [disp(var(kn), var(vn))] + body
            return [iter_(names, self.q_(coll), body)]
        raise ValueError(k)


def blocks(size, inloop, nest):
    """all statement-list skeletons of total size exactly `size` (>=1)."""
    if size <= 0:
        return
    for first_size in range(1, size + 1):
        for st in stmts(first_size, inloop, nest):
            if first_size == size:
                yield [st]
            else:
                for rest in blocks(size - first_size, inloop, nest):
                    if len(rest) < 3:
                        yield [st] + rest


def stmts(size, inloop, nest):
    if size == 1:
        yield ("M",)
        yield ("R",)
        if inloop:
            yield ("B",); yield ("C",)
        return
    if nest <= 0:
        return
    inner = size - 1
    conds = ["T", "F", "K"] if inloop else ["T", "F"]
    # single-arm if, if/else, if/elseif
    for bl in blocks(inner, inloop, nest - 1):
        for c in conds:
            yield ("IF", [(c, bl)], None)
    for a in range(1, inner):
        for b1 in blocks(a, inloop, nest - 1):
            for b2 in blocks(inner - a, inloop, nest - 1):
                yield ("IF", [("K" if inloop else "F", b1)], b2)
                yield ("IF", [("F", b1), ("T", b2)], None)
                yield ("IF", [("T", b1), ("T", b2)], None)
    for bl in blocks(inner, True, nest - 1):
        yield ("W", bl)
        yield ("IT", "L", 1, bl)
        yield ("IT", "D", 2, bl)
    if inner <= 2:
        for bl in blocks(inner, True, nest - 1):
            yield ("IT", "L", 0, bl)
            yield ("IT", "E", 1, bl)
            yield ("IT", "L", 2, bl)
            yield ("IT", "D", 1, bl)


QFN = func("Q", ["T", "V"], [disp(var("T")), ret(var("V"))])
def instantiate(sk, where, tagtxt, probe=False):
    g = Gen(probe)
    body = g.block(sk, None)
    if probe:
        if where == "main":
            p = prog(body + [mark("end"), ex(num(7))], funcs=[QFN])
        else:
            p = prog([mark("start"), disp(call("F")), mark("end"), ex(num(7))], funcs=[QFN, func("F", [], body + [mark("fend"), ret(num(8))])])
        p["tag"] = tagtxt
        return p
    if where == "main-bare":        # the skeleton is the WHOLE program: a nested 输出 sits in the last statement of the body
        p = prog(body)
    elif where == "fn-bare":
        f = func("F", [], body)
        p = prog([mark("start"), disp(call("F")), mark("end"), ex(num(7))], funcs=[f])
    elif where == "main":
        p = prog(body + [mark("end"), ex(num(7))])
    else:
        f = func("F", [], body + [mark("fend"), ret(num(8))])
        p = prog([mark("start"), disp(call("F")), mark("end"), ex(num(7))], funcs=[f])
    p["tag"] = tagtxt
    return p


def sk_tag(sk):
    def t(st):
        if st[0] == "IF": return "IF(" + ";".join(c + ":" + tt(bl) for c, bl in st[1]) + ("|" + tt(st[2]) if st[2] is not None else "") + ")"
        if st[0] == "W": return "W(" + tt(st[1]) + ")"
        if st[0] == "IT": return "IT%s%d(" % (st[1], st[2]) + tt(st[3]) + ")"
        return st[0]
    def tt(bl): return ",".join(t(x) for x in bl)
    return tt(sk)


def json_copy_(x):
    import json
    return json.loads(json.dumps(x))


def special_programs():
    """hand-written corner programs of the control facet (type errors in conditions, dictionary order,
    nested break/continue, 输出 from depth 3, final expression value)."""
    P = []
    def add(tag, p):
        p["tag"] = tag; P.append(p)
    # loops whose bodies DECLARE names (1..9 per pass, after 0..9 names declared before the loop, also inside a method and through a called
    # method's inputs): the loop variables keep following the collection whatever the body adds to the scope
    for pre in (0, 1, 2, 3, 4, 6, 7, 9):
        for inner in (1, 2, 3, 5, 9):
            prelude = [decl("Q%d" % j, num(j)) for j in range(pre)]
            body = [decl("T%d" % j, bin_("add", var("V"), num(j))) for j in range(inner)] + [disp(var("I"), var("V"), var("T%d" % (inner - 1)))]
            loop = iter_(["I", "V"], lst(num(10), num(20), num(30), num(40)), body)
            dloop = iter_(["K", "W"], dct(["x", "y", "z"], [num(1), num(2), num(3)]), [decl("U%d" % j, var("W")) for j in range(inner)] + [disp(var("K"), var("W")), if_([bin_("eq", var("W"), num(2))], [[CONT]]), mark("after")])
            add("iter-declares-%d-after-%d" % (inner, pre), prog(prelude + [loop, dloop, mark("end"), ex(num(0))]))
            if pre in (0, 3) and inner in (1, 3, 9):
                add("iter-declares-%d-after-%d-in-method" % (inner, pre), prog([disp(call("F", num(1))), ex(num(0))], funcs=[func("F", ["P"], json_copy_(prelude) + [json_copy_(loop), json_copy_(dloop), ret(var("P"))])]))
                callee = func("G", ["A%d" % j for j in range(inner)], [ret(var("A0"))])
                add("iter-calls-method-with-%d-inputs-after-%d" % (inner, pre), prog(json_copy_(prelude) + [iter_(["I", "V"], lst(num(10), num(20), num(30)), [disp(var("I"), var("V"), call("G", *[var("V")] * inner)), disp(var("I"), var("V"))]), ex(num(0))], funcs=[callee]))
    add("cond-number", prog([mark("a"), if_([num(1)], [[mark("b")]]), mark("c")]))
    add("while-cond-text", prog([mark("a"), while_(s("x"), [mark("b")]), mark("c")]))
    add("elseif-second", prog([if_([b(False), b(True), b(True)], [[mark("1")], [mark("2")], [mark("3")]], [mark("e")]), ex(num(1))]))
    add("else-only", prog([if_([b(False), b(False)], [[mark("1")], [mark("2")]], [mark("e")]), ex(num(1))]))
    add("no-branch", prog([if_([b(False), b(False)], [[mark("1")], [mark("2")]]), ex(num(1))]))
    add("dict-order", prog([decl("D", dct(["z", "b", "m"], [num(1), num(2), num(3)])),
                            ex(asg(idx(var("D"), s("a")), num(4))), ex(mcall(var("D"), "@remove", s("z"))),
                            ex(asg(idx(var("D"), s("z")), num(5))),
                            iter_(["K", "V"], var("D"), [disp(var("K"), var("V"))]), ex(num(0))]))
    add("list-index-1based", prog([iter_(["I", "V"], lst(s("x"), s("y")), [disp(var("I"), var("V"))]), ex(num(0))]))
    add("final-expr", prog([decl("A", num(3)), ex(bin_("mul", var("A"), num(5)))]))
    add("final-nonexpr", prog([decl("A", num(3))]))
    add("ret-in-while-in-fn", prog([disp(call("F")), mark("after")],
        funcs=[func("F", [], [decl("I", num(0)), while_(b(True), [ex(asg(var("I"), bin_("add", var("I"), num(1)))), mark("w"),
                               if_([bin_("eq", var("I"), num(2))], [[ret(s("two"))]]), mark("x")]), mark("never")])]))
    add("ret-in-iter-depth3", prog([disp(call("F")), mark("after")],
        funcs=[func("F", [], [iter_(["V"], lst(num(1), num(2), num(3)), [iter_(["W"], lst(num(1), num(2)), [
            if_([bin_("eq", bin_("add", var("V"), var("W")), num(4))], [[ret(bin_("mul", var("V"), num(10)))]]), disp(var("V"), var("W"))])]), mark("never")])]))
    add("ret-top-level-loop", prog([decl("I", num(0)), while_(bin_("lt", var("I"), num(5)), [ex(asg(var("I"), bin_("add", var("I"), num(1)))), disp(var("I")),
                                    if_([bin_("eq", var("I"), num(2))], [[ret(s("two"))]])]), mark("never")]))
    add("break-inner-only", prog([iter_(["A"], lst(num(1), num(2)), [iter_(["B"], lst(num(1), num(2), num(3)), [
        if_([bin_("eq", var("B"), num(2))], [[BREAK]]), disp(var("A"), var("B"))]), mark("o")]), ex(num(0))]))
    add("continue-inner-only", prog([iter_(["A"], lst(num(1), num(2)), [decl("J", num(0)), while_(bin_("lt", var("J"), num(3)), [
        ex(asg(var("J"), bin_("add", var("J"), num(1)))), if_([bin_("eq", var("J"), num(2))], [[CONT]]), disp(var("A"), var("J"))]), mark("o")]), ex(num(0))]))
    # a condition that is not a boolean is an error at EVERY condition position, also when earlier arms were false
    for nm, bad in (("number", num(1)), ("zero", num(0)), ("text", s("x")), ("null", NULL), ("list", lst(num(1)))):
        add("elseif-cond-" + nm, prog([mark("a"), if_([b(False), bad], [[mark("1")], [mark("2")]], [mark("e")]), mark("c")]))
        add("elseif3-cond-" + nm, prog([mark("a"), if_([b(False), b(False), bad, b(True)], [[mark("1")], [mark("2")], [mark("3")], [mark("4")]]), mark("c")]))
        add("elseif-cond-fn-" + nm, prog([disp(call("F")), mark("after")],
            funcs=[func("F", [], [if_([b(False), bad], [[ret(s("one"))], [ret(s("two"))]], [ret(s("else"))]), mark("never")])]))
        add("if-cond-" + nm, prog([mark("a"), if_([bad], [[mark("b")]], [mark("e")]), mark("c")]))
        add("while-cond-later-" + nm, prog([decl("C", b(True)), while_(var("C"), [mark("w"), ex(asg(var("C"), bad))]), mark("c")]))
    # compound conditions: 且 / 或 short-circuit inside 如果 / 再如 / 每当 conditions (probe methods show what was evaluated)
    probes = [func("PT", [], [mark("PT"), ret(b(True))]), func("PF", [], [mark("PF"), ret(b(False))]), func("PN", [], [mark("PN"), ret(num(3))])]
    PT, PF, PN = call("PT"), call("PF"), call("PN")
    for nm, cnd in (("and-tf", bin_("and", PT, PF)), ("and-ft", bin_("and", PF, PT)), ("or-tf", bin_("or", PT, PF)), ("or-ft", bin_("or", PF, PT)),
                    ("and-or", bin_("or", bin_("and", PF, PT), PT)), ("or-and", bin_("and", bin_("or", PT, PF), PF)),
                    ("and-nonbool-right", bin_("and", PT, PN)), ("and-nonbool-left", bin_("and", PN, PT)), ("or-nonbool-right-skipped", bin_("or", PT, PN)),
                    ("and-cmp", bin_("and", bin_("gt", PN, num(1)), bin_("lt", PN, num(2))))):
        add("cond-" + nm, prog([mark("a"), if_([cnd], [[mark("then")]], [mark("else")]), mark("c")], funcs=probes))
        add("elif-cond-" + nm, prog([mark("a"), if_([b(False), cnd], [[mark("1")], [mark("then")]], [mark("else")]), mark("c")], funcs=probes))
        add("while-cond-" + nm, prog([decl("I", num(0)), while_(bin_("and", bin_("lt", var("I"), num(2)), cnd), [ex(asg(var("I"), bin_("add", var("I"), num(1)))), mark("w")]), mark("c")], funcs=probes))
    add("elseif-cond-not-reached", prog([mark("a"), if_([b(True), num(1)], [[mark("1")], [mark("2")]]), mark("c")]))
    add("iter-not-collection", prog([mark("a"), iter_(["V"], num(5), [mark("b")]), mark("c")]))
    return P


def run(ctx):
    znh = common.build_harness(ctx)
    rnd = random.Random(ctx.seed)
    maxsize = 4        # 8.6k skeletons; size <= 5 is 132k (x2 programs): 27 min of TLC alone, measured - sampled instead
    sks = []
    for size in range(1, maxsize + 1):
        sks += list(blocks(size, False, 3))
    extra = []
    if ctx.tier == "quick":
        big = list(blocks(5, False, 3))
        extra = rnd.sample(big, min(1500, len(big)))
    else:
        big = list(blocks(5, False, 3))
        extra = rnd.sample(big, min(20000, len(big)))
        big = list(blocks(6, False, 3))
        extra += rnd.sample(big, min(12000, len(big)))
    progs = special_programs()
    for sk in sks + extra:
        t = sk_tag(sk)
        progs.append(instantiate(sk, "main", t))
        progs.append(instantiate(sk, "fn", t))
        # probe variant: conditions and loop targets evaluated through a displaying method
        if "(" in t and (ctx.tier != "quick" or t.count(",") + t.count("(") <= 2 or rnd.random() < 0.1):
            progs.append(instantiate(sk, "main", t + "/probe", True))
            progs.append(instantiate(sk, "fn", t + "/probe", True))
        if "R" in t and (ctx.tier != "quick" or t.count(",") + t.count("(") <= 2 or rnd.random() < 0.3):      # nothing follows the skeleton: its last statement ends the body
            progs.append(instantiate(sk, "main-bare", t + "/bare"))
            progs.append(instantiate(sk, "fn-bare", t + "/bare"))
    log("[C02] %d skeletons exhaustive (size<=%d) + %d sampled larger -> %d programs" % (len(sks), maxsize, len(extra), len(progs)))
    stats, vecs, res = run_family(ctx, znh, progs, "c02")
    ex_ = [p for p in progs if "W(" in p.get("tag", "") and "R" in p.get("tag", "")][:2] + progs[:1]
    samples = [dict(tag=p["tag"], source=res[p["id"]].get("src") if p["id"] in res else None,
                    spec_result=vecs[p["id"]]["res"], spec_display=vecs[p["id"]]["out"],
                    spec_statement_paths=[t["p"] for t in vecs[p["id"]]["tr"]][:12]) for p in ex_]
    cov = dict(traces_validated_against_impl=stats["programs"] - stats["skipped"], samples=samples,
               evaluations=stats["programs"], distinct_nontrivial=len(set(p["tag"] for p in progs)),
               rule="control skeletons over {mark, if/elseif/else, while, iterate(list|dict|empty, 0/1/2 names), break, continue, return} (each also in a PROBE variant whose conditions and loop targets are evaluated through a displaying method: number and moment of every evaluation compared) "
                    "nesting<=3: exhaustive up to size %d plus a seeded sample of the next size (thorough: 20000 of size 5 and 12000 of size 6), each at top level and inside a method, plus "
                    "hand-written corner programs; TLC runs the ZnEval machine on every program (invariants in every state) and emits result, "
                    "display trace and executed-statement trace; the interpreter's H2 line events must equal that trace, statement by statement "
                    "(line, call depth, scope-depth consistency), then display trace and result; distinct = distinct skeletons" % maxsize,
               exhaustive_up_to_size=maxsize, **stats)
    assumptions = ["loops are bounded by counters/collections generated with the program (terminating programs only, as the property states)",
                   "the renderer's canonical layout (one statement per line) - layout variation is C03's subject",
                   "H2 hook events are emitted after the state change in the single evaluator goroutine"]
    return cov, assumptions
