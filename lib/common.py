"""Shared machinery for /verif/bin/check: scratch dirs, harness build, TLC runner,
vector extraction, known-findings matching, evidence writing, verdicts.

Exit codes (DESIGN.md section 7): 0 held / 1 violation / 2 no verdict (infrastructure).
A verdict is only ever derived from behaviour of the real code; TLC counterexamples on the
committed specification, build failures, timeouts are exit 2.
"""
import json, os, re, shutil, subprocess, sys, tempfile, time, hashlib

VERIF = os.path.dirname(os.path.dirname(os.path.abspath(__file__)))
REPO = os.environ.get("VERIF_REPO", "/repo")
SPEC = os.path.join(VERIF, "spec")
HARNESS = os.path.join(VERIF, "harness")
BUILD = os.path.join(VERIF, ".build")
EVID = os.path.join(VERIF, "evidence")
REPLAYS = os.path.join(VERIF, "replays")
# Self-test of the machinery (bin/selftest): VERIF_SELFTEST=vector corrupts ONE expectation that TLC
# emitted, VERIF_SELFTEST=trace corrupts ONE field of ONE recorded event before trace validation.  The
# check must then exit 1.  Evidence and replays of such runs go to .build/selftest, never to evidence/.
SELFTEST = os.environ.get("VERIF_SELFTEST", "")
if SELFTEST:
    EVID = os.path.join(BUILD, "selftest", "evidence")
    REPLAYS = os.path.join(BUILD, "selftest", "replays")
_selftest_done = []
if REPO != "/repo":      # checking a scratch copy (bin/seedrun): never touch evidence/ or replays/
    _alt = os.path.join(BUILD, "alt", hashlib.sha1(REPO.encode()).hexdigest()[:10])
    EVID = os.path.join(_alt, "evidence")
    REPLAYS = os.path.join(_alt, "replays")

GOENV = dict(GOFLAGS="-mod=mod", GOPROXY="off", GOSUMDB="off", GOTOOLCHAIN="local",
             CGO_ENABLED="1")


class NoVerdict(Exception):
    """Infrastructure problem: exit 2, never a violation."""


class Ctx:
    def __init__(self, pid, tier, seed):
        self.pid, self.tier, self.seed = pid, tier, seed
        self.t0 = time.time()
        root = "/dev/shm" if os.access("/dev/shm", os.W_OK) else None   # tmpfs: 1e6 small files/run
        self.scratch = tempfile.mkdtemp(prefix="verif-%s-" % pid, dir=root)
        self.states = 0
        self.transitions = 0
        self.tlc_runs = []
        self.violations = []   # dicts: sig, what, record
        self.known_hits = {}   # finding id -> count
        self.notes = []
        self.cov = {}

    def sub(self, name):
        d = os.path.join(self.scratch, name)
        os.makedirs(d, exist_ok=True)
        return d

    def cleanup(self):
        shutil.rmtree(self.scratch, ignore_errors=True)

    def wall(self):
        return round(time.time() - self.t0, 2)


def log(*a):
    print(*a, file=sys.stderr, flush=True)


# ---------------------------------------------------------------- harness build

def go_env():
    e = dict(os.environ)
    e.update(GOENV)
    return e


def harness_dirs(ctx):
    """-> (module dir, output dir).  With VERIF_REPO set (checking a scratch copy of DemoHn/Zn, e.g. a
    seeded change in a worktree) the harness module is copied to the scratch dir with its replace
    directive pointing there, and binaries stay in the scratch dir, so runs on different trees never share
    a binary."""
    if REPO == "/repo":
        os.makedirs(BUILD, exist_ok=True)
        return HARNESS, BUILD
    d = os.path.join(ctx.scratch, "harness")
    if not os.path.isdir(d):
        shutil.copytree(HARNESS, d)
        gm = open(os.path.join(d, "go.mod")).read().replace("=> /repo", "=> " + REPO)
        open(os.path.join(d, "go.mod"), "w").write(gm)
    return d, ctx.sub("bin")


def build_harness(ctx, cmd="znh", race=False, tags="verif"):
    """Build harness/cmd/<cmd> against the current working tree of DemoHn/Zn (replace => /repo)."""
    hdir, bdir = harness_dirs(ctx)
    # go.sum of the harness must contain the repo's sums
    try:
        shutil.copyfile(os.path.join(REPO, "go.sum"), os.path.join(hdir, "go.sum"))
    except OSError:
        pass
    out = os.path.join(bdir, cmd + ("-race" if race else ""))
    args = ["go", "build", "-tags", tags, "-o", out]
    if race:
        args.append("-race")
    args.append("./cmd/" + cmd)
    t = time.time()
    p = subprocess.run(args, cwd=hdir, env=go_env(), capture_output=True, text=True)
    if p.returncode != 0:
        raise NoVerdict("harness build failed:\n" + p.stdout + p.stderr)
    log("[build] %s in %.1fs" % (cmd, time.time() - t))
    return out


# ---------------------------------------------------------------- TLC

TLC_JAR_CP = "/opt/veriftools/tla/tla2tools.jar:/opt/veriftools/tla/CommunityModules-deps.jar"
import threading
_lock = threading.Lock()
RE_STATES = re.compile(r"(\d+) states generated, (\d+) distinct states found")


def tlc(ctx, module, cfg=None, workers=None, timeout=600, extra=(), files=(), simulate=None,
        depth=None, heap=None, allow_violation=False, quiet=False):
    """Run TLC on spec/<module>.tla with spec/<cfg> in a scratch copy of spec/.
    Returns (stdout_text, info). A violated invariant/property of the committed spec is a
    broken spec -> NoVerdict, unless allow_violation (used for AsCoded counterexample generation)."""
    with _lock:
        ctx._tlc_n = getattr(ctx, "_tlc_n", 0) + 1
        work = ctx.sub("tlc-%d" % ctx._tlc_n)
    for f in os.listdir(SPEC):
        if f.endswith(".tla") or f.endswith(".cfg"):
            shutil.copy(os.path.join(SPEC, f), work)
    for src, dst in files:
        shutil.copy(src, os.path.join(work, dst))
    cfg = cfg or (module + ".cfg")
    if workers is None:
        workers = 16
    env = dict(os.environ)
    jto = "-Djava.io.tmpdir=%s -Dfile.encoding=UTF-8" % work
    env["JAVA_TOOL_OPTIONS"] = jto
    args = ["timeout", str(timeout), "java", "-XX:+UseParallelGC"]
    if heap:
        args.append("-Xmx" + heap)
    args += ["-Xss64m", "-cp", TLC_JAR_CP, "tlc2.TLC", "-workers", str(workers), "-metadir",
             os.path.join(work, "meta"), "-config", cfg, "-noGenerateSpecTE"]
    if simulate:
        args += ["-simulate", simulate]
    if depth:
        args += ["-depth", str(depth)]
    args += list(extra)
    args.append(module + ".tla")
    t = time.time()
    outp = os.path.join(work, "tlc.out")
    with open(outp, "w") as fo:
        p = subprocess.run(args, cwd=work, env=env, stdout=fo, stderr=subprocess.STDOUT)
    dt = time.time() - t
    txt = open(outp, errors="replace").read()
    info = dict(module=module, cfg=cfg, rc=p.returncode, secs=round(dt, 2), generated=0, distinct=0)
    m = None
    for m in RE_STATES.finditer(txt):
        pass
    if m:
        info["generated"], info["distinct"] = int(m.group(1)), int(m.group(2))
    ctx.tlc_runs.append(info)
    ctx.states += info["distinct"]
    ctx.transitions += info["generated"]
    if not quiet:
        log("[tlc] %s/%s rc=%d %.1fs generated=%d distinct=%d" % (module, cfg, p.returncode, dt,
                                                               info["generated"], info["distinct"]))
    if p.returncode == 124:
        raise NoVerdict("TLC timeout after %ds on %s/%s" % (timeout, module, cfg))
    bad = ("Error: Parsing or semantic analysis failed" in txt or "java.lang.OutOfMemoryError" in txt
           or "StackOverflowError" in txt)
    if bad:
        raise NoVerdict("TLC could not run %s/%s:\n%s" % (module, cfg, tail(txt)))
    viol = ("is violated" in txt or "Error: Deadlock reached" in txt or "was violated" in txt
            or "Error: Evaluating" in txt or "TLC threw an unexpected exception" in txt
            or "Error: The " in txt or "Error: In evaluation" in txt
            or ("Error: Postcondition" in txt and "is false" in txt))
    info["postcondition_failed"] = "Error: Postcondition" in txt
    info["violated"] = viol
    if viol and not allow_violation:
        errs = [l for l in txt.splitlines() if l.startswith("Error:")]
        raise NoVerdict("specification %s/%s violates its own property (spec broken):\n%s\n...\n%s"
                        % (module, cfg, "\n".join(errs[:6]), tail(txt, 25)))
    if p.returncode not in (0, 12, 13) and not viol and not simulate:
        # 12/13 = violation codes; anything else unexpected
        if "Model checking completed" not in txt and "Finished in" not in txt:
            raise NoVerdict("TLC rc=%d on %s/%s:\n%s" % (p.returncode, module, cfg, tail(txt)))
    return txt, info


def tail(txt, n=40):
    ls = [l for l in txt.splitlines() if not l.startswith(("Parsing file", "Semantic processing", "Linting of"))]
    return "\n".join(ls[-n:])


def vectors(txt, key=None):
    """TLC PrintT(ToJson(v)) lines -> python objects. Each such line is a JSON string literal
    whose content is JSON."""
    out = []
    for line in txt.splitlines():
        if len(line) > 3 and line[0] == '"' and line[1] in "{[" :
            try:
                v = json.loads(json.loads(line))
            except ValueError:
                continue
            if key is None or (isinstance(v, dict) and v.get("k") == key):
                out.append(v)
    if SELFTEST == "vector" and not _selftest_done:
        # drivers may replay a sample of the vectors: corrupt every 40th so that the sample contains some
        n = 0
        for v in out[::40]:
            if isinstance(v, dict) and _corrupt_vector(v):
                n += 1
        if n:
            _selftest_done.append(n)
            log("[selftest] corrupted %d of %d %r vectors" % (n, len(out), out[0].get("k")))
    return out


def _bump(val):
    """change a tagged spec value / plain scalar into a different one of the same shape"""
    if isinstance(val, bool): return not val
    if isinstance(val, int): return val + 1
    if isinstance(val, str): return val + "x"
    if isinstance(val, list): return val + val[:1] if val else [0]
    if isinstance(val, dict):
        if val.get("t") == "num" and "n" in val and "d" in val:      # exact rational of ZnExpr
            val["n"] = val["n"] + val["d"]; return val
        for f in ("v", "p", "s"):
            if f in val:
                val[f] = _bump(val[f]); return val
        val["k"] = "null" if val.get("k") != "null" else "bool"
        return val
    return val


def _corrupt_vector(v):
    k = v.get("k")
    if k == "coll" or k == "hist":
        if not v["h"]: return False
        v["h"][-1]["r"] = _bump(v["h"][-1]["r"]); return True
    if k == "prog":
        if v.get("skip"): return False
        if v["out"]:
            v["out"][0][0] = _bump(v["out"][0][0]); return True
        if v["res"]["k"] == "value":
            v["res"]["v"] = _bump(v["res"]["v"]); return True
        return False
    if k == "expr":
        if v["out"] != "done": return False
        v["val"] = _bump(v["val"]); return True
    if k == "file":
        if not v["ok"]: return False
        v["chars"] = v["chars"] + v["chars"][:1] if v["chars"] else ["x41"]; return True
    if k == "lex":
        if not v["ok"] or v["soft"] or not v["toks"]: return False
        v["toks"][-1]["b"] += 1; return True
    if k == "num":
        v["c"] = "name" if v["c"] != "name" else "number"; return True
    if k == "pos":
        v["line"] += 1; return True
    if k == "str":
        if not v["ok"] or v["soft"]: return False
        v["stop"] += 1; return True
    if k == "text":
        v["len"] += 1; return True
    if k == "mod":
        v["trace"] = v["trace"] + v["trace"][:1] if v["trace"] else v["trace"]
        return bool(v["trace"])
    if k == "iso":
        v["isolated"] = not v["isolated"]; return True
    if k == "table":
        v["t"] = v["t"][:-1]; return True
    if k == "dicteq":
        v["eq"] = not v["eq"]; return True
    if k == "tree":
        if not v["tree"]["c"]: return False
        v["tree"]["c"] = v["tree"]["c"][:-1]; return True
    return False


def corrupt_trace(path, fields, to=None):
    """VERIF_SELFTEST=trace: bump one of `fields` (or set it to `to`) in the middle line of an ndjson trace file."""
    if SELFTEST != "trace" or _selftest_done:
        return
    lines = open(path).read().splitlines()
    for i in list(range(len(lines) // 2, len(lines))) + list(range(len(lines) // 2)):
        e = json.loads(lines[i])
        if "reset" in (e.get("o"), e.get("e")):      # separator lines carry no recorded state
            continue
        for f in fields:
            if f in e and not isinstance(e[f], (list, dict)) and e[f] not in ("", None):
                e[f] = _bump(e[f]) if to is None else to
                lines[i] = json.dumps(e)
                open(path, "w").write("\n".join(lines) + "\n")
                _selftest_done.append((i + 1, f))
                log("[selftest] corrupted field %r of trace line %d" % (f, i + 1))
                return


# ---------------------------------------------------------------- harness run

def run_harness(ctx, binpath, mode, cases, timeout=900, args=(), env=None, _retry=True):
    """Feed ndjson cases on stdin to `znh <mode>`, read ndjson results."""
    inp = os.path.join(ctx.scratch, "in-%s-%d.ndjson" % (mode, len(os.listdir(ctx.scratch))))
    with open(inp, "w") as f:
        for c in cases:
            f.write(json.dumps(c, ensure_ascii=True, separators=(",", ":")) + "\n")
    outp = inp.replace("in-", "out-")
    e = dict(os.environ)
    e["VERIF_SEED"] = str(ctx.seed)
    e["VERIF_SCRATCH"] = ctx.scratch
    if env:
        e.update(env)
    t = time.time()
    with open(inp) as fi, open(outp, "w") as fo:
        p = subprocess.run(["timeout", str(timeout), binpath, mode] + list(args), stdin=fi, stdout=fo,
                           stderr=subprocess.PIPE, env=e, cwd=ctx.scratch)
    if p.returncode != 0:
        raise NoVerdict("harness %s rc=%d: %s" % (mode, p.returncode, p.stderr.decode(errors="replace")[-3000:]))
    res = []
    with open(outp) as f:
        for line in f:
            line = line.strip()
            if line:
                res.append(json.loads(line))
    log("[harness] %s: %d cases -> %d results in %.1fs" % (mode, len(cases), len(res), time.time() - t))
    # reproduction rule for the watchdog: a case that timed out is run again, few at a time, with a watchdog six times as
    # long; only a timeout that reproduces is an observation (a loaded machine must not turn into hangs of DemoHn/Zn)
    if _retry and mode not in ("pm",):
        tmo = [r for r in res if r.get("obs") == "timeout"]
        if tmo:
            wd = 5.0
            a = list(args)
            if "-t" in a:
                wd = float(a[a.index("-t") + 1]); del a[a.index("-t"):a.index("-t") + 2]
            byid = {c.get("id"): c for c in cases}
            def rerun(rs):
                again = run_harness(ctx, binpath, mode, [byid[r["id"]] for r in rs if r.get("id") in byid], timeout=timeout,
                                    args=a + ["-t", str(wd * 4), "-j", "4"], env=env, _retry=False)
                return {r["id"]: r for r in again}
            fixed = rerun(tmo[:40])
            if len(tmo) > 40 and not any(r.get("obs") == "timeout" for r in fixed.values()):
                fixed.update(rerun(tmo[40:]))       # none of the first 40 reproduced: load - the others get their second chance too
            nrec = sum(1 for r in tmo if fixed.get(r["id"], r).get("obs") != "timeout")
            log("[harness] %s: %d watchdog timeouts, %d re-run with a %.0fs watchdog: %d did not reproduce" % (mode, len(tmo), len(fixed), wd * 4, nrec))
            res = [fixed.get(r.get("id"), r) if r.get("obs") == "timeout" else r for r in res]
            if nrec:
                ctx.notes.append("%s: %d of %d watchdog timeouts did not reproduce with a longer watchdog (machine load) and were not reported" % (mode, nrec, len(tmo)))
    return res


# ---------------------------------------------------------------- known findings

def load_known():
    p = os.path.join(VERIF, "known_findings.json")
    if not os.path.exists(p):
        return []
    return json.load(open(p)).get("findings", [])


def match_known(pid, sig, known):
    """A finding lists property + a regex over the violation signature (sig)."""
    for k in known:
        if k.get("property") != pid or k.get("status", "open") != "open":
            continue
        if re.search(k["match"], sig):
            return k
    return None


def report(ctx, sig, what, record):
    """Register a (reproduced) mismatch. sig: short stable signature string."""
    ctx.violations.append(dict(sig=sig, what=what, record=record))


# ---------------------------------------------------------------- finish

def write_evidence(ctx, level, coverage, assumptions, nviol):
    os.makedirs(EVID, exist_ok=True)
    ev = dict(property_id=ctx.pid, tier=ctx.tier, seed=ctx.seed, level=level, coverage=coverage,
              assumptions=assumptions, wall_s=ctx.wall(), violations=nviol)
    with open(os.path.join(EVID, ctx.pid + ".json"), "w") as f:
        json.dump(ev, f, ensure_ascii=False, indent=1)


def finish(ctx, coverage, assumptions, level="model_checking"):
    """Classify violations against known findings, write replays + evidence, print verdict lines,
    return exit code."""
    known = load_known()
    by_sig = {}
    for v in ctx.violations:
        by_sig.setdefault(v["sig"], []).append(v)
    new = []
    khit = {}
    for sig, vs in by_sig.items():
        k = match_known(ctx.pid, sig, known)
        if k:
            khit.setdefault(k["id"], [k, 0])[1] += len(vs)
        else:
            new.append((sig, vs))
    for kid, (k, n) in sorted(khit.items()):
        print("KNOWN-FINDING: property=%s %s (%s; %d occurrence(s) this run)" % (ctx.pid, k["what"], kid, n))
    coverage = dict(coverage)
    coverage.setdefault("states", ctx.states)
    coverage.setdefault("transitions", ctx.transitions)
    coverage["tlc_runs"] = ctx.tlc_runs
    coverage["known_findings_hit"] = {kid: n for kid, (k, n) in khit.items()}
    if ctx.notes:
        coverage["notes"] = ctx.notes
        for n in ctx.notes:
            print("NOTE: property=%s %s" % (ctx.pid, n))
    rc = 0
    if new:
        rc = 1
        os.makedirs(REPLAYS, exist_ok=True)
        for sig, vs in new[:20]:
            h = hashlib.sha1(sig.encode()).hexdigest()[:10]
            path = os.path.join(REPLAYS, "%s-%s.json" % (ctx.pid, h))
            with open(path, "w") as f:
                json.dump(dict(property=ctx.pid, signature=sig, what=vs[0]["what"], count=len(vs),
                               tier=ctx.tier, seed=ctx.seed, records=[v["record"] for v in vs[:5]],
                               replay_cmd="bin/check %s --replay %s" % (ctx.pid, path)),
                          f, ensure_ascii=False, indent=1)
            print("VIOLATION property=%s replay=%s" % (ctx.pid, path))
            log("  -> %s: %s (%d cases)" % (sig, vs[0]["what"], len(vs)))
        coverage["new_violation_signatures"] = [s for s, _ in new[:400]]
    write_evidence(ctx, level, coverage, assumptions, len(new))
    log("[%s] tier=%s seed=%d wall=%.1fs states=%d verdict=%s" % (
        ctx.pid, ctx.tier, ctx.seed, ctx.wall(), ctx.states, "VIOLATION" if rc else "ok"))
    return rc
