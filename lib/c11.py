"""C11 - execution is deterministic (spec/ZnMapIter.tla, spec/ZnDictEq.tla)."""
import random, json, os, subprocess, common
from common import log


def dlit(ks, vs):
    if not ks: return "【=】"
    return "【" + "，".join("“%s” = %d" % (k, v) for k, v in zip(ks, vs)) + "】"


def static_inventory(ctx):
    out = common.build_harness(ctx, "maprange")
    p = subprocess.run([out, common.REPO], capture_output=True, text=True, env=common.go_env())
    if p.returncode != 0:
        raise common.NoVerdict("maprange failed (the tree must type-check with -tags verif): " + p.stderr[-2000:])
    return sorted("%s:%s:%s#%s" % (e["file"], e["func"], e["expr"], e["hash"]) for e in map(json.loads, p.stdout.splitlines()))


def json_docs(rnd):
    """(tag, JSON text) - an object with k keys (not in sorted order) placed at a position described by a path of 'o' (value of an
    object member) and 'a' (item of an array)"""
    out = []
    def obj(k, salt):
        names = ["k%d%s" % ((i * 5 + salt) % 11, "abcdefgh"[(i * 3) % 8]) for i in range(k)]
        return "{" + ",".join('"%s":%d' % (n, i) for i, n in enumerate(names)) + "}"
    for path in ("", "o", "a", "aa", "oa", "ao", "oao", "aoa", "aaa", "ooa"):
        for k in (2, 3, 5, 8):
            d = obj(k, len(path))
            for st in reversed(path):
                d = ('{"p":1,"m":%s,"c":2}' % d) if st == "o" else ('[1,%s,%s]' % (d, obj(2, 7)))
            if not d.startswith("{"): d = '{"r":%s}' % d        # 解析JSON wants an object at the top
            out.append(("%s/%d" % (path or "top", k), d))
    return out


def run(ctx):
    znh = common.build_harness(ctx)
    rnd = random.Random(ctx.seed)
    N = 32 if ctx.tier == "quick" else 256
    # ---- (1) confluence of every modelled loop kind under all iteration orders; deviations must be refuted
    txt, info = common.tlc(ctx, "ZnMapIter", "MC_ZnMapIter_fold.cfg", workers=4, timeout=300)
    sites = [v for v in common.vectors(txt, "sites")]
    if not sites:
        raise common.NoVerdict("site table not emitted")
    modelled = sorted(s["site"] for s in sites[0]["sites"])
    dtxt, dinfo = common.tlc(ctx, "ZnMapIter", "MC_ZnMapIter_deviations.cfg", workers=4, timeout=300, allow_violation=True)
    if not dinfo["violated"]:
        raise common.NoVerdict("sensitivity: the deviation kinds (firstfail/ordered) were NOT refuted by TLC - model is vacuous")
    # ---- (2) static inventory = modelled site table
    inv = static_inventory(ctx)
    unmodelled = [s for s in inv if s not in modelled]
    stale = [s for s in modelled if s not in inv]
    # ---- (3) dictionary equality vectors, executed N times each
    etxt, einfo = common.tlc(ctx, "ZnDictEq", "MC_ZnDictEq.cfg", workers=8, timeout=300)
    ev = common.vectors(etxt, "dicteq")
    if len(ev) < 6000:
        raise common.NoVerdict("too few dicteq vectors: %d" % len(ev))
    cases = []
    meta = []
    for v in ev:
        a, bb = dlit(v["k1"], v["v1"]), dlit(v["k2"], v["v2"])
        src = ("令甲 = %s\n令乙 = %s\n（显示：甲 为 乙、甲 不为 乙、甲 == 乙、甲 /= 乙、{以【乙】（包含：甲）}、{以【1，乙】（寻找：甲）}、{以【【乙】】（包含：【甲】）}、"
               "【“x” = 甲】 为 【“x” = 乙】）\n0\n" % (a, bb))
        cases.append(dict(id=len(cases), src=src, n=N)); meta.append(("dicteq", v))
    # ---- (4) other order-sensitive-looking programs: JSON parse order, object defaults, nested dict display
    others = [
        ("json-parse-order", "导入《@JSON》\n令甲 = （解析JSON：“{\"z\":1,\"y\":2,\"x\":3,\"w\":4,\"v\":[{\"b\":1,\"a\":2}]}”）\n（显示：甲、甲之所有索引）\n以键、值遍历甲：\n    （显示：键）\n（生成JSON：甲）\n"),
        ("object-defaults", "定义箱：\n    其长 = 1\n    其宽 = 【1，2】\n    其高 = 【“a” = 1】\n    其重 = “w”\n令甲 = （新建箱）\n（显示：甲之长、甲之宽、甲之高、甲之重）\n0\n"),
        ("dict-of-dicts", "令甲 = 【“p” = 【“b” = 1，“a” = 2】，“o” = 【“d” = 3，“c” = 【4】】】\n（显示：甲、甲之所有值、甲 为 甲）\n0\n"),
        ("error-message", "令甲 = 【“a” = 1，“b” = 2】\n甲#“zz”\n"),
        ("compare-with-uncomparable", "如何F？\n    输出1\n令甲 = 【“a” = 1，“b” = 2，“c” = 3】\n令乙 = 【“a” = 1，“b” = 9，“c” = 8】\n（显示：甲 为 乙）\n0\n"),
    ]
    # dictionary literals that repeat a key (the later value wins, the key keeps its first place - C12): order and value reproducible
    for ks in (["甲", "乙", "丙", "甲"], ["a", "b", "a", "c", "b"], ["x", "x"], ["k1", "k2", "k3", "k4", "k5", "k1", "k3"]):
        lit = "【" + "，".join("“%s” = %d" % (k, i + 1) for i, k in enumerate(ks)) + "】"
        others.append(("literal-repeated-key", "导入《@JSON》\n令甲 = %s\n（显示：甲、甲之所有索引、甲之所有值、（生成JSON：甲））\n以键、值遍历甲：\n    （显示：键、值）\n0\n" % lit))
    # dictionaries holding values that cannot be compared (a method, a type, an object) next to entries that differ: whether the
    # comparison fails or answers, it does the same every time
    unc = "如何F？\n    输出1\n定义K：\n    其p = 1\n令物 = （新建K）\n"
    for vals1, vals2 in (("F，1，2", "F，9，8"), ("1，F，2", "9，F，8"), ("物，1，2", "物，9，2"), ("K，1，F", "K，2，F"), ("1，2，物", "3，4，物"), ("F，物，K", "F，物，K")):
        d1 = "【" + "，".join("“%s” = %s" % (k, v) for k, v in zip("abc", vals1.split("，"))) + "】"
        d2 = "【" + "，".join("“%s” = %s" % (k, v) for k, v in zip("cab", vals2.split("，"))) + "】"
        for op in ("（显示：甲 为 乙）", "（显示：甲 == 乙）", "（显示：以【乙】（包含：甲））", "（显示：以【1，乙】（寻找：甲））", "（显示：以【【乙】】（包含：【甲】））"):
            others.append(("uncomparable-in-dict", unc + "令甲 = %s\n令乙 = %s\n%s\n0\n" % (d1, d2, op)))
    # JSON documents with an object at every kind of position (top, in an object, in an array, in an array in an array, in an
    # object in an array, in an array in an object in an array ...), 2..8 keys each: parsed, then observed in every way
    for tag_, doc in json_docs(rnd):
        others.append(("json-shape:" + tag_, "导入《@JSON》\n令甲 = （解析JSON：“%s”）\n（显示：甲、（生成JSON：甲））\n0\n" % doc))
    others.append(("library-imported-twice", "导入《@JSON》\n导入《@文件》\n导入《@JSON》\n导入《@文件》\n（显示：（生成JSON：【“a” = 1】））\n0\n"))
    others.append(("library-imported-twice-then-error", "导入《@JSON》\n导入《@JSON》\n（解析JSON：“{”）\n"))
    for tag, src in others:
        cases.append(dict(id=len(cases), src=src, n=N * 4)); meta.append((tag, None))
    res = common.run_harness(ctx, znh, "repeat", cases, timeout=2500, args=["-t", "120"])
    runs = 0
    for r in res:
        tag, v = meta[r["id"]]
        src = cases[r["id"]]["src"]
        if r["obs"] != "done":
            common.report(ctx, "%s:%s" % (tag, r["obs"]), "repeat driver: %s %s" % (r["obs"], r.get("detail", "")[:300]), dict(source=src)); continue
        runs += cases[r["id"]]["n"]
        if r["distinct"] != 1:
            common.report(ctx, "%s:nondeterministic" % tag, "%d distinct outcomes in %d runs of the same program (counts %s)" % (r["distinct"], cases[r["id"]]["n"], r["counts"]),
                          dict(source=src, outcomes=r["records"][:3]))
            continue
        if (tag.startswith("json-shape") or tag in ("json-parse-order", "object-defaults", "dict-of-dicts", "literal-repeated-key")) and r["records"][0]["obs"] != "value":
            raise common.NoVerdict("program '%s' of the repetition family does not run: %s" % (tag, r["records"][0].get("msg")))
        if tag == "dicteq":
            rec = r["records"][0]
            if rec["obs"] != "value" or len(rec["display"]) != 1:
                common.report(ctx, "dicteq:did-not-run", "%s %s" % (rec["obs"], rec.get("msg")), dict(source=src)); continue
            row = rec["display"][0]
            eq = v["eq"]
            want = [eq, not eq, eq, not eq, eq, None, eq, eq]
            got = [x.get("v") for x in row]
            bad = [i for i in range(8) if i != 5 and got[i] != want[i]]
            f = row[5].get("s")
            if eq and f not in ("1", "2"): bad.append(5)
            if not eq and f != "-1": bad.append(5)
            if bad:
                names = ["为", "不为", "==", "/=", "包含", "寻找", "包含(nested)", "为(nested)"]
                common.report(ctx, "dicteq:wrong:" + names[bad[0]], "%s vs %s: contents-only equality is %s; %s answered %s" % (dlit(v["k1"], v["v1"]), dlit(v["k2"], v["v2"]), eq, names[bad[0]], row[bad[0]]),
                              dict(source=src, display=row))
    # ---- (5) values built from external data: the same HTTP request served repeatedly (site kind "collectsort")
    ktxt, kinfo = common.tlc(ctx, "ZnMapIter", "MC_ZnMapIter_dev_sortfold.cfg", workers=2, timeout=300, allow_violation=True)
    if not kinfo["violated"]:
        raise common.NoVerdict("sensitivity: the deviation kind collectsortfold was NOT refuted by TLC")
    echo = "输入当前请求\n输出【“q” = 当前请求之查询参数，“h” = 当前请求之头部】\n"
    pools = [["a", "b", "c"], ["tag", "Tag", "TAG", "b"], ["x-id", "X-Id", "X-ID", "accept"], ["k", "K"], ["é", "É", "e"]]
    hcases = []
    for names in pools:
        for k in range(2 if ctx.tier == "quick" else 6):
            ns = names[:]; rnd.shuffle(ns)
            target = "http://example.com/p?" + "&".join("%s=%d" % (n, i) for i, n in enumerate(ns) if n.isascii())
            headers = [[n if n.isascii() else "X-" + str(i), "v%d" % i] for i, n in enumerate(ns)]
            hcases.append(dict(id=len(hcases), target=target, headers=headers, src=echo, n=N * 2))
    bodyecho = "输入当前请求\n输出【“b” = 当前请求之内容】\n"
    for tag_, doc in json_docs(rnd):
        if tag_.endswith(("/3", "/8")):
            hcases.append(dict(id=len(hcases), target="http://example.com/p", headers=[], src=bodyecho, n=N * 2, body=doc))
    hres = common.run_harness(ctx, znh, "httprepeat", hcases, timeout=900)
    for r in hres:
        c = hcases[r["id"]]
        if r["obs"] != "done":
            common.report(ctx, "http:%s" % r["obs"], "httprepeat driver: %s" % r.get("detail", ""), dict(case=c)); continue
        runs += c["n"]
        if r["distinct"] != 1:
            common.report(ctx, "http:nondeterministic", "the same request %s (headers %s) got %d distinct answers in %d runs: %s" % (c["target"], c["headers"], r["distinct"], c["n"], r["records"][:2]),
                          dict(case=c, answers=r["records"][:3], counts=r["counts"]))
    # ---- (6) nothing depends on what the process executed BEFORE: the corpus of (4) plus programs in which a library call is
    # refused / fails part-way and is followed by a call that succeeds, executed round after round in ONE process, every round in another order
    def guarded(call):
        return "如何试？\n    输出%s\n    拦截异常：\n        输出“refused”\n" % call
    hist = [
        ("generate-refused-then-generate", "导入《@JSON》\n" + guarded("（生成JSON：【“x” = 1，“y” = 1*10^308 * 10】）") + "（显示：（试））\n（显示：（生成JSON：【“a” = 1，“b” = 【2，3】】））\n0\n"),
        ("generate-refused-deep", "导入《@JSON》\n" + guarded("（生成JSON：【“p” = 【1，2，【“q” = “text”，“r” = 【1*10^308 * 10】】】】）") + "（显示：（试））\n0\n"),
        ("generate-only", "导入《@JSON》\n（显示：（生成JSON：【“k” = “v”，“n” = 【1，2，3】】））\n0\n"),
        ("generate-list-only", "导入《@JSON》\n（显示：（生成JSON：【“m” = 【“z” = 空，“t” = 真】】））\n0\n"),
        ("parse-fails-then-parse", "导入《@JSON》\n" + guarded("（解析JSON：“{\"a\":[1,2,{\"b\":”）") + "（显示：（试））\n（显示：（解析JSON：“{\"c\":[1,{\"d\":2}]}”））\n0\n"),
        ("parse-only", "导入《@JSON》\n（显示：（解析JSON：“{\"e\":{\"f\":[true,null]}}”））\n0\n"),
        ("format-fails-then-format", guarded("“{#.2}-{}-{” % 【1，2】") + "（显示：（试））\n（显示：“{#.2}|{}” % 【1.5，“s”】）\n0\n"),
        ("format-only", "（显示：“<{#+}>{}” % 【2，【1】】）\n0\n"),
        ("text-methods-fail-then-work", guarded("以“abc”（取样：2、9）") + "（显示：（试））\n（显示：以“a,b,c”（分隔：“,”））\n（显示：以【“x”，“y”】（拼接：“-”））\n0\n"),
        ("uncaught-error-in-call", "如何深？\n    输入层\n    如果层 == 0：\n        输出1 / 0\n    输出（深：层 - 1）\n（显示：“start”）\n（深：4）\n"),
        ("caught-error-in-call", "如何深？\n    输入层\n    如果层 == 0：\n        输出1 / 0\n    输出（深：层 - 1）\n如何护？\n    输出（深：3）\n    拦截异常：\n        输出其内容\n（显示：（护））\n0\n"),
        ("custom-exception-uncaught", "定义错：\n    其内容 = “c”\n抛出错：“m”！\n"),
        ("display-many", "（显示：【1，【2，【3】】】、【“a” = 【“b” = 1】】、“t”、真、空、1.5）\n0\n"),
        ("random-untouched", "令甲 = 【】\n令数 = 0\n每当数 < 5：\n    数 = 数 + 1\n    以甲（后增：数 * 数）\n（显示：甲、以甲（逆序）、以甲（合并：【0】））\n0\n"),
        # in-place number methods on values that were bound WITHOUT a copy (inputs of a method, 得到, literals used directly): whatever they
        # change belongs to this execution
        ("incr-on-input-bound-to-literal", "如何加一？\n    输入数\n    以数（自增：1）\n    输出数\n（显示：（加一：7）、（加一：7）、7、7 + 0）\n0\n"),
        ("incr-on-literal-receiver", "令数 = 0\n每当数 < 3：\n    数 = 数 + 1\n    （显示：以100（自增：1）、以2.5（自减：1）、100）\n0\n"),
        ("incr-on-yield-name", "如何取？\n    输出42\n（取），得到果\n（显示：果、以{（取）}（自增：1）、（取）、42）\n0\n"),
        ("literals-only", "（显示：7、0、1、42、100、255、256、2.5、7 + 1、【7，42】）\n0\n"),
        ("incr-on-predefined", "（显示：以数值（自增：5）、数值）\n0\n"),
        ("file-read-missing", "导入《@文件》\n" + guarded("（读取文件：“/nonexistent/无此文件”）") + "（显示：（试））\n0\n"),
    ]
    ocorpus = [(t, sr) for t, sr in others] + hist
    ocase = dict(id=0, srcs=[sr for _, sr in ocorpus], rounds=8 if ctx.tier == "quick" else 40, seed=ctx.seed)
    ores = common.run_harness(ctx, znh, "orderrepeat", [ocase], timeout=1500, args=["-t", "600"])
    if len(ores) != 1 or ores[0]["obs"] != "done":
        common.report(ctx, "history:%s" % (ores[0]["obs"] if ores else "none"), "orderrepeat driver: %s" % (ores[0].get("detail", "")[:300] if ores else ""), dict(corpus=[t for t, _ in ocorpus]))
    else:
        runs += ores[0]["runs"]
        for dd in (ores[0]["differing"] or []):
            t, sr = ocorpus[dd["program"]]
            prevs = [ocorpus[vv["first_seen"][2]][0] if vv["first_seen"][2] >= 0 else "(nothing)" for vv in dd["variants"]]
            common.report(ctx, "history:%s:depends-on-earlier-executions" % t.split(":")[0], "program '%s' gave %d different outcomes in one process depending on what ran before it (first seen after: %s): %s" %
                          (t, len(dd["variants"]), prevs, [(vv["record"].get("display"), vv["record"].get("msg")) for vv in dd["variants"]][:2]), dict(source=sr, variants=dd["variants"][:3]))
    # ---- (7) programs made of several FILES: the import digraphs of ZnModule (with and without cycles, self-imports, shared modules),
    # each executed repeatedly from its main file - result, displayed lines and the error (code, message, line) are the same every time
    mtxt, _ = common.tlc(ctx, "ZnModule", "MC_ZnModule.cfg", timeout=900)
    mvecs = common.vectors(mtxt, "mod")
    cyc = [v for v in mvecs if v["res"] == "circular"]
    okv = [v for v in mvecs if v["res"] == "done"]
    msel = rnd.sample(cyc, min(len(cyc), 90 if ctx.tier == "quick" else 900)) + rnd.sample(okv, min(len(okv), 30 if ctx.tier == "quick" else 300))
    mcases = [dict(id=i, edges=v["edges"], main=v["main"], mods=["a", "b", "c"], extra="", more=True, repeat=N) for i, v in enumerate(msel)]
    mres = common.run_harness(ctx, znh, "module", mcases, timeout=2500, args=["-t", "60"])
    for r in mres:
        c = mcases[r["id"]]
        if r["obs"] != "done":
            common.report(ctx, "files:%s" % r["obs"], "module driver: %s %s" % (r["obs"], r.get("detail", "")[:300]), dict(case=c)); continue
        runs += N
        if r["distinct"] != 1:
            recs = r["records"][:2]
            common.report(ctx, "files:nondeterministic:%s" % msel[r["id"]]["res"], "import digraph %s (main imports %s): %d distinct outcomes in %d runs of the same files (counts %s): %s" %
                          (c["edges"], c["main"], r["distinct"], N, r["counts"], [(x.get("code"), (x.get("msg") or "")[-120:]) for x in recs]), dict(case=c, outcomes=recs, main=r.get("main")))
    cov = dict(traces_validated_against_impl=len(cases) + len(hcases), samples=[dict(dicteq_vector=ev[77]), dict(site_table=modelled[:3])],
               evaluations=runs, distinct_nontrivial=len(cases),
               rule="(1) TLC explores every iteration order of every modelled loop kind over all maps with <=3 entries: the result must equal the canonical order's "
                    "(Confluent); the named deviations (first-failure-wins, ordered append) are refuted by TLC in the same run (sensitivity). (2) static inventory of "
                    "range-over-map statements (go/types) with a hash of each loop's text must equal the site table of the spec. (3) all %d ordered pairs of "
                    "dictionaries over <=3 keys x 2 values x all insertion orders: 为/不为/==//=/包含/寻找 (also nested) must equal contents-only equality in "
                    "each of %d repetitions. (4) JSON parse order, object defaults, nested dictionaries, literals repeating a key, error messages: %d repetitions must be one behaviour. "
                    "(5) the same HTTP request (query parameters / headers whose names differ only in case, shuffled) served %d times through ZnHttpHandler: one answer; "
                    "the site is modelled as collect-then-stable-sort, whose non-injective-key deviation TLC refutes. (6) history independence: the corpus of (4) plus 20 programs in which a library call "
                    "(JSON generation / parsing, formatting, text methods, file reading) is refused or fails part-way and is followed by calls that work, and programs that end in errors, executed 8 (40) rounds in ONE process, "
                    "every round in another order: per program one outcome, whatever ran before it. (7) multi-file programs: 120 (1200) import digraphs of ZnModule (three quarters of them with a cycle) executed %d times each from their main file: one outcome (result, displayed lines, error code / message / line)"
                    % (len(ev), N, N * 4, N * 2, N),
               sites_in_code=len(inv), sites_modelled=len(modelled), unmodelled_sites=unmodelled, stale_sites=stale, repetitions=N)
    if unmodelled or stale:
        # not a verdict by itself (the repeated executions above are): recorded, so that the new / changed loop gets classified
        ctx.notes.append("range-over-map sites differ from spec/ZnMapIter.tla SITES (classify them): unmodelled=%s stale=%s" % (unmodelled, stale))
    return cov, ["Go's randomised map iteration start is the only source of order nondeterminism exercised (each repetition draws fresh orders)",
                 "import-collision determinism is exercised by the C15 family",
                 "site kinds are assigned by reading each loop; a changed loop text (hash) forces re-classification"]
