"""Shared driver for the ZnEval machine (spec/ZnEval.tla): program builders, TLC run over a program
family, replay through `znh prog`, comparison of spec behaviour with the real interpreter.

The expected behaviour of every program (result / uncaught error with fault path and call chain,
display trace, executed-statement trace with call depth and scope depth, final state) is computed by
TLC from the TLA+ text; this module only maps statement paths to physical lines (via the renderer's
line map) and compares for equality."""
import json, os, common
from common import log

# ------------------------------------------------------------------ builders
def num(v): return {"k": "num", "v": v}
def s(v): return {"k": "str", "v": v}
def b(v): return {"k": "bool", "v": bool(v)}
NULL = {"k": "null"}
def var(n): return {"k": "var", "n": n}
def bin_(op, l, r): return {"k": "bin", "op": op, "l": l, "r": r}
def lst(*items): return {"k": "list", "items": list(items)}
def dct(keys, vals): return {"k": "dict", "keys": list(keys), "vals": list(vals)}
def idx(e, i): return {"k": "idx", "e": e, "i": i}
def mem(e, p): return {"k": "mem", "e": e, "p": p}
def this(p): return {"k": "this", "p": p}
def call(f, *args, y=""): return {"k": "call", "f": f, "args": list(args), "y": y}
def mcall(e, m, *args, y=None):
    r = {"k": "mcall", "e": e, "m": m, "args": list(args)}
    if y: r["y"] = y
    return r
def new(cls, *args): return {"k": "new", "cls": cls, "args": list(args)}
def asg(tgt, e): return {"k": "asg", "tgt": tgt, "e": e}

def decl(names, e, const=False):
    return {"k": "decl", "names": [names] if isinstance(names, str) else list(names), "const": const, "e": e}
def declblock(*pairs):
    """令： with one line per (names, e, const)"""
    return {"k": "declblock", "pairs": [{"k": "decl", "names": [n] if isinstance(n, str) else list(n), "const": bool(c), "e": e} for n, e, c in pairs]}
def ex(e): return {"k": "expr", "e": e}
def disp(*args): return ex(call("@display", *args))
def mark(m): return disp(s(m))
def if_(conds, blocks, els=None):
    return {"k": "if", "conds": list(conds), "blocks": [list(x) for x in blocks], "els": [list(els)] if els is not None else []}
def while_(c, body): return {"k": "while", "c": c, "body": list(body)}
def iter_(names, e, body): return {"k": "iter", "names": list(names), "e": e, "body": list(body)}
BREAK = {"k": "break"}
CONT = {"k": "cont"}
def ret(e): return {"k": "ret", "e": e}
def throw(cls, *args): return {"k": "throw", "cls": cls, "args": list(args)}
def catch(cls, body): return {"cls": cls, "body": list(body)}
def func(name, params, body, catches=(), mod=0): return {"name": name, "params": list(params), "body": list(body), "catches": list(catches), "mod": mod}
def cls(name, props, ctor=None, methods=()):
    return {"name": name, "props": [{"n": n, "e": e} for n, e in props], "ctor": [ctor] if ctor else [], "methods": list(methods)}
def prog(main, funcs=(), classes=(), catches=(), inputs=(), mods=(), imports=()):
    """mods: module files [{"name", "imports": [k..]}] (functions with mod=k live in mods[k-1]); imports: modules the main file imports"""
    p = {"funcs": list(funcs), "classes": list(classes), "main": list(main), "catches": list(catches), "inputs": list(inputs)}
    if mods:
        p["mods"] = list(mods); p["imports"] = list(imports)
    return p


# ------------------------------------------------------------------ value comparison
FAULT_MSGS = {  # real message -> spec fault kind (only used to sharpen the comparison when known)
}

def veq(sv, rv):
    """spec value (from TLC) vs real snapshot (from znh)."""
    if rv is None:
        return False
    t = sv.get("t")
    if t == "deep" or rv.get("t") == "deep":
        return True        # below the nesting bound of the spec's Deref (fuel 6) / of the harness snapshot (12): not compared
    if t == "num":
        return rv.get("t") == "num" and rv.get("s") == str(sv["v"])
    if t == "str":
        return rv.get("t") == "str" and rv.get("v") == sv["v"]
    if t == "faultmsg":
        return rv.get("t") == "str" and rv.get("v") != ""
    if t == "bool":
        return rv.get("t") == "bool" and rv.get("v") == sv["v"]
    if t == "null":
        return rv.get("t") == "null"
    if t == "list":
        return rv.get("t") == "list" and len(rv["v"]) == len(sv["v"]) and all(veq(a, c) for a, c in zip(sv["v"], rv["v"]))
    if t == "dict":
        return (rv.get("t") == "dict" and list(rv["k"]) == list(sv["k"]) and rv.get("n") == len(sv["k"])
                and all(veq(a, c) for a, c in zip(sv["v"], rv["v"])))
    if t == "obj":
        return rv.get("t") == "obj" and rv.get("cls") == sv["cls"]
    if t == "exc":
        return rv.get("t") == "exc"
    if t == "func":
        return rv.get("t") == "func"
    return False


def show(v):
    return json.dumps(v, ensure_ascii=False, separators=(",", ":"))


def compare(p, sv, rv):
    """-> list of (kind, detail) mismatches between spec vector sv and real result rv."""
    ms = []
    if rv["obs"] in ("timeout", "panic", "exit", "harness-error"):
        return [(rv["obs"], rv.get("detail", "")[:300])]
    if rv["obs"] == "error" and rv.get("errkind") == "syntax":
        return [("syntax-error", rv.get("msg", ""))]
    lmap = rv["lmap"]
    multi = bool(p.get("mods"))
    def modof(path):
        b = path[0]
        return p["funcs"][b - 1].get("mod", 0) if 1 <= b < 100 and b <= len(p["funcs"]) else 0
    def line(path):
        l = lmap.get(",".join(str(x) for x in path))
        return (modof(path), l) if multi else l          # (file, line) in a multi-file program
    # 1. executed-statement trace (control-flow path), call depth, scope-depth consistency
    st = sv["tr"]
    ev = rv.get("ev") or []
    if p.get("scaled"):
        # a SCALED program: the interpreter ran it with a much larger recursion depth than the specification (whose display trace,
        # result and end state do not depend on the depth - checked by the driver on several small depths); the statement trace scales
        st, ev = [], []
    # the definitions of a text (如何… / 定义… / 如何新建… headers) are statements of their own, executed when the text is loaded;
    # the control-flow trace of the model starts after them
    hdr = set((int(k[1:].split(":")[0]), v_) for k, v_ in lmap.items() if k.startswith("H"))
    ev = [e for e in ev if (e.get("m", 0), e["l"]) not in hdr]
    n = min(len(st), len(ev))
    div = None
    evl = (lambda e: (e.get("m", 0), e["l"])) if multi else (lambda e: e["l"])
    for i in range(n):
        if line(st[i]["p"]) != evl(ev[i]):
            div = i
            break
    if div is None and len(st) != len(ev):
        div = n
    if div is not None:
        want = line(st[div]["p"]) if div < len(st) else "end"
        got = evl(ev[div]) if div < len(ev) else "end"
        ms.append(("path-divergence", "statement #%d: spec executes line %s, interpreter executes line %s" % (div + 1, want, got)))
    lim = div if div is not None else n
    for i in range(lim):
        if ev[i]["f"] != st[i]["cd"]:
            ms.append(("call-depth", "at statement #%d (line %d): %d frames on the call stack, spec call depth %d"
                       % (i + 1, ev[i]["l"], ev[i]["f"], st[i]["cd"])))
            break
    seen = {}
    for i in range(lim):
        key = (st[i]["act"], st[i]["d"])
        if key in seen and seen[key] != ev[i]["d"]:
            ms.append(("scope-depth", "at statement #%d (line %d): scope depth %d, but %d at an earlier statement of the same block activation"
                       % (i + 1, ev[i]["l"], ev[i]["d"], seen[key])))
            break
        seen.setdefault(key, ev[i]["d"])
    # 2. display trace
    so, ro = sv["out"], rv.get("display") or []
    m = min(len(so), len(ro))
    for i in range(m):
        if len(so[i]) != len(ro[i]) or not all(veq(a, c) for a, c in zip(so[i], ro[i])):
            ms.append(("display", "display #%d: spec %s, interpreter %s" % (i + 1, show(so[i]), show(ro[i]))))
            break
    else:
        if len(so) != len(ro):
            ms.append(("display-count", "spec displays %d lines, interpreter %d (first extra/missing: %s)"
                       % (len(so), len(ro), show((so + ro)[m] if m < len(so + ro) else None))))
    # 3. outcome
    sr = sv["res"]
    if sr["k"] == "value":
        if rv["obs"] != "value":
            ms.append(("error-for-value", "spec result %s, interpreter error [%s] %s" % (show(sr["v"]), rv.get("code"), rv.get("msg"))))
        else:
            if not veq(sr["v"], rv["val"]):
                ms.append(("result", "spec result %s, interpreter %s" % (show(sr["v"]), show(rv["val"]))))
            e = rv.get("end") or {}
            if e and (e.get("frames") or e.get("depth") or e.get("live")):
                ms.append(("end-state", "after a successful run: %s (expected all zero)" % show(e)))
    else:
        if rv["obs"] != "error":
            ms.append(("value-for-error", "spec: uncaught %s (%s) at line %s; interpreter returned %s"
                       % (sr["cls"], sr["msg"], line(sr["path"]), show(rv.get("val")))))
        else:
            if not sr["builtin"] and sr["cls"] == "@exc":
                got = (rv.get("msg") or "")
                if not got.endswith("：" + sr["msg"]) and got != sr["msg"]:
                    ms.append(("error-message", "uncaught exception message: spec %r, interpreter %r" % (sr["msg"], got)))
            want = [line(pth) for pth in sr["chain"]]
            got = rv.get("chain") or []
            if multi:
                got = list(zip(rv.get("chainm") or [], got))
            if sr["arity"]:
                # fault while binding a call: an extra innermost entry for the half-made call is tolerated
                if got != want and got[:-1] != want:
                    ms.append(("error-chain", "fault line/call chain: spec %s (+ optional entry of the failed call), interpreter %s" % (want, got)))
            else:
                if want != got:
                    ms.append(("error-chain", "fault line/call chain: spec %s, interpreter %s" % (want, got)))
    return ms


# ------------------------------------------------------------------ run a family
def run_family(ctx, znh, progs, tag, workers=16, timeout=3000, wd=4.0):
    """progs: list of program dicts (ids assigned here). Returns stats; reports violations on ctx."""
    for i, p in enumerate(progs):
        p["id"] = i + 1
    pf = os.path.join(ctx.scratch, "progs-%s.ndjson" % tag)
    with open(pf, "w") as f:
        for p in progs:
            f.write(json.dumps(p, ensure_ascii=True, separators=(",", ":")) + "\n")
    txt, info = common.tlc(ctx, "MC_ZnEval", "MC_ZnEval.cfg", workers=workers, timeout=timeout, files=[(pf, "progs.ndjson")])
    vecs = {v["id"]: v for v in common.vectors(txt, "prog")}
    if len(vecs) != len(progs):
        raise common.NoVerdict("TLC produced %d vectors for %d programs (%s)" % (len(vecs), len(progs), tag))
    cases = [dict(id=p["id"], prog=p) for p in progs if not vecs[p["id"]]["skip"]]
    res = common.run_harness(ctx, znh, "prog", cases, args=["-t", str(wd)], timeout=3000)
    if len(res) != len(cases):
        raise common.NoVerdict("harness returned %d results for %d cases" % (len(res), len(cases)))
    byid = {p["id"]: p for p in progs}
    nm = 0
    stats = dict(programs=len(progs), skipped=len(progs) - len(cases), values=0, errors=0, statements=0, displays=0)
    for r in res:
        p = byid[r["id"]]
        sv = vecs[r["id"]]
        stats["values" if sv["res"]["k"] == "value" else "errors"] += 1
        stats["statements"] += len(sv["tr"])
        stats["displays"] += len(sv["out"])
        ms = compare(p, sv, r)
        for kind, detail in ms:
            nm += 1
            sig = "%s:%s:%s" % (tag, kind, p.get("tag", ""))
            common.report(ctx, sig, detail, dict(source=r.get("src"), spec=dict(res=sv["res"], out=sv["out"], tr=sv["tr"]),
                                                 real={k: r.get(k) for k in ("obs", "val", "display", "chain", "msg", "code", "end", "ev")},
                                                 mismatch=[kind, detail], program_tag=p.get("tag", "")))
    stats["mismatching"] = nm
    return stats, vecs, {r["id"]: r for r in res}
