"""C04 - unspaced text is tokenised exactly as documented (ZnLex, ZnNum, ZnIdRange)."""
import random, json, os, re, common, concurrent.futures as cf
from common import log


def run(ctx):
    znh = common.build_harness(ctx)
    rnd = random.Random(ctx.seed)
    quick = ctx.tier == "quick"
    # ------------------------------------------------------------ numeric identifiers
    ncfgs = ["MC_ZnNum_all.cfg", "MC_ZnNum_wmethod.cfg"] if quick else ["MC_ZnNum_all6.cfg", "MC_ZnNum_wmethod.cfg"]
    lcfgs = ["all3", "kw5", "kw2_4", "op4", "quote5", "kwatoms", "btop6"] if quick else ["all4", "kw", "kw2", "op", "quote", "kwatoms", "btop6"]
    def runtlc(job):
        mod, cfg = job
        return job, common.tlc(ctx, mod, cfg, workers=4, timeout=3000)
    jobs = [("ZnNum", c) for c in ncfgs] + [("ZnLex", "MC_ZnLex_%s.cfg" % c) for c in lcfgs]
    nv, lv = [], []
    with cf.ThreadPoolExecutor(max_workers=4) as ex:
        for (mod, cfg), (txt, info) in ex.map(runtlc, jobs):
            if mod == "ZnNum": nv += common.vectors(txt, "num")
            else: lv += common.vectors(txt, "lex")
    if len(nv) < 300000 or len(lv) < 50000:
        raise common.NoVerdict("too few vectors: num %d lex %d" % (len(nv), len(lv)))
    seen = set(); nv2 = []
    for v in nv:
        k = tuple(v["s"])
        if k not in seen:
            seen.add(k); nv2.append(v)
    nv = nv2
    cases = [dict(v, id=i, reps=[(i + ctx.seed) % 24, (i * 7 + 3 + ctx.seed) % 24] if quick else list(range(6))) for i, v in enumerate(nv)]
    # a seeded sample of the strings of numeric form is also EVALUATED, the same occurrence several times (loop passes; receiver of
    # 自增, argument of a method that changes its input, plain use): it denotes its number every time
    nums = [c for c in cases if c.get("c") == "number"]
    for c in rnd.sample(nums, min(len(nums), 4000 if quick else 40000)):
        c["eval"] = True
    res = common.run_harness(ctx, znh, "num", cases, timeout=3000)
    cls = {"number": 0, "name": 0, "reject": 0}
    for r in res:
        c = cases[r["id"]]
        cls[c["c"]] += 1
        if r["obs"] != "done":
            common.report(ctx, "num:%s" % r["obs"], "driver %s %s" % (r["obs"], r.get("detail", "")[:200]), dict(vector=c["s"])); continue
        for m in r.get("mism") or []:
            common.report(ctx, "num:%s" % m["kind"], "identifier %r (classes %s): spec %s%s" % (m["lit"], "".join(c["s"]), c["c"], (", value want %s got %s" % (m.get("want"), m.get("got"))) if m["kind"] == "value" else ""),
                          dict(vector=c["s"], spec=c["c"], mismatch=m))
    # ------------------------------------------------------------ identifier alphabet
    src = open(os.path.join(common.REPO, "pkg/syntax/id_range.go")).read()
    body = src[src.index("var idRange"):src.index("var IDContinue")]
    rows = [(int(a, 16), int(b, 16)) for a, b in re.findall(r"\{0x([0-9a-fA-F]+),\s*0x([0-9a-fA-F]+)\}", body)]
    if len(rows) < 100:
        raise common.NoVerdict("could not extract the interval table from id_range.go (%d rows)" % len(rows))
    ir = common.run_harness(ctx, znh, "idrange", [dict(id=0)])[0]
    tf = os.path.join(ctx.scratch, "idtable.ndjson"); rf = os.path.join(ctx.scratch, "idruns.ndjson")
    open(tf, "w").write("".join(json.dumps(dict(lo=a, hi=b)) + "\n" for a, b in rows))
    open(rf, "w").write("".join(json.dumps(dict(lo=a, hi=b)) + "\n" for a, b in ir["runs"]))
    common.corrupt_trace(rf, ["hi"])
    lf = os.path.join(ctx.scratch, "idlexruns.ndjson")
    open(lf, "w").write("".join(json.dumps(dict(lo=a, hi=b)) + "\n" for a, b in ir["lexruns"]))
    itxt, iinfo = common.tlc(ctx, "ZnIdRange", "ZnIdRange.cfg", workers=1, timeout=600, files=[(tf, "idtable.ndjson"), (rf, "idruns.ndjson"), (lf, "idlexruns.ndjson")], allow_violation=True)
    if iinfo["violated"] and (("Invariant LexAgrees") in itxt or ("invariant of LexAgrees is equal to FALSE") in itxt):
        tab = set(); got = set()
        for a, b_ in rows: tab.update(range(a, b_ + 1))
        for a, b_ in ir["lexruns"]: got.update(range(a, b_ + 1))
        want = (tab | {46, 42, 47, 37}) - {20196, 20026, 20197, 20854, 25110, 19988, 20043, 30340}
        diff = sorted(want ^ got)[:8]
        common.report(ctx, "idrange:lexer-view", "what the LEXER takes as a name character differs from the identifier table (+ . * / %%, - the one-character keywords), e.g. at %s (%d code points)" % (["U+%04X" % d for d in diff], len(want ^ got)),
                      dict(first_differences=["U+%04X" % d for d in diff]))
    elif iinfo["violated"]:
        which = [w for w in ("SameSet", "TableSortedDisjoint", "RowsWellFormed") if ("Invariant " + w) in itxt or ("invariant of " + w + " is equal to FALSE") in itxt]
        if not which:
            raise common.NoVerdict("ZnIdRange failed unexpectedly:\n" + common.tail(itxt))
        # for the message only (the verdict is TLC's): first differing code points
        tab = set(); got = set()
        for a, b_ in rows: tab.update(range(a, b_ + 1))
        for a, b_ in ir["runs"]: got.update(range(a, b_ + 1))
        diff = sorted(tab ^ got)[:8]
        common.report(ctx, "idrange:%s" % which[0], "IdInRange over all code points disagrees with the interval table (%s), e.g. at %s" % (which[0], ["U+%04X" % d for d in diff]),
                      dict(rows=len(rows), runs=len(ir["runs"]), first_differences=["U+%04X" % d for d in diff]))
    if any(ir["extra"]):
        common.report(ctx, "idrange:out-of-domain", "IdInRange is true for a negative / huge value: %s" % ir["extra"], dict(extra=ir["extra"]))
    # ------------------------------------------------------------ tokenisation
    seen = set(); lv2 = []
    for v in lv:
        k = tuple(v["s"])
        if k not in seen:
            seen.add(k); lv2.append(v)
    lv = lv2
    lcases = [dict(id=i, s=v["s"], reps=[0, 1 + (i + ctx.seed) % 23] if quick else [0, 1, 2, 5, 11]) for i, v in enumerate(lv)]
    lres = common.run_harness(ctx, znh, "lex", lcases, timeout=3000)
    nsoft = 0
    for r in lres:
        v = lv[r["id"]]
        if r["obs"] != "done":
            common.report(ctx, "lex:%s" % r["obs"], "driver %s on %s: %s" % (r["obs"], v["s"], r.get("detail", "")[:200]), dict(vector=v["s"])); continue
        for run_ in r["runs"]:
            if run_["status"] == "no-progress":
                common.report(ctx, "lex:no-progress", "NextToken made no progress on %r" % run_["src"], dict(vector=v["s"], run=run_)); continue
            if v["soft"]:
                nsoft += 1
                continue            # context the manual is silent about: totality only
            want_ok = v["ok"]
            got_ok = run_["status"] == "ok"
            wt = [(t["k"], t["a"], t["b"]) for t in v["toks"]]
            gt = [(t["k"], t["a"], t["b"]) for t in run_["toks"]]
            if want_ok != got_ok:
                common.report(ctx, "lex:%s" % ("accepted-invalid" if got_ok else "rejected-valid"), "%r: spec %s %s, lexer %s %s %s" % (run_["src"], "tokens" if want_ok else "error after", wt, run_["status"], run_["detail"], gt),
                              dict(vector=v["s"], run=run_, spec_tokens=v["toks"]))
            elif gt[:len(wt)] != wt or (want_ok and gt != wt):
                first = next((i for i in range(min(len(wt), len(gt))) if wt[i] != gt[i]), min(len(wt), len(gt)))
                kind = (wt[first][0] if first < len(wt) else "extra") + "->" + (gt[first][0] if first < len(gt) else "missing")
                common.report(ctx, "lex:tokens:%s" % kind, "%r: spec tokens %s, lexer tokens %s" % (run_["src"], wt, gt), dict(vector=v["s"], run=run_, spec_tokens=v["toks"]))
    cov = dict(traces_validated_against_impl=len(cases) + len(lcases) + 1,
               samples=[dict(numeric_vector=nv[1234]), dict(lex_vector=lv[4321]), dict(idrange_rows=len(rows), runs=len(ir["runs"]))],
               evaluations=len(cases) * 2 + len(lcases) * 2 + 0x110000, distinct_nontrivial=len(cases) + len(lcases),
               rule="numeric: every string of length <= %d over the 11 character classes {0,1,2-9,+,-,.,e,E,*,^,other} and the W-method suite P.Sigma^{<=3}.W of the 13-state "
                    "minimal specification DFA (complete for implementations with up to two extra states; W's separation of all state pairs and the access table are "
                    "checked by TLC): classification number/name/reject by exec.MatchIDType, value bit-exact against the correctly rounded double of the denoted decimal; "
                    "tokenisation: all strings <= %d over the full 27-symbol alphabet and <= %s over five reduced alphabets (keywords, keywords2, operators/comments, back-ticks with comment openers <= 6, "
                    "quotes/back-ticks), all strings <= 3 over {letter, blank, each of the 34 keywords of the manual as an atom} (every keyword cut out after / before / between names and other keywords), token kinds and spans of zh.NextToken vs the scanner machine; identifier alphabet: IdInRange over all 0x110000 code points, "
                    "run-length encoded, validated by TLC against the normal form of the interval table extracted from id_range.go; and the LEXER's own view (first token of `a` c `a` for every code point c) validated by TLC against table + {. * / %%} - the eight one-character keywords"
                    % (5 if quick else 6, 3 if quick else 4, "4-5" if quick else "5-6"),
               numeric_vectors=len(nv), numeric_classes=cls, lex_vectors=len(lv), lex_soft_runs=nsoft, idrange_rows=len(rows))
    return cov, ["decimal -> nearest double is computed with math/big (independent of strconv, which the code uses)",
                 "contexts on which the manual is silent (quote/back-tick glued to a name, back-tick escapes inside literals) are checked for totality only",
                 "glyph-level strings use the 11 keywords spellable in the 14-glyph alphabet; every one of the 34 keywords is exercised as an atom between letters, blanks and other keywords (kwatoms)"]
