"""C14 - text operations count characters; % formatting follows the directives (ZnText, ZnFmt)."""
import random, json, os, re, common
from common import log


def strs(v):
    return [x.get("v") for x in v["v"]] if v and v.get("t") == "list" else None


def run(ctx):
    znh = common.build_harness(ctx)
    rnd = random.Random(ctx.seed)
    quick = ctx.tier == "quick"
    ttxt, _ = common.tlc(ctx, "ZnText", "MC_ZnText.cfg", workers=8, timeout=900)
    tv = common.vectors(ttxt, "text")
    ftxt, _ = common.tlc(ctx, "ZnFmt", "MC_ZnFmt.cfg" if quick else "MC_ZnFmt_thorough.cfg", workers=16, timeout=2500)
    fv = common.vectors(ftxt, "fmt")
    if len(tv) < 70000 or len(fv) < 60000:
        raise common.NoVerdict("too few vectors: text %d fmt %d" % (len(tv), len(fv)))
    if quick:
        tv = rnd.sample(tv, 30000)
    tcases = [dict(id=i, t=v["t"], i=v["i"], j=v["j"], rep=(i + ctx.seed) % 12) for i, v in enumerate(tv)]
    tres = common.run_harness(ctx, znh, "text", tcases, timeout=2500)
    for r in tres:
        v = tv[r["id"]]
        def rep(kind, what):
            common.report(ctx, "text:%s" % kind, what, dict(classes=v["t"], i=v["i"], j=v["j"], result=r))
        if r["obs"] != "done":
            rep(r["obs"], "driver %s: %s" % (r["obs"], r.get("detail", "")[:200])); continue
        chars = r["chars"]
        txt = "".join(chars)
        if r["info_obs"] != "value":
            rep("info-error", "长度/字符组/分隔 on %r failed" % txt); continue
        info = r["info"]["v"]
        if info[0].get("s") != str(v["len"]) or info[3].get("s") != str(v["len"]):
            rep("length", "text %r (%d characters): 长度 %s 字数 %s" % (txt, v["len"], info[0].get("s"), info[3].get("s")))
        if strs(info[1]) != chars:
            rep("chararray", "text %r: 字符组 %s, characters %s" % (txt, strs(info[1]), chars))
        if v["len"] > 0 and strs(info[2]) != chars:
            rep("split-empty", "text %r: 分隔 by the empty text gave %s, characters %s" % (txt, strs(info[2]), chars))
        # slicing
        if v["r"]["k"] == "chars":
            want = "".join(chars[v["i"] - 1:v["j"]])
            if r["slice_obs"] != "value" or r["slice"].get("t") != "str" or r["slice"].get("v") != want:
                rep("slice", "text %r 取样(%d,%d): expected characters %r, got %s %s" % (txt, v["i"], v["j"], want, r["slice_obs"], json.dumps(r["slice"], ensure_ascii=False)))
        else:
            # outside 1<=i<=j<=len: an error (caught -> 空), or a contiguous run of WHOLE characters
            s = r["slice"]
            if r["slice_obs"] != "value":
                rep("slice-weak-uncatchable", "取样(%d,%d) on %r ended the program: %s" % (v["i"], v["j"], txt, r.get("slice_msg")))
            elif s.get("t") == "str":
                got = s["v"]
                ok = any("".join(chars[a:b]) == got for a in range(len(chars) + 1) for b in range(a, len(chars) + 1))
                if not ok:
                    rep("slice-splits-character", "取样(%d,%d) on %r returned %r, which is not a run of whole characters" % (v["i"], v["j"], txt, got))
            elif s.get("t") != "null":
                rep("slice-weak-type", "取样(%d,%d) on %r returned %s" % (v["i"], v["j"], txt, s))
        # split / join law per separator class
        for cl, sp in r["splits"].items():
            if cl not in v["t"]:
                continue
            sepc = sp["sep"]
            if sp["obs"] != "value":
                rep("split-error", "分隔 of %r by %r failed" % (txt, sepc)); continue
            parts, joined = sp["val"]["v"][0], sp["val"]["v"][1]
            if joined.get("v") != txt:
                rep("split-join", "Join(Split(%r, %r)) = %r" % (txt, sepc, joined.get("v")))
            # piece structure as the spec's, when the separator representative equals the characters of that class in the text
            if all(ch == sepc for ch, c2 in zip(chars, v["t"]) if c2 == cl):
                want = ["".join(chars[k] for k in idxs) for idxs in piece_indices(v["t"], cl)]
                if strs(parts) != want:
                    rep("split-pieces", "Split(%r, %r) = %s, spec pieces %s" % (txt, sepc, strs(parts), want))
    if quick:
        oneph = lambda v: len(v["tpl"]) > 6 or (len(v["tpl"]) >= 2 and v["tpl"][0] == "{" and v["tpl"][-1] == "}" and v["tpl"].count("{") == 1 and v["tpl"].count("}") == 1)
        fv = [v for v in fv if oneph(v)] + rnd.sample([v for v in fv if not oneph(v)], 40000)
    fcases = [dict(v, id=i, rep=(i + ctx.seed) % 10) for i, v in enumerate(fv)]
    for c in fcases: c.pop("k", None)
    fres = common.run_harness(ctx, znh, "fmt", fcases, timeout=2500)
    nruns = 0
    for r in fres:
        v = fv[r["id"]]
        if r["obs"] != "done":
            common.report(ctx, "fmt:%s" % r["obs"], "driver %s on template %s" % (r["obs"], v["tpl"]), dict(vector=v)); continue
        for run_ in r["runs"]:
            nruns += 1
            if v["soft"]:
                continue
            def rep(kind, what):
                common.report(ctx, "fmt:%s:%s" % (kind, run_["shape"]), what, dict(template=r["tpl"], spec=dict(err=v["err"], segs=v["segs"]), run=run_))
            if run_["obs"] not in ("value", "error"):
                rep(run_["obs"], "template %r: %s" % (r["tpl"], run_["obs"])); continue
            if "\x00HUGE:" in (run_.get("want") or "") and run_["obs"] == "error":
                continue
            if run_["want_err"]:
                if run_["obs"] != "error":
                    rep("accepted", "template %r with %s arguments must be an error (%s), got %r" % (r["tpl"], run_["shape"], v["err"] or "argument mismatch", run_.get("got")))
            else:
                if run_["obs"] != "value":
                    rep("rejected", "template %r with %s arguments: expected %r, got error %s" % (r["tpl"], run_["shape"], run_["want"], run_["msg"]))
                elif "\x00HUGE:" in run_["want"]:
                    pre = run_["want"].split("\x00HUGE:")[1]
                    g = run_.get("got") or ""
                    if pre.lstrip("+") not in g or "%!" in g:
                        rep("huge-precision", "template %r: neither an error nor a rendering of the number: %r" % (r["tpl"], g[:80]))
                elif run_.get("got") != run_["want"]:
                    rep("text", "template %r with %s arguments: expected %r, got %r" % (r["tpl"], run_["shape"], run_["want"], run_.get("got")))
    # ---- one text VARIABLE observed before / between / after text methods: every observation must describe one character sequence
    CALLS = ["转换数值", "去除空格", "转小写-英文", "转大写-英文", "替换：“1”、“2”", "分隔：“.”", "匹配：“1”", "匹配开头：“1”", "匹配结尾：“3”", "取样：1、2", "拼接：【“a”，“b”】", "格式化：【1】"]
    TEXTS = ["1.5*10^3", "2*^5", "12", "-3.5e2", "1*10^3甲", " ab ", "ABC", "甲乙丙", "a😀b", "", "e\u0301x", "{}", "1.5*10^3*10^2"]
    hcases = []
    for tx in TEXTS:
        for a in CALLS:
            for b_ in CALLS:
                if not quick or rnd.random() < 0.5:
                    hcases.append(dict(id=len(hcases), text=tx, calls=[a, b_]))
    hres = common.run_harness(ctx, znh, "texthist", hcases, timeout=1500)
    rows = []
    def sv(x): return x.get("v") if x.get("t") == "str" else None
    for r in hres:
        c = hcases[r["id"]]
        if r["obs"] != "value" or len(r["display"]) != len(c["calls"]) + 1:
            common.report(ctx, "texthist:%s" % r["obs"], "text %r, calls %s: the observing program did not complete: %s" % (c["text"], c["calls"], r.get("msg")), dict(case=c, source=r.get("src"))); continue
        for k, d in enumerate(r["display"]):
            chars = [sv(x) for x in d[2]["v"]] if d[2].get("t") == "list" else None
            split = [sv(x) for x in d[3]["v"]] if d[3].get("t") == "list" else None
            num = lambda x: int(x["s"]) if x.get("t") == "num" and x["s"].lstrip("-").isdigit() else -7
            joined = "".join(chars) if chars is not None and None not in chars else None
            row = dict(len=num(d[0]), count=num(d[1]), nchars=len(chars) if chars is not None else -7, nsplit=len(split) if split is not None else -8,
                       nslice=len(sv(d[4])) if sv(d[4]) is not None else -1, text_is_chars=(sv(d[5]) is not None and sv(d[5]) == joined),
                       split_is_chars=(split == chars), slice_is_chars=(sv(d[4]) == joined))
            # python str len counts code points = Zn characters
            rows.append((row, c, k, d))
    tf = os.path.join(ctx.scratch, "trace-zntext.ndjson")
    with open(tf, "w") as f:
        for row, c, k, d in rows:
            f.write(json.dumps(row) + "\n")
    common.corrupt_trace(tf, ["count", "nsplit"])
    ttxt, tinfo = common.tlc(ctx, "Trace_ZnText", "Trace_ZnText.cfg", workers=1, timeout=900, files=[(tf, "trace.ndjson")], allow_violation=True)
    if tinfo["violated"]:
        if not tinfo.get("postcondition_failed"):
            raise common.NoVerdict("Trace_ZnText failed unexpectedly:\n" + common.tail(ttxt))
        m = re.search(r"The depth of the complete state graph search is (\d+)", ttxt)
        upto = int(m.group(1)) - 1 if m else 0
        row, c, k, d = rows[min(upto, len(rows) - 1)]
        common.report(ctx, "texthist:inconsistent:%s" % (c["calls"][k - 1] if k > 0 else "initial"),
                      "text %r after calls %s: the observers describe no single character sequence: %s" % (c["text"], c["calls"][:k], json.dumps(row)),
                      dict(case=c, observation=d, row=row, line=upto + 1))
    cov_extra = dict(text_history_programs=len(hcases), text_history_rows=len(rows), text_history_accepted=not tinfo["violated"])
    cov = dict(traces_validated_against_impl=len(tcases) + nruns, samples=[tv[3], fv[7]],
               evaluations=len(tcases) * 7 + nruns, distinct_nontrivial=len(tcases) + len(fcases),
               rule="text: all texts <= 4 over 5 width classes (ASCII, 2-byte, CJK, astral, combining mark) x index pairs from {-6,-2,-1,0..6}: 长度/字数, 字符组, 分隔 by the "
                    "empty text, 取样 (characters i..j inside 1<=i<=j<=len; elsewhere a catchable error or a run of whole characters), Join(Split(s,sep),sep)=s and the "
                    "spec's pieces for one separator per class; format: all templates <= %d over {text,blank,{,},#,+,.,0,2,E,%%} (the blank as space, TAB, LF, CR, CRLF, U+3000, NBSP ...; every single placeholder with a directive of up to 5 (6) directive symbols; one-placeholder templates with each of 20 numbers incl. products with 100 next to a rounding tie, tiny and huge magnitudes) scanned by the spec machine (segments, "
                    "directive plan or error) x 4 argument shapes (numbers, other plain values, one short, one long): result text or error must agree; numeric digits are "
                    "strconv's for the verb/precision/sign the spec selected (quick: seeded 30000 text and 40000 template vectors)" % (5 if quick else 5),
               text_vectors=len(tcases), fmt_vectors=len(fcases), fmt_runs=nruns)
    cov.update(cov_extra)
    return cov, ["digit-exact rendering of arbitrary doubles is delegated to strconv.FormatFloat for the verb/precision the spec selects (DESIGN section 6)",
                 "{#.} {#E} {#%} (directive forms the manual does not list) are not demanded", "display form of numbers in {} is the interpreter's own String()"]


def piece_indices(classes, sepcl):
    out, cur = [], []
    for k, c in enumerate(classes):
        if c == sepcl:
            out.append(cur); cur = []
        else:
            cur.append(k)
    out.append(cur)
    return out
