"""C06 - names obey block scoping; constants and inputs cannot be reassigned.
 (1) substrate: ZnVM.tla open client - every history of length<=5 (quick) replayed through runtime.Scope and
     runtime.VM; deep invariant run with a VIEW; random long histories RECORDED from the real VM and validated
     by TLC against Trace_ZnVM.tla (trace validation);
 (2) programs: scoping family through the ZnEval machine."""
import random, json, os, common
from zneval import *


def scoping_programs(tier, rnd):
    P = []
    def add(tag, p):
        p["tag"] = tag; P.append(p)
    A, B = var("A"), var("B")
    # block kinds that open a scope
    def blk(kind, body):
        if kind == "if": return [if_([b(True)], [body])]
        if kind == "else": return [if_([b(False)], [[mark("no")]], body)]
        if kind == "while": return [decl("W", num(0)), while_(bin_("lt", var("W"), num(1)), [ex(asg(var("W"), num(1)))] + body)]
        if kind == "iter": return [iter_(["V"], lst(num(1)), body)]
        raise ValueError(kind)
    kinds = ["if", "else", "while", "iter"]
    for k in kinds:
        add("shadow-%s" % k, prog([decl("A", num(1))] + blk(k, [decl("A", num(2)), disp(A), ex(asg(A, num(3))), disp(A)]) + [disp(A), ex(num(0))]))
        add("outer-assign-%s" % k, prog([decl("A", num(1))] + blk(k, [ex(asg(A, num(5))), disp(A)]) + [disp(A), ex(num(0))]))
        add("use-after-block-%s" % k, prog(blk(k, [decl("B", num(2)), disp(B)]) + [mark("after"), disp(B), mark("dead")]))
        add("redeclare-inner-%s" % k, prog(blk(k, [decl("B", num(2)), decl("B", num(3)), mark("dead")]) + [mark("dead2")]))
        add("const-inner-%s" % k, prog(blk(k, [decl("B", num(2), const=True), ex(asg(B, num(3))), mark("dead")]) + [mark("dead2")]))
        for k2 in kinds:
            add("nested-%s-%s" % (k, k2), prog([decl("A", num(1))] + blk(k, [decl("A", num(2))] + blk(k2, [decl("A", num(3)), disp(A)]) + [disp(A)]) + [disp(A), ex(num(0))]))
    # a method / type name defined twice in one text: a redeclaration, whichever definition comes first - nothing runs
    F1, F2 = func("F", [], [ret(num(1))]), func("F", [], [ret(num(2))])
    add("method-defined-twice", prog([mark("a"), disp(call("F")), mark("b")], funcs=[F1, F2]))
    add("method-defined-twice-different-inputs", prog([mark("a"), disp(call("F", num(1))), mark("b")], funcs=[F1, func("F", ["X"], [ret(var("X"))])]))
    add("method-defined-twice-with-others-between", prog([mark("a"), disp(call("G")), mark("b")], funcs=[F1, func("G", [], [ret(num(3))]), F2]))
    add("method-defined-twice-never-called", prog([mark("a"), ex(num(0))], funcs=[F1, F2]))
    add("type-defined-twice", prog([mark("a"), ex(num(0))], classes=[cls("K", [("p", num(1))]), cls("K", [("q", num(2))])]))
    add("method-and-type-same-name", prog([mark("a"), ex(num(0))], funcs=[func("K", [], [ret(num(1))])], classes=[cls("K", [("p", num(1))])]))
    add("use-before-declare", prog([mark("a"), disp(A), decl("A", num(1))]))
    add("redeclare-same-block", prog([decl("A", num(1)), decl("A", num(2)), disp(A)]))
    add("redeclare-multi", prog([decl(["A", "B", "A"], num(1)), disp(A)]))
    add("redeclare-after-use", prog([decl("A", num(1)), disp(A), decl("A", num(2)), mark("dead")]))
    add("const-assign", prog([decl("A", num(1), const=True), ex(asg(A, num(2))), mark("dead")]))
    add("const-keeps-value", prog([decl("A", num(1), const=True), decl("B", num(0)), ex(asg(B, num(1))), disp(A, B), ex(num(0))],
                                 catches=[]))
    add("const-assign-caught-keeps-value", prog([disp(call("F")), mark("end")],
        funcs=[func("F", [], [decl("A", lst(num(1), num(2)), const=True), ex(asg(A, lst(num(9)))), ret(num(0))], [catch("@exc", [disp(A), ret(num(1))])])]))
    for g in ("@true", "@false", "@null", "@exc", "@display", "@num", "@random"):
        add("global-assign-%s" % g, prog([mark("a"), ex(asg(var(g), num(1))), mark("dead")]))
        add("global-declare-%s" % g, prog([mark("a"), decl(g, num(1)), mark("dead")]))
    add("input-assign", prog([disp(call("F", num(1)))], funcs=[func("F", ["X"], [ex(asg(var("X"), num(2))), ret(var("X"))])]))
    add("input-assign-2nd", prog([disp(call("F", num(1), num(2)))], funcs=[func("F", ["X", "Y"], [disp(var("X"), var("Y")), ex(asg(var("Y"), num(9))), ret(var("Y"))])]))
    add("yield-const", prog([ex(call("F", y="R")), disp(var("R")), ex(asg(var("R"), num(5))), mark("dead")], funcs=[func("F", [], [ret(num(4))])]))
    add("func-name-assign", prog([mark("a"), ex(asg(var("F"), num(5))), mark("dead")], funcs=[func("F", [], [ret(num(4))])]))
    add("class-name-assign", prog([mark("a"), ex(asg(var("K"), num(5))), mark("dead")], classes=[cls("K", [("p", num(1))])]))
    add("callee-locals-gone", prog([disp(call("F", num(1))), mark("m"), disp(var("L")), mark("dead")], funcs=[func("F", ["X"], [decl("L", num(7)), ret(var("L"))])]))
    add("callee-param-gone", prog([disp(call("F", num(1))), disp(var("X"))], funcs=[func("F", ["X"], [ret(var("X"))])]))
    add("recursion-own-locals", prog([disp(call("F", num(3))), ex(num(0))],
        funcs=[func("F", ["N"], [decl("L", bin_("mul", var("N"), num(10))), if_([bin_("gt", var("N"), num(0))], [[decl("R", call("F", bin_("sub", var("N"), num(1)))), disp(var("N"), var("L"), var("R"))]]), ret(var("L"))])]))
    add("handled-exception-locals-gone", prog([disp(call("F")), mark("m"), disp(var("L"))],
        funcs=[func("F", [], [decl("L", num(7)), if_([b(True)], [[decl("M2", num(8)), ex(idx(lst(), num(1)))]]), ret(num(0))], [catch("@exc", [mark("h"), ret(num(1))])])]))
    add("handled-exception-then-shadow-ok", prog([decl("A", num(1)), disp(call("F")), disp(A), if_([b(True)], [[decl("A", num(2)), disp(A)]]), disp(A), ex(num(0))],
        funcs=[func("F", [], [decl("A", num(7)), ex(idx(lst(), num(1))), ret(num(0))], [catch("@exc", [mark("h"), ret(num(1))])])]))
    add("loop-var-gone", prog([iter_(["K", "V"], lst(num(1)), [disp(var("K"), var("V"))]), disp(var("V"))]))
    add("loop-body-redeclare-each-pass", prog([iter_(["V"], lst(num(1), num(2)), [decl("T", var("V")), disp(var("T"))]), ex(num(0))]))
    add("handler-sees-inputs-not-body-locals", prog([disp(call("F", num(3)))],
        funcs=[func("F", ["X"], [decl("L", num(7)), ex(idx(lst(), num(1))), ret(num(0))], [catch("@exc", [disp(var("X")), ret(num(1))])])]))
    # ---- a call that fails while its inputs are being bound (wrong count) opens no scope that survives it:
    # the enclosing method catches the error and goes on; afterwards every depth is what it was
    for nargs, tag in ((0, "too-few"), (2, "too-many")):
        args = [num(5)] * nargs
        add("failed-binding-%s-caught-by-caller" % tag, prog(
            [decl("A", num(1)), disp(call("M", num(3))), disp(A), if_([b(True)], [[decl("X", num(2)), disp(var("X"))]]), decl("X", num(9)), disp(var("X")), disp(var("L")), mark("dead")],
            funcs=[func("G", ["P"], [ret(var("P"))]),
                   func("M", ["X"], [decl("L", num(7)), if_([b(True)], [[decl("T", num(8)), ex(call("G", *args)), mark("dead-m")]]), ret(num(0))],
                        [catch("@exc", [disp(var("X")), disp(var("T")), ret(num(1))])])]))
        add("failed-binding-%s-handler-sees-no-body-locals" % tag, prog(
            [disp(call("M", num(3))), mark("end"), ex(num(0))],
            funcs=[func("G", ["P"], [ret(var("P"))]),
                   func("M", ["X"], [decl("L", num(7)), ex(call("G", *args)), ret(num(0))], [catch("@exc", [disp(var("X")), disp(var("L")), ret(num(1))])])]))
        add("failed-binding-%s-in-loop" % tag, prog(
            [decl("A", num(1)), iter_(["V"], lst(num(1), num(2), num(3)), [disp(call("M", var("V"))), decl("B", var("V")), disp(A, B)]), disp(A), disp(B), mark("dead")],
            funcs=[func("G", ["P"], [ret(var("P"))]),
                   func("M", ["X"], [ex(call("G", *args)), ret(num(0))], [catch("@exc", [ret(var("X"))])])]))
    add("failed-ctor-binding-caught", prog(
        [decl("A", num(1)), disp(call("M")), disp(A), decl("Z", num(2)), disp(var("Z")), ex(num(0))],
        classes=[cls("K", [("p", num(1))], ctor=func("K", ["Q"], [ex(asg(this("p"), var("Q")))]))],
        funcs=[func("M", [], [decl("L", num(7)), ex(new("K")), ret(num(0))], [catch("@exc", [mark("h"), ret(num(1))])])]))
    # ---- an inner declaration legally shadows a module-level method / type of the same name: reads, assignments and
    # the end of the block all concern the inner name
    for k in kinds:
        add("shadow-method-name-%s" % k, prog(blk(k, [decl("F", num(2)), disp(var("F")), ex(asg(var("F"), num(3))), disp(var("F")), disp(bin_("add", var("F"), num(1)))]) + [disp(call("F")), ex(num(0))],
                                              funcs=[func("F", [], [ret(num(4))])]))
        add("shadow-type-name-%s" % k, prog(blk(k, [decl("K", lst(num(2))), disp(var("K")), disp(idx(var("K"), num(1)))]) + [decl("O", new("K")), disp(mem(var("O"), "p")), ex(num(0))],
                                            classes=[cls("K", [("p", num(1))])]))
    add("shadow-method-name-by-input", prog([disp(call("G", num(5))), disp(call("F")), ex(num(0))],
        funcs=[func("F", [], [ret(num(4))]), func("G", ["F"], [disp(var("F")), ret(bin_("add", var("F"), num(1)))])]))
    add("shadow-method-name-by-loop-var", prog([iter_(["F"], lst(num(7), num(8)), [disp(var("F"))]), disp(call("F")), ex(num(0))], funcs=[func("F", [], [ret(num(4))])]))
    add("shadow-method-name-by-yield", prog([ex(call("G", y="F")), disp(var("F")), ex(num(0))], funcs=[func("F", [], [ret(num(4))]), func("G", [], [ret(num(6))])]))
    add("shadow-method-name-top-level", prog([decl("F", num(2)), disp(var("F")), ex(num(0))], funcs=[func("F", [], [ret(num(4))])]))
    # 令： blocks - every line keeps its own kind (= or 恒为), in any order
    import itertools
    for pat in itertools.product([False, True], repeat=3):
        if not any(pat): continue
        names = ["P1", "P2", "P3"]
        blk_ = declblock(*[(n, num(10 + j), c) for j, (n, c) in enumerate(zip(names, pat))])
        for j, n in enumerate(names):
            add("declblock-%s-assign-%s" % ("".join("c" if c else "v" for c in pat), n),
                prog([blk_, disp(*[var(x) for x in names]), ex(asg(var(n), num(99))), disp(var(n)), ex(num(0))]))
    add("declblock-redeclare", prog([declblock(("P1", num(1), False), ("P1", num(2), True)), mark("dead")]))
    add("declblock-multi-names", prog([declblock((["P1", "P2"], lst(num(1)), True), ("P3", num(3), False)), ex(asg(var("P3"), num(4))), disp(var("P1"), var("P2"), var("P3")),
                                       ex(asg(var("P2"), num(5))), mark("dead")]))
    add("declblock-in-method", prog([disp(call("F")), ex(num(0))], funcs=[func("F", [], [declblock(("P1", num(1), False), ("P2", num(2), True)), ex(asg(var("P1"), num(3))),
                                                                                       ex(asg(var("P2"), num(4))), ret(num(0))], [catch("@exc", [ret(var("P1"))])])]))
    add("program-input-const", prog([disp(var("IN1"), var("IN2")), ex(asg(var("IN2"), num(9))), mark("dead")], inputs=["IN1", "IN2"]))
    # calls into ANOTHER MODULE FILE from inside open blocks of the caller - returning, faulting, throwing, called with a wrong
    # argument count - the failure handled by a method of the caller's own file: afterwards every name of every open block of the
    # caller (and its input) is what it was, a name of an inner block is still a redeclaration there, and the blocks close as usual
    from excfam import MODNAMES
    outcomes = {"returns": [ret(bin_("add", var("X"), num(1)))], "faults": [decl("Q", bin_("div", num(1), bin_("sub", var("X"), var("X")))), ret(num(0))],
                "throws": [throw("@exc", s("far"))], "nested-far-call-faults": [ret(call("far2", var("X")))]}
    for oc, fbody in outcomes.items():
        for k in kinds:
            for arity_ok in ((True, False) if oc == "returns" else (True,)):
                far = func("far", ["X"], json.loads(json.dumps(fbody)), mod=1)
                far2 = func("far2", ["X"], [decl("Z", idx(lst(num(1)), num(5))), ret(num(0))], mod=1)
                safe = func("safe", ["Y"], [decl("S1", num(8)), ret(call("far", var("Y")) if arity_ok else call("far", var("Y"), num(2)))], [catch("@exc", [disp(s("safe-h"), var("Y")), ret(num(-1))])])
                inner = [decl("L3", num(3)), decl("R", call("safe", var("P"))), disp(var("L1"), var("L2"), var("L3"), var("P"), var("R")),
                         decl("R2", call("safe", num(4))), disp(var("L3"), var("R2")), ex(asg(var("L1"), bin_("add", var("L1"), num(10))))]
                callerf = func("caller", ["P"], [decl("L1", bin_("add", var("P"), num(1)))] + blk("if", [decl("L2", num(2))] + blk(k, inner) + [disp(var("L1"), var("L2"))]) + [disp(var("L1"), var("P")), ret(var("L1"))])
                main = [decl("M", num(5))] + blk(k, [decl("N", num(6)), disp(call("caller", var("M"))), disp(var("M"), var("N"))]) + [disp(var("M")), disp(call("caller", num(7))), mark("end"), ex(var("L1"))]
                pr = prog(main, funcs=[callerf, safe, far, far2], mods=[dict(name=MODNAMES[0], imports=[])], imports=[1])
                add("cross-module-call-%s-in-%s%s" % (oc, k, "" if arity_ok else "-wrong-arity"), pr)
    return P


def run(ctx):
    znh = common.build_harness(ctx)
    rnd = random.Random(ctx.seed)
    # ---- (1a) open client: exhaustive histories replayed
    txt, info = common.tlc(ctx, "MC_ZnVM", "MC_ZnVM_quick.cfg", timeout=900)
    hv = common.vectors(txt, "hist")
    if len(hv) < 100000:
        raise common.NoVerdict("too few histories: %d" % len(hv))
    if ctx.tier == "quick":
        hv = rnd.sample(hv, 120000)
    cases = [dict(id=i, h=v["h"]) for i, v in enumerate(hv)]
    res = common.run_harness(ctx, znh, "scope", cases, timeout=1500)
    for r in res:
        if r["obs"] != "done":
            common.report(ctx, "substrate:%s" % r["obs"], r.get("detail", ""), dict(history=cases[r["id"]]["h"], result=r))
        for m in r.get("mism") or []:
            kind = m.split(":")[0].split(" ")[0] + ":" + m.split(" ")[3].split("(")[0]
            common.report(ctx, "substrate:%s" % kind, m, dict(history=cases[r["id"]]["h"]))
    # ---- (1b) deep invariant run (VIEW without the history)
    common.tlc(ctx, "MC_ZnVM", "MC_ZnVM_deep.cfg", timeout=900)
    # ---- (1c) trace validation of recorded random histories
    nh, ln = (40, 400) if ctx.tier == "quick" else (200, 2000)
    hres = common.run_harness(ctx, znh, "scopehist", [dict(id=i, seed=ctx.seed * 1000 + i, len=ln) for i in range(nh)])
    tf = os.path.join(ctx.scratch, "trace-znvm.ndjson")
    nlines = 0
    with open(tf, "w") as f:
        for r in sorted(hres, key=lambda r: r["id"]):
            if r["obs"] != "done":
                raise common.NoVerdict("scopehist driver: %s" % r)
            f.write(json.dumps(dict(o="reset", n="", c=False, v=0, r="ok", rv=0, depth=0, live=0)) + "\n"); nlines += 1
            for e in r["log"]:
                e.setdefault("rv", 0)
                f.write(json.dumps(e) + "\n"); nlines += 1
    common.corrupt_trace(tf, ["depth", "live"])
    ttxt, tinfo = common.tlc(ctx, "Trace_ZnVM", "Trace_ZnVM.cfg", workers=1, timeout=900, files=[(tf, "trace.ndjson")], allow_violation=True)
    accepted = not tinfo["violated"]
    if not accepted:
        # how far did the log match?  (diameter - 1 = consumed lines)
        import re
        m = re.search(r"The depth of the complete state graph search is (\d+)", ttxt)
        upto = int(m.group(1)) - 1 if m else -1
        lines = open(tf).read().splitlines()
        ctxlines = lines[max(0, upto - 3):upto + 1]
        if ("TraceAccepted" in ttxt or "ostcondition" in ttxt) and "Action property" not in ttxt and "Invariant" not in ttxt:
            common.report(ctx, "trace-rejected:%s" % (json.loads(lines[upto])["o"] if 0 <= upto < len(lines) else "?"),
                          "recorded VM history rejected by Trace_ZnVM at line %d: %s" % (upto + 1, lines[upto] if 0 <= upto < len(lines) else "?"),
                          dict(last_matched=ctxlines))
        else:
            raise common.NoVerdict("trace spec failed unexpectedly:\n" + common.tail(ttxt))
    # ---- (2) programs
    progs = scoping_programs(ctx.tier, rnd)
    stats, vecs, pres = run_family(ctx, znh, progs, "c06")
    pick = [p for p in progs if p["tag"] in ("nested-if-while", "handled-exception-locals-gone")]
    samples = [dict(history=hv[0]["h"]), dict(recorded_trace_lines=open(tf).read().splitlines()[1:4])] + \
              [dict(tag=p["tag"], source=pres[p["id"]].get("src"), spec_result=vecs[p["id"]]["res"], spec_display=vecs[p["id"]]["out"]) for p in pick]
    cov = dict(traces_validated_against_impl=len(cases) + nh + stats["programs"], samples=samples,
               evaluations=len(cases) + nlines + stats["programs"], distinct_nontrivial=len(cases) + len(progs),
               rule="(1a) all 391700 histories of length 5 over {begin,end,declare,declare-const,assign,lookup} x names {a,b,predefined g} x depth<=3 "
                    "from ZnVM (quick: seeded sample of 120000) replayed step by step through runtime.Scope and runtime.VM; (1b) the same client to "
                    "length 9 with a VIEW for the invariants/action properties; (1c) %d random histories of length %d RECORDED from the real VM and "
                    "validated by TLC against Trace_ZnVM (reply, scope depth and live-symbol count bound at every step; accepted=%s); "
                    "(2) %d scoping programs (shadowing in every block kind, nesting, use-before/after, redeclare, constants, inputs, 得到, "
                    "predefined names, recursion, exception exits; calls into another module file from inside open blocks - returning / faulting / throwing / wrong argument count, handled by a method of the caller's file - after which every open block of the caller still has its names) through the ZnEval machine" % (nh, ln, accepted, len(progs)),
               trace_lines=nlines, trace_accepted=accepted, programs_stats=stats)
    return cov, ["values in substrate histories are the step numbers (every write distinguishable)",
                 "predefined names are represented by one global 'g' at the substrate level and by the real predefined names in programs"]
