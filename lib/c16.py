"""C16 - executions are isolated from one another (spec/ZnIso.tla)."""
import random, json, os, subprocess, common
from common import log


def run(ctx):
    znh = common.build_harness(ctx)
    rnd = random.Random(ctx.seed)
    quick = ctx.tier == "quick"
    # ---- spec: intended design holds, the named deviation is refuted
    txt, _ = common.tlc(ctx, "ZnIso", "MC_ZnIso_seq.cfg", workers=4, timeout=300)
    seqs = common.vectors(txt, "iso")
    # ---- static binding: the package-level variables of the code = the classified table of the spec
    gtab = common.vectors(txt, "globals")
    if not gtab:
        raise common.NoVerdict("ZnIso did not emit its GLOBALS table")
    modelled = sorted("%s:%s" % (g["g"], g["type"]) for g in gtab[0]["t"])
    mr = common.build_harness(ctx, "maprange")
    pr = subprocess.run([mr, common.REPO, "globals"], capture_output=True, text=True, env=common.go_env())
    if pr.returncode != 0:
        raise common.NoVerdict("globals inventory failed (the tree must type-check with -tags verif): " + pr.stderr[-1500:])
    inventory = sorted("%s.%s:%s" % (e["pkg"], e["name"], e["type"]) for e in map(json.loads, pr.stdout.splitlines()))
    unmodelled_globals = [g for g in inventory if g not in modelled]
    stale_globals = [g for g in modelled if g not in inventory]
    ctxt, _ = common.tlc(ctx, "ZnIso", "MC_ZnIso_conc.cfg", workers=2, timeout=300)
    scheds = common.vectors(ctxt, "sched")
    c3txt, _ = common.tlc(ctx, "ZnIso", "MC_ZnIso_conc3.cfg", workers=2, timeout=300)
    scheds3 = common.vectors(c3txt, "sched")
    for cfg in ("MC_ZnIso_seq_ascoded.cfg", "MC_ZnIso_conc_ascoded.cfg"):
        t, i = common.tlc(ctx, "ZnIso", cfg, workers=2, timeout=300, allow_violation=True)
        if not i["violated"]:
            raise common.NoVerdict("sensitivity: %s (process-wide singletons / shared source field) was NOT refuted by TLC" % cfg)
    if len(seqs) != 1 + 13 + 169 + 2197 or len(scheds) != 6 or len(scheds3) != 90:
        raise common.NoVerdict("unexpected vector counts %d %d %d" % (len(seqs), len(scheds), len(scheds3)))
    # ---- sequential replay: every sequence, same interpreter and separate interpreters, each in a fresh process
    cases = []
    for v in seqs:
        if quick and len(v["seq"]) == 3 and rnd.random() > 0.3:
            continue            # quick: all sequences of <= 2 polluters, a seeded 40% of those of 3
        for same in (True, False):
            cases.append(dict(id=len(cases), seq=v["seq"], same=same))
    res = common.run_harness(ctx, znh, "iso", cases, timeout=2500, args=["-t", "20"])
    byid = {r["id"]: r for r in res}
    base = [r for r in res if cases[r["id"]]["seq"] == []]
    if not base or any(b["obs"] != "value" for b in base):
        raise common.NoVerdict("probe does not run in a pristine process: %s" % base[:1])
    pristine = json.dumps(base[0]["val"], sort_keys=True, ensure_ascii=False)
    # the pristine observation itself must be what the spec's Pristine cells mean
    want = ["0", "m", "GET", [], "undefined", "caught", ["Content-Type"], ["Content-Type"], "42", "1", "own-names", "early-report"]
    v0 = base[0]["val"]["v"]
    got0 = [v0[0].get("s"), v0[1].get("v"), v0[2].get("v"), v0[3].get("k"), v0[4].get("v"), v0[5].get("v"), v0[6].get("k"), v0[7].get("k"), v0[8].get("s"), v0[9].get("s"), v0[10].get("v") or v0[10], "early-report" if (v0[11].get("t") == "str" and "早三" in v0[11]["v"] and "早一" in v0[11]["v"]) else v0[11]]
    if got0[:11] == want[:11] and got0[11] != want[11]:
        # the twelfth observation involves executions even in the empty sequence (the early failing execution, then the probe programs, then
        # the rendering): a report that no longer describes the early execution is a violation, not a broken probe
        common.report(ctx, "seq:error-report-of-an-earlier-execution:no-polluter", "the error of an execution that failed three calls deep (in 早三, called from a type method, called from 早一), rendered after the probe programs "
                      "had run in the same process, reads: %s" % str(got0[11])[:400], dict(probe=base[0]))
    elif got0 != want:
        raise common.NoVerdict("pristine probe observation %s differs from the expected %s" % (got0, want))
    # vacuity guard: the polluters must do what the spec's Effect() says they do (run to completion; failDeep fails three calls
    # deep; redefLib is refused by the constructor guard)
    expect_out = {"failDeep": "error", "redefLib": "error", "redefLibAlias": "error"}
    for r in res:
        c = cases[r["id"]]
        outs = r.get("polluters") or []
        bad = [(p_, o_) for p_, o_ in zip(c["seq"], outs) if o_ != expect_out.get(p_, "ok")]
        if bad and len(c["seq"]) == 1 and c["same"]:
            ctx.notes.append("polluter %s ended with '%s' (expected '%s'): the sequences containing it may exercise less than the spec assumes" % (bad[0][0], bad[0][1], expect_out.get(bad[0][0], "ok")))
    for r in res:
        c = cases[r["id"]]
        if r["obs"] in ("panic", "timeout", "exit", "harness-error"):
            common.report(ctx, "seq:%s" % r["obs"], "%s after %s: %s" % (r["obs"], c["seq"], r.get("detail", "")[:200]), dict(case=c)); continue
        now = json.dumps(r.get("val"), sort_keys=True, ensure_ascii=False) if r["obs"] == "value" else "error: " + str(r.get("msg"))
        if now != pristine:
            # which cell changed
            names = ["数值", "异常-constructor", "library-constructor", "library-defaults", "declared-names", "fault-handling", "response-default-headers", "response-default-headers-json", "module-file-resolution", "数值-seen-by-input-variable-text", "names-declared-in-a-native-type-constructor", "error-report-of-an-earlier-execution"]
            changed = "probe-failed"
            if r["obs"] == "value":
                pv = base[0]["val"]["v"]; nv = r["val"]["v"]
                diff = [names[i] for i in range(len(names)) if json.dumps(pv[i], sort_keys=True) != json.dumps(nv[i], sort_keys=True)]
                changed = "+".join(diff)
            common.report(ctx, "seq:%s:%s" % (changed, "same-interpreter" if c["same"] else "separate-interpreters"),
                          "after %s the probe observes %s instead of the pristine %s" % (c["seq"], now[:300], pristine[:300]), dict(case=c, probe=r))
    # ---- concurrent replay through one playground handler, order enforced by the H4 gates
    ccases = []
    reps = 3 if quick else 20
    for v in scheds:
        for _ in range(reps):
            ccases.append(dict(id=len(ccases), s=v["s"], n=2))
    for v in (rnd.sample(scheds3, 30) if quick else scheds3):
        ccases.append(dict(id=len(ccases), s=v["s"], n=3))
    cres = common.run_harness(ctx, znh, "isoconc", ccases, timeout=2500, args=["-t", "30", "-j", "8"])
    for r in cres:
        c = ccases[r["id"]]
        order = " ".join("%d.%s" % (s["r"], s["a"]) for s in c["s"])
        if r["obs"] != "done":
            common.report(ctx, "conc:%s" % r["obs"], "schedule %s: %s at step %s" % (order, r["obs"], r.get("pos")), dict(case=c, result=r)); continue
        for i, body in enumerate(r["bodies"]):
            if body != "我是请求%d" % (i + 1):
                common.report(ctx, "conc:foreign-program", "schedule %s: request %d was answered with %r" % (order, i + 1, body), dict(case=c, result=r))
                break
    # ---- data races: same concurrent replay under the race detector (thorough tier)
    # (both tiers; the free-running requests use the predefined values, a library, the random source, exceptions and an
    # input-variable text, so that whatever is shared between requests is touched from several goroutines)
    rbin = common.build_harness(ctx, race=True)
    inp = os.path.join(ctx.scratch, "race-in.ndjson")
    nfree = 80 if quick else 400
    with open(inp, "w") as f:
        for c in ccases[:(12 if quick else 60)]:
            f.write(json.dumps(c) + "\n")
        # the gates synchronise the goroutines (no race is visible through them): free-running requests too
        for i in range(nfree):
            f.write(json.dumps(dict(id=100000 + i, s=[], n=2 + i % 4, free=True)) + "\n")
    p = subprocess.run([rbin, "isoconc", "-j", "4", "-t", "60"], stdin=open(inp), capture_output=True, text=True, cwd=ctx.scratch, env=dict(os.environ, GORACE="halt_on_error=0", VERIF_WORKER_STDERR="1", VERIF_SCRATCH=ctx.scratch))
    rres = [json.loads(l) for l in p.stdout.splitlines() if l.strip().startswith("{")]
    if p.returncode != 0 or len(rres) < nfree:
        raise common.NoVerdict("race-detector run: rc=%s, %d results: %s" % (p.returncode, len(rres), p.stderr[-800:]))
    for r in rres:
        if r.get("id", 0) >= 100000 and r.get("obs") == "done":
            for i, body in enumerate(r["bodies"]):
                if body != "我是请求%d" % (i + 1):
                    common.report(ctx, "conc:free-running:foreign-or-failed", "free-running request %d of %d was answered with %r" % (i + 1, len(r["bodies"]), body[:200]), dict(result=r))
                    break
    nrace = p.stderr.count("WARNING: DATA RACE")
    race = "%d data race reports in %d gated + %d free-running concurrent replays" % (nrace, len(rres) - nfree, nfree)
    if nrace:
        sites = sorted(set(l.strip() for l in p.stderr.splitlines() if "/pkg/" in l and ".go:" in l))[:6]
        common.report(ctx, "race:data-race", "Go race detector reported %d data races during the concurrent replay: %s" % (nrace, sites), dict(stderr=p.stderr[-3000:]))
    cov = dict(traces_validated_against_impl=len(cases) + len(ccases), samples=[dict(sequence=seqs[57]["seq"]), dict(schedule=scheds[3]["s"])],
               evaluations=len(cases) + len(ccases), distinct_nontrivial=len(seqs) + len(scheds) + len(scheds3),
               rule="sequential: all 2380 sequences P1;..;Pn (n<=3; quick: all of n<=2 and a seeded 30 percent of n=3) over 13 polluters (mutate 数值 in place, redefine the constructor of 异常, redefine a "
                    "library type's constructor - by its name and through a variable that holds the type -, mutate a library type's dictionary default through an instance, write into the headers a response constructor supplied, fail three calls "
                    "deep, declare names/methods/types, import libraries, run a FILE that imports a custom module file, run a FILE in another directory that imports a same-named module with other content, a request whose INPUT-VARIABLE TEXT mutates 数值, names declared inside the body of a redefined constructor of 异常), preceded by an execution that FAILS three calls deep and whose error is rendered only at the very end (it must still describe its own execution), each on ONE interpreter "
                    "object and on separate ones, each in a fresh process, followed by a probe that observes every cell: the observation must equal the probe's in a "
                    "pristine process. static: the go/types inventory of package-level variables must equal the classified GLOBALS table of the spec. concurrent: all 6 interleavings of bind-source/read-source of 2 requests (x%d) and %d of the 90 of 3 requests through one "
                    "ZnPlaygroundHandler, the order enforced by the H4 gates: every request must be answered with its own program's result. TLC checks Isolation / "
                    "OwnProgram on the intended design and refutes both on the named deviation 'ascoded' in the same run. race detector: %s" % (reps, 30 if quick else 90, race),
               race_detector=race)
    cov.update(globals_in_code=len(inventory), globals_modelled=len(modelled), unmodelled_globals=unmodelled_globals, stale_globals=stale_globals)
    if unmodelled_globals or stale_globals:
        # not a verdict by itself (the dynamic sequences above are): recorded, so that the new / re-typed variable gets classified
        ctx.notes.append("package-level variables differ from spec/ZnIso.tla GLOBALS (classify them): unmodelled=%s stale=%s" % (unmodelled_globals, stale_globals))
    return cov, ["data-race freedom is checked with the Go race detector on the concurrent replays (both tiers), not model-checked (DESIGN section 6)",
                 "the library type is the harness-side library exporting pkg/common's HTTP classes (stdlib/http does not compile)"]
