"""Grammar-covering program family for C03/C05: every statement kind, every expression form, program sections."""
import random
from zneval import *
import c02, c06, c07, c08, c09, excfam


def normalise(p):
    """fields the ZnGrammar spec reads: imports, getters, chain flags"""
    p.setdefault("imports", [])
    p.setdefault("inputs", [])
    for c in p["classes"]:
        c.setdefault("getters", [])
    def fix(e):
        if isinstance(e, dict):
            if e.get("k") == "mcall": e.setdefault("chain", False)
            e.pop("pre", None)
            for v in e.values(): fix(v)
        elif isinstance(e, list):
            for v in e: fix(v)
    fix(p)
    return p


def hand_programs():
    P = []
    def add(tag, p, imports=()):
        p["tag"] = tag; p["imports"] = list(imports); P.append(p)
    A, B = var("A"), var("B")
    add("imports", prog([disp(call("f", num(1)))]), imports=[dict(name="@JSON", lib=True, items=[]), dict(name="mod-a", lib=False, items=["f", "g"]), dict(name="x-y-z", lib=False, items=[])])
    add("import-only", prog([]), imports=[dict(name="@JSON", lib=True, items=["p"])])
    add("inputs-and-catch", prog([disp(var("IN1")), ret(var("IN2"))], catches=[catch("@exc", [ret(num(0))]), catch("E1", [mark("h"), ret(num(1))])], inputs=["IN1", "IN2"]))
    add("decl-forms", prog([decl("A", num(1)), decl(["A2", "B2", "C2"], lst()), decl("K", s("t"), const=True), decl("D", dct([], [])), decl("E", dct(["k1", "k2"], [num(1), lst(num(2))]))]))
    add("expr-precedence-braced", prog([ex(bin_("add", bin_("mul", A, num(2)), bin_("sub", B, num(1)))), ex(bin_("or", bin_("and", bin_("gt", A, num(1)), bin_("le", B, num(2))), bin_("xeq", A, B))),
                                       ex(bin_("neq", bin_("mod", A, num(2)), bin_("idiv", B, num(3)))), ex(bin_("xneq", A, NULL)), ex(bin_("ge", A, bin_("div", B, num(2)))), ex(bin_("lt", A, B)), ex(bin_("eq", A, B))]))
    add("comparisons-plain-operands", prog([ex(bin_(op, A, num(1))) for op in ("eq", "neq", "gt", "lt", "ge", "le", "xeq", "xneq")] +
                                           [ex(bin_(op, num(2), B)) for op in ("eq", "neq", "gt", "lt", "ge", "le")] +
                                           [if_([bin_("neq", A, num(1)), bin_("and", bin_("le", A, B), bin_("or", var("X1"), var("Y1")))], [[mark("a")], [mark("b")]]),
                                            while_(bin_("neq", idx(A, num(1)), s("t")), [BREAK]), ex(bin_("neq", mem(A, "p"), call("F")))]))
    # text literals that span several physical lines, followed on their closing line by more tokens of the same statement
    ML = s("l1\nl2\n\nl4")
    add("multiline-literals", prog([disp(ML, A), disp(A, ML, B), decl("L", lst(ML, num(2), s("x\ny"))), decl("D", dct(["k"], [ML])),
                                    if_([bin_("eq", A, ML)], [[mark("a")]], [mark("b")]), while_(bin_("neq", ML, B), [BREAK]),
                                    ex(bin_("add", ML, s("t"))), ex(mcall(A, "m", ML, num(1))), ex(asg(idx(A, num(1)), ML)), ret(ML)]))
    # operator chains whose grouping only the precedence table decides (rendered without braces by the MinBrace configuration)
    C, Dv = var("C"), var("D")
    def bn(op, l, r): return bin_(op, l, r)
    add("precedence-unbraced", prog([
        ex(bn("div", bn("div", A, B), C)), ex(bn("div", A, bn("div", B, C))), ex(bn("mul", bn("div", A, B), C)), ex(bn("div", A, bn("mul", B, C))),
        ex(bn("sub", bn("sub", A, B), C)), ex(bn("sub", A, bn("sub", B, C))), ex(bn("add", bn("sub", A, B), C)), ex(bn("sub", A, bn("add", B, C))),
        ex(bn("add", A, bn("mul", B, C))), ex(bn("mul", bn("add", A, B), C)), ex(bn("add", bn("mul", A, B), bn("mul", C, Dv))), ex(bn("mul", A, bn("add", B, C))),
        ex(bn("idiv", bn("mod", A, B), C)), ex(bn("mod", A, bn("idiv", B, C))), ex(bn("sub", bn("mul", A, B), bn("div", C, Dv))),
        ex(bn("gt", bn("add", A, B), bn("mul", C, Dv))), ex(bn("eq", bn("sub", A, B), C)), ex(bn("xeq", A, bn("add", B, C))),
        ex(bn("and", bn("gt", A, B), bn("lt", C, Dv))), ex(bn("or", bn("and", A, B), C)), ex(bn("or", A, bn("and", B, C))), ex(bn("and", bn("or", A, B), C)),
        ex(bn("and", A, bn("or", B, C))), ex(bn("or", bn("or", A, B), C)), ex(bn("or", A, bn("or", B, C))), ex(bn("and", bn("and", A, B), bn("and", C, Dv))),
        ex(bn("eq", bn("eq", A, B), C)), ex(bn("add", bn("add", bn("add", A, B), C), Dv)), ex(bn("div", bn("mul", bn("div", A, B), C), Dv)),
        if_([bn("or", bn("and", bn("ge", A, num(1)), bn("le", A, num(9))), bn("xneq", B, NULL))], [[mark("a")]])]))
    add("member-index-chains", prog([ex(idx(idx(A, num(1)), s("k"))), ex(idx(A, bin_("add", B, num(1)))), ex(mem(mem(A, "p"), "q")), ex(mem(idx(A, num(2)), "p")), ex(idx(mem(A, "p"), var("I"))),
                                     ex(asg(idx(A, num(1)), num(5))), ex(asg(mem(A, "p"), num(6))), ex(asg(idx(mem(A, "p"), s("k")), lst(num(1))))]))
    add("calls", prog([ex(call("F")), ex(call("F", num(1), s("x"), A)), ex(call("F", call("G", num(1)), y="R")), decl("X", call("F", lst(num(1), num(2)), dct(["a"], [num(1)]))),
                       ex(new("K")), decl("O", new("K", num(1), A)), ex(mcall(A, "m")), ex(mcall(A, "m", num(1), B)), ex(c08.chain(A, ("m", [num(1)]), ("n", []), ("o", [B]))),
                       ret(mcall(mcall(A, "m"), "n", num(2)))]))
    add("this-forms", prog([], classes=[dict(cls("K", [("p", num(1)), ("q", lst(num(1), num(2))), ("r", dct(["a"], [s("b")]))],
                                                 ctor=func("K", ["X", "Y"], [ex(asg(this("p"), var("X"))), ex(asg(idx(this("q"), num(1)), var("Y")))]),
                                                 methods=[func("m1", [], [ret(this("p"))]), func("m2", ["Z"], [ex(mcall(this("@self"), "m1")), ret(bin_("add", this("p"), var("Z")))],
                                                                                                       [catch("@exc", [ret(num(0))])])]),
                                             getters=[func("g1", [], [ret(this("p"))])])]))
    add("control", prog([if_([b(True)], [[mark("a")]]), if_([A, B], [[mark("a")], [mark("b")]], [mark("c"), mark("d")]),
                         while_(bin_("lt", A, num(3)), [ex(asg(A, bin_("add", A, num(1)))), if_([bin_("eq", A, num(2))], [[CONT]], [BREAK])]),
                         iter_([], A, [mark("x")]), iter_(["V"], A, [disp(var("V"))]), iter_(["K", "V"], A, [iter_(["W"], var("V"), [if_([var("W")], [[ret(var("K"))]])])]),
                         throw("@exc", s("m")), throw("E1", s("m"), num(2), A)]))
    add("nested-functions-and-handlers", prog([disp(call("F", num(1)))], funcs=[func("F", ["X"], [if_([var("X")], [[ret(num(1))]]), ret(call("G"))], [catch("@exc", [mark("h1")]), catch("E2", [ret(num(2))])]),
                                                                                 func("G", [], [throw("E2", s("x"))])], classes=excfam.CLASSES))
    # which 如果 does a 再如 / 否则 belong to?  the one at ITS OWN indentation - an inner statement that ends a branch block
    # (an inner 如果 without / with its own 否则, or a loop whose body ends with one) never takes it
    X, Y, Z = var("X"), var("Y"), var("Z")
    inners = {
        "if": lambda: [if_([Y], [[mark("i1")]])],
        "ifelse": lambda: [if_([Y], [[mark("i1")]], [mark("i2")])],
        "ifelif": lambda: [if_([Y, Z], [[mark("i1")], [mark("i3")]])],
        "while-if": lambda: [while_(Y, [if_([Z], [[BREAK]])])],
        "iter-if": lambda: [iter_(["V"], Y, [mark("b"), if_([Z], [[CONT]])])],
        "if-if": lambda: [if_([Y], [[mark("i0"), if_([Z], [[mark("i1")]])]])],
    }
    for iname, mk in inners.items():
        for arm in (1, 2):
            for cont in ("elif+else", "else", "elif"):
                conds = [X] + ([A] if arm == 2 or cont != "else" else [])
                if arm == 2 and cont != "else": conds = [X, A, B]
                blocks = [[mark("o%d" % (j + 1))] for j in range(len(conds))]
                blocks[arm - 1] = [mark("o%d" % arm)] + mk()
                els = [mark("oe")] if cont != "elif" else None
                if arm == len(conds) and els is None: continue      # nothing follows the inner statement at the outer level
                add("nest-%s-arm%d-%s" % (iname, arm, cont), prog([if_(conds, blocks, els), mark("after")]))
                add("nest-fn-%s-arm%d-%s" % (iname, arm, cont), prog([ex(call("F"))], funcs=[func("F", [], [if_(conds, blocks, els), ret(num(1))])]))
    # bodies of ONE statement after an 输入 line (function, method of a type, constructor, the program itself): dropping that one
    # line leaves a definition without a body (the corruption family of C03 / C05 always includes these)
    add("one-statement-bodies", prog([ret(var("IN1"))], inputs=["IN1"], funcs=[func("F", ["X"], [ret(var("X"))]), func("G", ["X", "Y"], [ret(var("Y"))], [catch("@exc", [ret(num(0))])])],
                                     classes=[dict(cls("K", [("p", num(1))], ctor=func("K", ["X"], [ex(asg(this("p"), var("X")))]),
                                                   methods=[func("m", ["Z"], [ret(var("Z"))])]), getters=[func("g", [], [ret(this("p"))])])]))
    # every combination of the program sections 导入 / 输入 / statements / 拦截 (each absent, short, long), with and without definitions
    IMPS = {"i0": [], "i1": [dict(name="@JSON", lib=True, items=[])], "i2": [dict(name="mod-a", lib=False, items=["f", "g"]), dict(name="@JSON", lib=True, items=["p"]), dict(name="x-y-z", lib=False, items=[])]}
    INPS = {"n0": [], "n1": ["IN1"], "n3": ["IN1", "IN2", "IN3"]}
    BODS = {"b0": [], "b1": [ret(num(1))], "b3": [decl("A", num(1)), if_([A], [[mark("a")]]), disp(A)]}
    CATS = {"c0": [], "c1": [catch("@exc", [ret(num(0))])], "c2": [catch("E1", [mark("h")]), catch("@exc", [mark("h2"), ret(num(2))])]}
    for ik, iv in IMPS.items():
        for nk, nv in INPS.items():
            for bk, bv in BODS.items():
                for ck, cv in CATS.items():
                    if bk == "b0" and (ck != "c0" or nk != "n0"): continue        # a handler / an input line needs statements to belong to
                    for withdef in (False, True):
                        if withdef and not (ik == "i2" or nk == "n3"): continue
                        fs = [func("F", ["X"], [ret(var("X"))])] if withdef else []
                        add("sections-%s-%s-%s-%s%s" % (ik, nk, bk, ck, "-def" if withdef else ""), prog(json_copy(bv), funcs=fs, catches=json_copy(cv), inputs=list(nv)), imports=json_copy(iv))
    add("strings-and-lists", prog([decl("L", lst(s("a b"), s(""), lst(lst(num(1)), lst()), dct(["x"], [dct(["y"], [num(1)])]))), disp(s("含，标点：和、符号！"), num(-5), num(0))]))
    return P


def family(tier, rnd):
    P = hand_programs()
    P += [p for p in c02.special_programs() if not p["tag"].startswith(("elseif-cond", "elseif3-cond", "if-cond", "while-cond-later", "cond-", "elif-cond-", "while-cond-", "iter-declares", "iter-calls"))]
    P += [p for p in c06.scoping_programs(tier, rnd) if p["tag"] in ("nested-if-while", "recursion-own-locals", "handled-exception-locals-gone", "yield-const", "program-input-const", "loop-var-gone")]
    P += c07.object_programs()[:6]
    c8 = c08.family("quick", rnd)
    P += [p for p in c8 if p["tag"] in ("args-nested", "chain-calls", "chain-stmt", "chain-builtin", "this-restored-after-nested", "ctor-args", "mutual-7", "objects-isolated")]
    P += rnd.sample([p for p in c8 if p["tag"].startswith("random-")], 8 if tier == "quick" else 120)
    c9 = [p for p in c09.family("quick", rnd) if not p.get("mods")]      # multi-file programs are rendered file by file: not a C03 input
    P += rnd.sample(c9, 10 if tier == "quick" else 150)
    sk = list(c02.blocks(4, False, 3))
    for s_ in rnd.sample(sk, 12 if tier == "quick" else 200):
        P.append(c02.instantiate(s_, "fn", c02.sk_tag(s_)))
    out = []
    for i, p in enumerate(P):
        p = normalise(json_copy(p))
        p["id"] = i + 1
        out.append(p)
    return out


def json_copy(x):
    import json
    return json.loads(json.dumps(x))
