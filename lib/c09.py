"""C09 - exceptions reach the nearest matching handler and unwind cleanly (ZnEval, exception facet)."""
import random, itertools, json, common
from zneval import *
from excfam import *

HK = ["none", "match", "nomatch", "nomatch+match"]


def family(tier, rnd):
    P = []
    for depth in (0, 1, 2, 3):
        for rk in ("thr", "cust", "idx", "div"):
            sws = ["plain", "inwhile", "initer", "inif"] if depth <= 1 or tier != "quick" else ["plain", "initer"]
            for sw in sws:
                combos = list(itertools.product(HK, repeat=depth + 1))
                if depth == 3:
                    combos = [c for c in combos if sum(1 for x in c if x != "none") <= 2]
                if tier == "quick" and len(combos) > 24:
                    combos = rnd.sample(combos, 24)
                for hks in combos:
                    hes = ["ret", "noret", "rethrow", "noretx", "noretc"] if any(h != "none" for h in hks) else ["ret"]
                    if tier == "quick" and depth >= 2:
                        hes = [rnd.choice(hes)]
                    for he in hes:
                        P.append(chain_prog(depth, rk, sw, list(hks), he))
    # the raise point inside an expression position of every statement kind (the statement is abandoned half-way:
    # whatever it had opened - loop scope, operands, the half-made call - must be gone after the handler)
    for depth in (0, 1, 2):
        for rk in ("thr", "idx", "div", "cust"):
            for sw in EXPR_SITES:
                if depth == 0 and sw == "ret-value": continue
                for hks in ([["match"]] if depth == 0 else [["none"] * depth + ["match"], ["match"] + ["none"] * depth, ["none"] * (depth - 1) + ["match", "nomatch"]]):
                    for he in (["ret", "noret"] if tier != "quick" or depth < 2 else ["ret"]):
                        P.append(chain_prog(depth, rk, sw, list(hks), he))
    # across module boundaries: F1..Fd live in the main file or in module files (main -> 模甲 -> 模乙); raise and handlers anywhere
    LV = {1: [[1]], 2: [[0, 1], [1, 1], [1, 2]], 3: [[0, 1, 2], [1, 1, 2], [1, 2, 2], [0, 0, 1]]}
    for depth in (1, 2, 3):
        for levels in LV[depth]:
            for rk in ("thr", "idx", "div"):
                for sw in ("plain", "initer", "call-arg", "iter-target"):
                    combos = list(itertools.product(["none", "match"], repeat=depth + 1))
                    combos = [c for c in combos if 1 <= sum(1 for x in c if x != "none") <= 2]
                    if tier == "quick":
                        combos = rnd.sample(combos, min(len(combos), 3))
                    for hks in combos:
                        for he in (["ret", "rethrow"] if tier != "quick" else [rnd.choice(["ret", "noret", "rethrow"])]):
                            P.append(chain_prog(depth, rk, sw, list(hks), he, levels=levels))
    # an exception of a type DEFINED IN A MODULE FILE, raised there, handled by name in the main file or on the way - the main file
    # importing the whole module, or only the methods it calls (the type is then not among the main file's names)
    for depth in (1, 2, 3):
        for levels in LV[depth]:
            if not levels[depth - 1]: continue
            for sw in ("plain", "call-arg"):
                combos = [c for c in itertools.product(["none", "match", "nomatch"], repeat=depth + 1) if 1 <= sum(1 for x in c if x != "none") <= 2]
                if tier == "quick":
                    combos = rnd.sample(combos, min(len(combos), 4))
                for hks in combos:
                    for sel in (False, True):
                        P.append(chain_prog(depth, "custm", sw, list(hks), rnd.choice(["ret", "noret", "rethrow"]) if tier == "quick" else "ret", levels=levels, selective=sel))
    # DEEP call chains: thousands of nested calls, the raise at the bottom, the handler far above (or none); afterwards the caller's
    # 其, its variables and the call depth are what they were
    def deep_prog(n, where, big=0):
        deep = func("deep", ["N"], [if_([bin_("eq", var("N"), num(0))], [[throw("@exc", s("bottom"))]]), ret(bin_("add", call("deep", bin_("sub", var("N"), num(1))), num(1)))])
        guard = func("guard", ["N"], [decl("G", num(7)), ret(call("deep", var("N")))], [catch("@exc", [disp(s("guard-h"), this("@content")), ret(num(-1))])])
        kls = cls("DK", [("p", num(5))], methods=[func("m", ["N"], [decl("R", call("guard" if where == "guard" else "deep", var("N"))), disp(s("m-sees"), this("p")), ret(var("R"))],
                                                       [catch("@exc", [disp(s("m-h"), this("@content")), ret(num(-2))])] if where == "method" else [])])
        nn = num(n)
        if big: nn["big"] = big
        main = [decl("O", new("DK")), decl("M", num(3)), disp(mcall(var("O"), "m", nn)), disp(var("M")), disp(mcall(var("O"), "m", num(2))), mark("end"), ex(var("G"))]
        pr = prog(main, funcs=[deep, guard], classes=[kls], catches=[catch("@exc", [disp(s("main-h"), this("@content")), ret(num(-3))])] if where == "main" else [])
        pr["tag"] = "deep-%d-handled-in-%s" % (big or n, where)
        if big: pr["scaled"] = True
        return pr
    # the specification runs depths 3, 11, 30 (the driver checks that its display trace / result do not depend on the depth); the
    # interpreter runs the depth-30 program with 30 replaced by a depth in the thousands
    for where in ("guard", "method", "main"):
        for n in (3, 11, 30):
            P.append(deep_prog(n, where))
        for big in ((2300,) if tier == "quick" else (1500, 2300, 4500)):
            P.append(deep_prog(30, where, big=big))
    # special sites: constructor, handler block faulting, method on object with 其 of the caller, two handlers same class
    def add(tag, p):
        p["tag"] = tag; P.append(p)
    kls = cls("C", [("p", num(1)), ("q", lst(num(1)))], ctor=func("C", ["A"], [ex(asg(this("p"), var("A"))), if_([bin_("eq", var("A"), num(0))], [[throw("@exc", s("ctor"))]]), mark("ctor-ok")]),
              methods=[func("get", [], [ret(this("p"))]),
                       func("risky", ["D"], [mark("risky-in"), decl("T", bin_("div", num(10), var("D"))), ret(var("T"))], [catch("@exc", [mark("risky-h"), ret(this("@content"))])]),
                       func("outer", ["D"], [decl("U", mcall(var("O2"), "risky2", var("D"))), disp(s("outer-sees"), this("p")), ret(var("U"))]),
                       func("risky2", ["D"], [ret(bin_("div", this("p"), var("D")))])])
    add("ctor-throws-caught-in-main", prog([mark("a"), decl("O", new("C", num(0))), mark("dead")], classes=[kls], catches=[catch("@exc", [disp(this("@content")), ret(num(1))])]))
    add("ctor-throws-caught-in-fn", prog([disp(call("mk", num(0))), disp(call("mk", num(3))), mark("end")], classes=[kls],
        funcs=[func("mk", ["A"], [decl("O", new("C", var("A"))), ret(mcall(var("O"), "get"))], [catch("@exc", [mark("mk-h"), ret(num(-1))])])]))
    add("method-handler-this-is-exception", prog([decl("O", new("C", num(7))), disp(mcall(var("O"), "risky", num(0))), disp(mcall(var("O"), "risky", num(5))), disp(mcall(var("O"), "get"))], classes=[kls]))
    add("caller-this-restored", prog([decl("O", new("C", num(7))), decl("O2", new("C", num(9))),
        disp(mcall(var("O"), "outer", num(3))), mark("end")], classes=[kls]))
    add("handler-faults", chain_prog(1, "thr", "plain", ["match", "match"], "fault"))
    add("handler-faults-uncaught", chain_prog(2, "idx", "plain", ["none", "none", "match"], "fault"))
    add("two-handlers-same-class", chain_prog(1, "thr", "plain", ["none", "match+match"], "ret"))
    add("throw-in-handler-caught-by-caller", chain_prog(2, "thr", "plain", ["match", "none", "match"], "rethrow"))
    add("recursive-unwind", prog([disp(call("rec", num(4))), mark("end")],
        funcs=[func("rec", ["N"], [if_([bin_("eq", var("N"), num(0))], [[throw("@exc", s("bottom"))]]), decl("R", call("rec", bin_("sub", var("N"), num(1)))), ret(bin_("add", var("R"), num(1)))],
                    [catch("@exc", [disp(s("h"), var("N")), if_([bin_("lt", var("N"), num(2))], [[throw("@exc", s("up"))]]), ret(num(100))])])]))
    return P


def run(ctx):
    znh = common.build_harness(ctx)
    rnd = random.Random(ctx.seed)
    progs = family(ctx.tier, rnd)
    log("[C09] %d programs" % len(progs))
    stats, vecs, res = run_family(ctx, znh, progs, "c09")
    # the deep family: what the specification displays / yields must not depend on the depth (only then may the interpreter's run at
    # a depth in the thousands be compared with the specification's run at depth 30)
    for where in ("guard", "method", "main"):
        small = [vecs[p["id"]] for p in progs if p["tag"] in ("deep-%d-handled-in-%s" % (n, where) for n in (3, 11, 30))]
        if len(small) != 3 or any(json.dumps([v["out"], v["res"]["k"], v["res"].get("v")], sort_keys=True) != json.dumps([small[0]["out"], small[0]["res"]["k"], small[0]["res"].get("v")], sort_keys=True) for v in small):
            raise common.NoVerdict("the specification's outcome of the deep family (%s) depends on the depth: scaling is not justified" % where)
    pick = [p for p in progs if p["tag"].startswith("d2/div/plain")][:1] + [p for p in progs if p["tag"] == "recursive-unwind"]
    samples = [dict(tag=p["tag"], source=res[p["id"]].get("src"), spec_result=vecs[p["id"]]["res"], spec_display=vecs[p["id"]]["out"]) for p in pick]
    cov = dict(traces_validated_against_impl=stats["programs"] - stats["skipped"], samples=samples,
               evaluations=stats["programs"], distinct_nontrivial=len(set(p["tag"] for p in progs)),
               rule="raise kind {抛出异常, 抛出 custom class, index out of range, division by zero} x raise depth 0..3 x site {plain, in 每当, in 遍历, in 如果; inside the target expression of 遍历, the condition of 每当 / 如果 / 再如, a call argument, a declaration, a list literal, an 输出 value} "
                    "x handler placement per frame {none, matching, non-matching, non-matching then matching} x handler ending {输出, none, none with a valued last statement, raises again}, "
                    "each followed by probes (caller local, second identical call, callee local must be undefined); the same with the call chain crossing one or two module-file boundaries (main -> 模甲 -> 模乙, then a method of the main file must still be callable); plus constructor / handler-fault / "
                    "receiver-restoration / recursion programs; DEEP chains: a raise at the bottom of 2300 (thorough: up to 4500) nested calls handled in a guarding method / the calling type method / the main program, then the caller's 其, its variables, a second call and the call depth (the specification runs depths 3, 11, 30 - outcome independent of the depth, checked - the interpreter the same program at the large depth; display trace, result, final error and end state compared, the statement trace is not). The ZnEval machine (TLC) gives the expected statement trace, call depth at every "
                    "statement, display trace and outcome; the real run must match event by event. distinct = distinct matrix cells",
               **stats)
    return cov, ["message wording of built-in faults is not compared (any non-empty text)", "module files of the cross-module programs contain methods only (no module-level statements or types); custom exception types are raised in the main file only"]
