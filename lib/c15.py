"""C15 - modules load once, export read-only names, and cycles are reported (spec/ZnModule.tla)."""
import random, json, os, common
from common import log

SHORT = {"a": "甲", "b": "乙", "c": "丙", "d": "丁", "e": "戊"}


def strs(row):
    return [x.get("v") if isinstance(x, dict) else None for x in row]


def import_fault_family(ctx, znh, rnd):
    """a fault raised by a top-level statement of a module WHILE IT IS IMPORTED (ZnModuleFault): the bodies that ran before, and a report that
    names the faulting module's line and then the load stack.  Used by C15 (load order / once) and C18 (error location and chain)."""
    # ---- a fault raised by a top-level statement of a module WHILE IT IS IMPORTED (ZnModuleFault): the bodies that ran before, and a report
    # that names the faulting module's line and then the load stack - every module waiting in one of its import statements, with that
    # statement's line, the main file last
    ftxt, _ = common.tlc(ctx, "ZnModuleFault", "MC_ZnModuleFault.cfg", timeout=900)
    fvecs = [v for v in common.vectors(ftxt, "modfault") if v["res"] == "fault"]
    if len(fvecs) < 2000:
        raise common.NoVerdict("too few module-fault vectors: %d" % len(fvecs))
    fsel = fvecs if ctx.tier != "quick" else rnd.sample(fvecs, min(len(fvecs), 1500))
    fcases = [dict(id=i, edges=v["edges"], main=v["main"], mods=["a", "b", "c"], extra="", bad=v["bad"]) for i, v in enumerate(fsel)]
    fres = common.run_harness(ctx, znh, "module", fcases, timeout=2500)
    if len(fres) != len(fcases):
        raise common.NoVerdict("harness returned %d/%d" % (len(fres), len(fcases)))
    for r in fres:
        v = fsel[r["id"]]
        def rep(k2, what):
            common.report(ctx, "import-fault:%s" % k2, "import digraph %s (main imports %s), the body of module %s faults: %s" % (v["edges"], v["main"], v["bad"], what), dict(spec=v, result=r))
        if r["obs"] in ("panic", "timeout", "exit", "harness-error"):
            rep(r["obs"], "%s %s" % (r["obs"], r.get("detail", "")[:200])); continue
        d = [strs(x) for x in r.get("display") or []]
        bodies = [x[0][5:] for x in d if len(x) == 1 and x[0] and x[0].startswith("body-")]
        if r["obs"] != "error" or r.get("code") != 90:
            rep("not-reported", "spec: the run ends with the fault of that body after bodies %s; interpreter: %s [%s] %s, bodies %s" % (v["trace"], r["obs"], r.get("code"), r.get("msg"), bodies)); continue
        if bodies != v["trace"]:
            rep("bodies-before-fault", "bodies that ran before the fault %s, spec %s" % (bodies, v["trace"])); continue
        # expected chain, innermost first: (bad, line of the faulting statement), then every waiting module with the line of its import statement
        imps = lambda m: list(v["main"]) if m == "main" else sorted(set(e[1] for e in v["edges"] if e[0] == m))
        want = [(v["bad"], r["badline"])] + [(fr["m"], fr["at"]) for fr in reversed(v["report"][:-1])]
        got = list(zip(r.get("chainm") or [], r.get("chain") or []))
        if got != want and got != list(reversed(want)):       # (either order of the entries is accepted)
            rep("chain", "the report names %s (module, line; innermost first), the load stack of the specification is %s" % (got, want))
    return fcases


def run(ctx):
    znh = common.build_harness(ctx)
    rnd = random.Random(ctx.seed)
    txt, _ = common.tlc(ctx, "ZnModule", "MC_ZnModule.cfg", timeout=900)
    vecs = common.vectors(txt, "mod")
    txt2, _ = common.tlc(ctx, "ZnModule", "MC_ZnModule_missing.cfg", timeout=900)
    mvecs = common.vectors(txt2, "mod")
    # four imported modules: all 65536 digraphs (thorough) / 1500 TLC-drawn digraphs (quick) x four import lists of the main file
    txt4, _ = common.tlc(ctx, "MC_ZnModule4", "MC_ZnModule4_all.cfg", timeout=3000)
    vecs4 = common.vectors(txt4, "mod")
    if len(vecs4) != 65536 * 4:
        raise common.NoVerdict("unexpected number of four-module vectors: %d" % len(vecs4))
    if ctx.tier == "quick":
        vecs4 = rnd.sample(vecs4, 6000)        # TLC checked the invariants on all of them; a seeded sample is replayed
    if len(vecs) != 7680 or len(mvecs) < 500:
        raise common.NoVerdict("unexpected vector counts %d %d" % (len(vecs), len(mvecs)))
    cases, meta = [], []
    for v in vecs:
        cases.append(dict(id=len(cases), edges=v["edges"], main=v["main"], mods=["a", "b", "c"], extra="", more=True)); meta.append(("graph", v))
    for v in vecs4:
        cases.append(dict(id=len(cases), edges=v["edges"], main=v["main"], mods=["a", "b", "c", "e"], extra="", more=True)); meta.append(("graph4", v))
    # the same digraphs with a registered library imported by EVERY file: importing a library again from
    # another module changes nothing (twice in ONE file is a redeclaration error in file mode - not demanded either way)
    for v in rnd.sample(vecs, 1500 if ctx.tier == "quick" else len(vecs)):
        cases.append(dict(id=len(cases), edges=v["edges"], main=v["main"], mods=["a", "b", "c"], extra="", more=True, libs=True)); meta.append(("graph-libs", v))
    # a module file that consists of import statements only ("hollow"): its imports are loaded all the same, cycles through it reported
    for v in rnd.sample(vecs, 900 if ctx.tier == "quick" else len(vecs)):
        h = rnd.choice(["a", "b", "c"])
        cases.append(dict(id=len(cases), edges=v["edges"], main=v["main"], mods=["a", "b", "c"], extra="", hollow=[h])); meta.append(("graph-hollow", v))
    # the same digraphs under OTHER module names: one to four path segments, dots / digits / Latin letters / underscores in a
    # segment (导入“A-B-C” is A/B/C.zn whatever the segments look like)
    NAMEPOOL = ["报表.v2", "a.b", "工具箱", "m1", "模块_1", "汇总.2024", "v1.2-工具", "归档-汇总.2024", "甲-乙-丙-丁", "lib-Util", "数据.表-第1页", "x.zn.bak-y", "UPPER", "é-ü", "一-二.三-四"]
    for v in rnd.sample(vecs, 1200 if ctx.tier == "quick" else len(vecs)):
        nm = rnd.sample(NAMEPOOL, 3)
        cases.append(dict(id=len(cases), edges=v["edges"], main=v["main"], mods=["a", "b", "c"], extra="", more=True, names=dict(zip(["a", "b", "c"], nm)))); meta.append(("graph-names", v))
    for v in mvecs:
        cases.append(dict(id=len(cases), edges=v["edges"], main=v["main"], mods=["a", "b", "d"], extra="")); meta.append(("missing", v))
    # export / read-only / selective-import probes (a -> b chain)
    chain = dict(edges=[["a", "b"]], mods=["a", "b", "c"])
    probes = [
        ("assign-imported-method", dict(chain, main=["a"]), "甲方法 = 1\n", ("error", 44)),
        ("assign-imported-class", dict(chain, main=["a"]), "甲类 = 1\n", ("error", 44)),
        ("redeclare-imported", dict(chain, main=["a"]), "如果真：\n    令甲方法 = 1\n（显示：“shadow-ok”）\n", ("display", "shadow-ok")),
        ("private-variable-not-exported", dict(chain, main=["a"]), "（显示：甲私有）\n", ("error", 42)),
        ("transitive-not-visible", dict(chain, main=["a"]), "（显示：（乙方法））\n", ("error", 42)),
        ("class-usable", dict(chain, main=["a"]), "令物 = （新建甲类）\n（显示：物之名）\n", ("display", "甲")),
        ("selective-only-listed", dict(chain, main=["a"], sel={"a": ["甲方法"]}), "（显示：（甲方法））\n令物 = （新建甲类）\n", ("error", 42)),
        ("selective-listed-works", dict(chain, main=["a"], sel={"a": ["甲类"]}), "令物 = （新建甲类）\n（显示：物之名）\n", ("display", "甲")),
        ("library-missing", dict(chain, main=["a"]), "", None),
    ]
    for tag, g, extra, want in probes[:-1]:
        cases.append(dict(id=len(cases), edges=g["edges"], main=g["main"], mods=g["mods"], extra=extra, sel=g.get("sel", {}))); meta.append(("probe", (tag, want)))
    res = common.run_harness(ctx, znh, "module", cases, timeout=2500)
    if len(res) != len(cases):
        raise common.NoVerdict("harness returned %d/%d" % (len(res), len(cases)))
    outcomes = {"done": 0, "circular": 0, "missing": 0}
    for r in res:
        kind, v = meta[r["id"]]
        c = cases[r["id"]]
        if kind == "probe":
            tag, want = v
            d = [strs(x) for x in r.get("display") or []]
            if want[0] == "error":
                if r["obs"] != "error" or r.get("code") != want[1]:
                    common.report(ctx, "probe:%s" % tag, "expected error %d, got %s code %s display %s" % (want[1], r["obs"], r.get("code"), d[-2:]), dict(main=r.get("main"), result=r))
            else:
                if r["obs"] != "value" or not d or d[-1] != [want[1]]:
                    common.report(ctx, "probe:%s" % tag, "expected final display %r, got %s %s %s" % (want[1], r["obs"], r.get("msg"), d[-2:]), dict(main=r.get("main"), result=r))
            continue
        outcomes[v["res"]] += 1
        def rep(k2, what):
            common.report(ctx, "%s:%s" % (kind, k2), what, dict(edges=v["edges"], main_imports=v["main"], spec=dict(res=v["res"], trace=v["trace"]), result=r))
        if r["obs"] in ("panic", "timeout", "exit", "harness-error"):
            rep(r["obs"], "%s: %s" % (r["obs"], r.get("detail", "")[:200])); continue
        d = [strs(x) for x in r.get("display") or []]
        bodies = [x[0][5:] for x in d if len(x) == 1 and x[0] and x[0].startswith("body-")]
        want_bodies = [m for m in v["trace"] if m not in (c.get("hollow") or [])]
        if v["res"] == "done":
            if r["obs"] != "value":
                rep("error-for-ok", "spec: loads %s without error; interpreter: error [%s] %s" % (v["trace"], r.get("code"), r.get("msg"))); continue
            if bodies != want_bodies:
                rep("body-order", "bodies ran %s, spec %s" % (bodies, want_bodies))
            mods = c["mods"]
            if c.get("more"):
                # four more probe rows: sibling call from a handler block, building the module's type, a method of that type, a method
                # that calls what ITS module imported (the methods of the modules it imports, a library function)
                deps = lambda m: sorted(set(e[1] for e in v["edges"] if e[0] == m))
                uses = lambda m: "+".join(["T"] + [SHORT[y] + "-help" for y in deps(m)] + (['{"k":1}'] if c.get("libs") else []))
                for row, (what, ok) in zip(d[-4:], (("handler", lambda m: SHORT[m] + "-help"), ("construct", lambda m: SHORT[m]), ("type-method", lambda m: SHORT[m] + "-help"),
                                                    ("uses-its-imports", uses))):
                    want_row = [ok(m) if m in v["main"] else "ERR" for m in mods]
                    if row != want_row:
                        rep("home-module-" + what, "probe (%s) gave %s, spec %s: code of an imported module resolves its own module's names everywhere" % (what, row, want_row))
                d = d[:-4]
            probe = d[-1] if d else []
            want_probe = [(SHORT[m] + "-help") if m in v["main"] and m not in (c.get("hollow") or []) else "ERR" for m in mods]
            if probe != want_probe:
                bad = next((mods[i] for i in range(len(mods)) if i < len(probe) and probe[i] != want_probe[i]), "?")
                k2 = "home-module" if bad in v["main"] else "visibility"
                rep(k2, "probe calls gave %s, spec %s (imported method must be able to use its module's helper; non-imported names are undefined)" % (probe, want_probe))
        else:
            code = 63 if v["res"] == "circular" else 60
            if r["obs"] != "error":
                rep("%s-not-reported" % v["res"], "spec: %s error after bodies %s; interpreter finished with bodies %s" % (v["res"], v["trace"], bodies))
            elif r.get("code") != code:
                rep("%s-wrong-error" % v["res"], "spec: error %d after bodies %s; interpreter error [%s] %s" % (code, v["trace"], r.get("code"), r.get("msg")))
            elif bodies != want_bodies:
                rep("body-order-before-error", "bodies before the error %s, spec %s" % (bodies, want_bodies))
    # ---- trace validation: the loader's own events (script-frame pushes / pops of the VM through the H2 hook, body markers, outcome)
    # recorded while the digraph is loaded must be a behaviour of the ZnModule machine (Trace_ZnModule; silent steps for imports of
    # modules that are already loaded; invariants after every event)
    tsel = vecs if ctx.tier != "quick" else rnd.sample(vecs, 2500)
    tcases = [dict(id=i, edges=v["edges"], main=v["main"], mods=["a", "b", "c"], extra="", trace=True) for i, v in enumerate(tsel)]
    tres = common.run_harness(ctx, znh, "module", tcases, timeout=2500)
    if len(tres) != len(tcases):
        raise common.NoVerdict("harness returned %d/%d" % (len(tres), len(tcases)))
    tf = os.path.join(ctx.scratch, "trace-znmodule.ndjson")
    starts = []
    nlines = 0
    with open(tf, "w") as f:
        for r in sorted(tres, key=lambda r: r["id"]):
            if r["obs"] in ("panic", "timeout", "exit", "harness-error") or not r.get("mevs"):
                continue            # (reported by the replay above)
            c = tcases[r["id"]]
            starts.append((nlines + 1, r["id"]))
            f.write(json.dumps(dict(e="reset", m="", r="", edges=c["edges"], main=c["main"])) + "\n"); nlines += 1
            for e in r["mevs"]:
                f.write(json.dumps(dict(e=e["e"], m=e.get("m", ""), r=e.get("r", ""), edges=[], main=[])) + "\n"); nlines += 1
    common.corrupt_trace(tf, ["m"], to="zz")
    ttxt, tinfo = common.tlc(ctx, "Trace_ZnModule", "Trace_ZnModule.cfg", workers=1, timeout=1500, files=[(tf, "trace.ndjson")], allow_violation=True)
    if tinfo["violated"]:
        import re
        lines = open(tf).read().splitlines()
        inv = [w for w in ("BodyAtMostOnce", "ImportsBeforeBody", "CycleIffError", "NoErrorLoadsAllReachable") if ("Invariant " + w + " is violated") in ttxt]
        m = re.search(r'"rejected-at-line", (\d+)', ttxt)
        if inv:
            common.report(ctx, "trace:invariant:%s" % inv[0], "the recorded loader events violate %s" % inv[0], dict(tlc=common.tail(ttxt, 40)))
        elif tinfo.get("postcondition_failed") and m:
            at = int(m.group(1))
            st = max([x for x in starts if x[0] <= at] or [(1, 0)])
            c = tcases[st[1]]
            common.report(ctx, "trace:rejected:%s" % json.loads(lines[at - 1]).get("e"), "import digraph %s (main imports %s): the loader's event log is not a behaviour of ZnModule - rejected at event %d of the run: %s (run: %s)" %
                          (c["edges"], c["main"], at - st[0], lines[at - 1], [json.loads(x)["e"] + ":" + (json.loads(x)["m"] or json.loads(x)["r"]) for x in lines[st[0]:st[0] + 16]]), dict(case=c, log=lines[st[0] - 1:at + 2]))
        else:
            raise common.NoVerdict("Trace_ZnModule failed unexpectedly:\n" + common.tail(ttxt))
    cases = cases + import_fault_family(ctx, znh, rnd)
    # ---- export facet (ZnExport): import everything / every selective list of <= 4 names in every written order ----
    ntxt, _ = common.tlc(ctx, "ZnExport", "MC_ZnExport.cfg", timeout=600)
    ltxt, _ = common.tlc(ctx, "ZnExport", "MC_ZnExport_lib.cfg", timeout=600)
    evecs = [dict(v, lib=False) for v in common.vectors(ntxt, "exp")] + [dict(v, lib=True) for v in common.vectors(ltxt, "exp")]
    if len(evecs) != 882 + 116:
        raise common.NoVerdict("unexpected number of export vectors: %d" % len(evecs))
    ecases = [dict(id=i, stmts=[dict(mode=st["mode"], sel=list(st["sel"])) for st in v["stmts"]], lib=v["lib"]) for i, v in enumerate(evecs)]
    eres = common.run_harness(ctx, znh, "modsel", ecases, timeout=900)
    if len(eres) != len(ecases):
        raise common.NoVerdict("harness returned %d/%d" % (len(eres), len(ecases)))
    for r in eres:
        v = evecs[r["id"]]
        syms = ["g", "r"] if v["lib"] else ["m", "h", "t", "p"]
        okval = dict(m="甲-help", h="甲-help", t="甲", p="ok", g="ok", r="ok")
        what = "%s %s" % ("library" if v["lib"] else "module", " ; ".join("import all" if st["mode"] == "all" else "之" + "、".join(st["sel"]) for st in v["stmts"]))
        def rep(k2, msg):
            common.report(ctx, "export:%s" % k2, "%s: %s" % (what, msg), dict(spec=v, result=r))
        if r["obs"] in ("panic", "timeout", "exit", "harness-error"):
            rep(r["obs"], "%s %s" % (r["obs"], r.get("detail", "")[:200])); continue
        if r["obs"] != "value":
            if v["soft"]:
                continue                      # a list naming something the module does not export may be refused
            rep("error-for-ok", "spec: names %s become available; interpreter: error [%s] %s" % (sorted(v["visible"]), r.get("code"), r.get("msg"))); continue
        d = [strs(x) for x in r.get("display") or []]
        if len(d) != 3:
            rep("shape", "expected three probe rows, got %s" % d); continue
        want = [okval[s] if s in v["visible"] else "ERR" for s in syms]
        if d[0] != want:
            rep("visible-set", "usable names %s, spec %s (exactly the exported names that are listed, in whatever order they are written)" % (d[0], want))
        for s, got in zip(syms, d[1]):
            if s in v["visible"] and got != "RO":
                rep("assignable", "imported name %s could be assigned (%s)" % (s, got))
        if d[2] != d[0]:
            rep("changed-by-assignment", "probes after the assignment attempts %s, before %s" % (d[2], d[0]))
    cases = cases + ecases
    cov = dict(traces_validated_against_impl=len(cases), samples=[vecs[1000], mvecs[10]],
               evaluations=len(cases), distinct_nontrivial=len(cases),
               rule="all 512 digraphs (self-loops included) on three imported modules x all 15 ordered non-empty import lists of the main file (7680 runs), all 65536 digraphs on FOUR "
                    "imported modules x four import lists (TLC checks the invariants on all 262144; quick replays a seeded 6000 of them, thorough all), plus all digraphs on two modules with a missing third one (576): TLC runs the depth-first load machine (invariants: body at most once, imports before body, circular error iff a cycle "
                    "is reachable - against an independent transitive-closure definition) and emits body trace and result; each vector becomes a directory of .zn files with "
                    "1-3 path segments, executed with LoadFile().Execute: body order/multiplicity, error code 63/60, and five probes per module (an imported method, a handler block of an imported method, a body "
                    "constructing the module's type and a method of that type must all be able to use their own module's names, and a method that calls what its module imported - methods of the modules it imports, a library function - gives from the importer what it gives at home; modules not imported by main are not visible); the three-module digraphs again under other module names (1-4 path segments; dots, digits, Latin letters, underscores inside a segment), with one module file made of import statements only, and with the library 《@JSON》 imported by every file; plus 8 export/read-only/selective-import probe programs; IMPORT-TIME FAULTS (ZnModuleFault): for 1500 (all 2517) runs (digraph, main import list, module whose body faults while it is imported) the bodies that ran before and the error report = the faulting line + the load stack (each waiting module with the line of its import statement); TRACE VALIDATION: the loader's own events (script-frame pushes / pops through the H2 hook, body markers, outcome) of 2500 (all 7680) digraph runs are validated by TLC against Trace_ZnModule (ZnModule's actions, silent steps for already-loaded imports, invariants after every event); export facet (ZnExport): import-all and every selective list of <= 4 distinct names over {method, helper method, type, module variable, unknown name} in every written order (206), every PAIR of import statements of the same module with lists <= 2 (676: the second statement adds its names), the same for the library 《@JSON》 (16 + 100) - usable names = exported names that are listed, every usable name refuses assignment",
               spec_outcomes=outcomes)
    return cov, ["import order inside a module is alphabetical (the generator writes it that way)", "four modules: exhaustive in the thorough tier, a TLC-seeded sample in the quick tier"]
