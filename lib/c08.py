"""C08 - method calls and objects bind arguments, receivers and results correctly (ZnEval, call/object facet)."""
import random, itertools, common
from zneval import *


def probe(i, v):
    return func("P%d" % i, [], [disp(s("P%d" % i)), ret(v)])
PROBES = [probe(1, num(10)), probe(2, num(20)), probe(3, num(30)), probe(4, num(40))]
def P(i): return call("P%d" % i)


def chain(*calls_):
    """以X（a）、（b）: nested mcalls flagged for chain layout; calls_ = (root, (m, args), (m, args)...)"""
    root = calls_[0]
    e = root
    for i, (m, a) in enumerate(calls_[1:]):
        e = mcall(e, m, *a)
        if i > 0:
            e["chain"] = True
    return e


def family(tier, rnd):
    Ps = []
    def add(tag, p):
        p["tag"] = tag; Ps.append(p)
    # arity matrix: method with n params called with m probe arguments
    for n in range(0, 4):
        params = ["X%d" % i for i in range(1, n + 1)]
        body = [mark("F-body")] + [disp(var(x)) for x in params] + [ret(num(n))]
        f = func("F", params, body)
        for m in range(0, 5):
            add("arity-%d-%d" % (n, m), prog([mark("s"), decl("R", call("F", *[P(i + 1) for i in range(m)])), disp(var("R")), mark("e")], funcs=PROBES + [f]))
            add("arity-yield-%d-%d" % (n, m), prog([ex(call("F", *[P(i + 1) for i in range(m)], y="R")), disp(var("R")), mark("e")], funcs=PROBES + [f]))
    # argument expressions evaluated once, left to right, nested calls
    add("args-nested", prog([disp(call("add", call("add", P(1), P(2)), call("add", P(3), P(4)))), ex(num(0))],
        funcs=PROBES + [func("add", ["A", "B"], [disp(s("add"), var("A"), var("B")), ret(bin_("add", var("A"), var("B")))])]))
    add("args-in-list-and-ops", prog([disp(call("id", lst(P(1), bin_("add", P(2), P(3))))), ex(num(0))], funcs=PROBES + [func("id", ["A"], [ret(var("A"))])]))
    # recursion
    fact = func("fact", ["N"], [if_([bin_("le", var("N"), num(1))], [[ret(num(1))]]), ret(bin_("mul", var("N"), call("fact", bin_("sub", var("N"), num(1)))))])
    sumf = func("sum", ["N"], [if_([bin_("eq", var("N"), num(0))], [[ret(num(0))]]), decl("R", call("sum", bin_("sub", var("N"), num(1)))), ret(bin_("add", var("R"), var("N")))])
    for n in (0, 1, 5, 7):
        add("fact-%d" % n, prog([disp(call("fact", num(n))), ex(num(0))], funcs=[fact]))
    for n in ([3, 30] if tier == "quick" else [3, 30, 300, 1000]):
        add("sum-%d" % n, prog([disp(call("sum", num(n))), ex(num(0))], funcs=[sumf]))
    ev = func("even", ["N"], [if_([bin_("eq", var("N"), num(0))], [[ret(b(True))]]), ret(call("odd", bin_("sub", var("N"), num(1))))])
    od = func("odd", ["N"], [if_([bin_("eq", var("N"), num(0))], [[ret(b(False))]]), ret(call("even", bin_("sub", var("N"), num(1))))])
    for n in (0, 1, 6, 7):
        add("mutual-%d" % n, prog([disp(call("even", num(n))), ex(num(0))], funcs=[ev, od]))
    # methods as VALUES: the callee of one and the same call expression varies (an input bound to a method, a loop variable over a list of
    # methods, a variable that is re-bound) - the name is resolved every time the call executes
    inc = func("inc", ["N"], [disp(s("inc"), var("N")), ret(bin_("add", var("N"), num(1)))])
    dbl = func("dbl", ["N"], [disp(s("dbl"), var("N")), ret(bin_("mul", var("N"), num(2)))])
    neg = func("neg", ["N"], [ret(bin_("sub", num(0), var("N")))])
    two = func("two", ["A", "B"], [ret(bin_("add", var("A"), var("B")))])
    apply_ = func("apply", ["T", "N"], [mark("apply"), ret(call("T", var("N")))])
    add("hof-input-bound-to-method", prog([disp(call("apply", var("inc"), num(10))), disp(call("apply", var("dbl"), num(10))), disp(call("apply", var("inc"), num(20))), disp(call("apply", var("neg"), num(5))), ex(num(0))], funcs=[inc, dbl, neg, apply_]))
    add("hof-loop-over-methods", prog([iter_(["V"], lst(var("inc"), var("dbl"), var("neg"), var("dbl")), [disp(call("V", num(3)))]), ex(num(0))], funcs=[inc, dbl, neg]))
    add("hof-rebound-variable", prog([decl("V", var("inc")), decl("I", num(0)),
                                      while_(bin_("lt", var("I"), num(4)), [ex(asg(var("I"), bin_("add", var("I"), num(1)))), disp(call("V", var("I"))),
                                                                              if_([bin_("eq", var("I"), num(2))], [[ex(asg(var("V"), var("dbl")))]])]), ex(num(0))], funcs=[inc, dbl]))
    twice = func("twice", ["T", "U", "N"], [ret(call("U", call("T", var("N"))))])
    add("hof-two-inputs", prog([disp(call("twice", var("inc"), var("dbl"), num(3))), disp(call("twice", var("dbl"), var("inc"), num(3))), disp(call("twice", var("neg"), var("neg"), num(3))), ex(num(0))], funcs=[inc, dbl, neg, twice]))
    fold = func("fold", ["T", "U", "N"], [if_([bin_("eq", var("N"), num(0))], [[ret(num(0))]]), ret(bin_("add", call("T", var("N")), call("fold", var("U"), var("T"), bin_("sub", var("N"), num(1)))))])
    add("hof-recursion-swapping-inputs", prog([disp(call("fold", var("inc"), var("neg"), num(5))), disp(call("fold", var("neg"), var("inc"), num(5))), ex(num(0))], funcs=[inc, neg, fold]))
    add("hof-arity-through-input", prog([mark("a"), disp(call("apply", var("inc"), num(1))), disp(call("apply", var("two"), num(1))), mark("dead")], funcs=[inc, two, apply_]))
    add("hof-input-not-a-method", prog([mark("a"), disp(call("apply", var("inc"), num(1))), disp(call("apply", num(7), num(1))), mark("dead")], funcs=[inc, apply_]))
    # ... also when the input (or a local name) is SPELLED like a method / type of the program: the inner binding is what the call reaches
    apply2 = func("apply2", ["inc", "N"], [mark("apply2"), ret(call("inc", var("N")))])
    add("hof-input-named-like-a-method", prog([disp(call("apply2", var("dbl"), num(10))), disp(call("apply2", var("neg"), num(10))), disp(call("apply2", var("inc"), num(10))), disp(call("inc", num(1))), ex(num(0))], funcs=[inc, dbl, neg, apply2]))
    local2 = func("viaLocal", ["N"], [decl("dbl", var("neg")), ret(call("dbl", var("N")))])
    add("hof-local-named-like-a-method", prog([disp(call("viaLocal", num(4))), disp(call("dbl", num(4))), ex(num(0))], funcs=[inc, dbl, neg, local2]))
    add("hof-loop-variable-named-like-a-method", prog([iter_(["inc"], lst(var("dbl"), var("neg")), [disp(call("inc", num(3)))]), disp(call("inc", num(3))), ex(num(0))], funcs=[inc, dbl, neg]))
    KH = cls("HM", [("p", num(1))], methods=[func("go", ["inc", "N"], [ret(call("inc", var("N")))])])
    add("hof-type-method-input-named-like-a-method", prog([decl("O", new("HM")), disp(mcall(var("O"), "go", var("dbl"), num(6))), disp(mcall(var("O"), "go", var("inc"), num(6))), ex(num(0))], funcs=[inc, dbl], classes=[KH]))
    K2 = cls("H", [("f", NULL)], ctor=func("H", ["T"], [ex(asg(this("f"), var("T")))]), methods=[func("run", ["N"], [decl("G", this("f")), ret(call("G", var("N")))])])
    add("hof-objects-holding-methods", prog([decl("A", new("H", var("inc"))), decl("B", new("H", var("dbl"))), disp(mcall(var("A"), "run", num(100))), disp(mcall(var("B"), "run", num(100))), disp(mcall(var("A"), "run", num(101))), ex(num(0))],
                                            funcs=[inc, dbl], classes=[K2]))
    # a callee that handles its OWN fault (division by zero, index, unknown method, wrong argument count of a call it makes) and returns normally:
    # the caller goes on with ITS input of the same name, its locals and its receiver
    faults = {"div": decl("Q", bin_("div", num(1), bin_("sub", var("X"), var("X")))), "index": decl("Q", idx(lst(num(1)), num(9))), "unknown-method": ex(mcall(lst(), "nomethod")),
              "arity": ex(call("two", num(1))), "undefined": ex(var("NOPE"))}
    for fk, fst in faults.items():
        inner = func("inner", ["X"], [mark("inner"), fst, ret(num(0))], [catch("@exc", [mark("inner-h"), ret(bin_("sub", num(0), var("X")))])])
        outer = func("outer", ["X"], [decl("L", bin_("add", var("X"), num(1))), decl("R", call("inner", num(100))), disp(var("X"), var("L"), var("R")), ret(var("X"))])
        rec = func("sumto", ["X"], [if_([bin_("eq", var("X"), num(0))], [[ret(call("inner", num(50)))]]), decl("R", call("sumto", bin_("sub", var("X"), num(1)))), ret(bin_("add", var("R"), var("X")))])
        KO = cls("KO", [("p", num(3))], methods=[func("reg", ["X"], [decl("R", call("inner", num(999))), disp(var("X"), this("p"), var("R")), ret(var("X"))])])
        add("callee-handles-own-%s" % fk, prog([disp(call("outer", num(7))), disp(call("sumto", num(4))), decl("O", new("KO")), disp(mcall(var("O"), "reg", num(5))), disp(call("outer", num(8))), ex(num(0))],
                                               funcs=[inner, outer, rec, two], classes=[KO]))
    # 得到
    add("yield-binds-const", prog([ex(call("F", num(2), y="R")), disp(var("R")), decl("S", bin_("add", var("R"), num(1))), disp(var("S")), ex(num(0))], funcs=[func("F", ["X"], [ret(bin_("mul", var("X"), num(3)))])]))
    add("yield-in-fn", prog([disp(call("G")), ex(num(0))], funcs=[func("F", ["X"], [ret(bin_("mul", var("X"), num(3)))]), func("G", [], [ex(call("F", num(2), y="R")), ret(var("R"))])]))
    # call errors
    add("call-undefined", prog([mark("a"), ex(call("nope", num(1))), mark("dead")]))
    add("call-a-variable", prog([decl("V", num(1)), ex(call("V")), mark("dead")]))
    # objects
    K = cls("K", [("n", num(0)), ("items", lst())],
            ctor=func("K", ["A", "B"], [ex(asg(this("n"), bin_("add", var("A"), var("B")))), ex(mcall(this("items"), "@append", var("A")))]),
            methods=[func("get", [], [ret(this("n"))]),
                     func("add", ["X"], [ex(asg(this("n"), bin_("add", this("n"), var("X")))), ret(this("@self"))]),
                     func("twice", ["X"], [ex(mcall(this("@self"), "add", var("X"))), ex(mcall(this("@self"), "add", var("X"))), ret(this("n"))]),
                     func("other", ["O"], [ex(mcall(var("O"), "add", num(100))), ret(this("n"))]),
                     func("items2", [], [ret(this("items"))])])
    J = cls("J", [("v", num(5)), ("lst", lst(num(1)))], methods=[func("bump", [], [ex(asg(this("v"), bin_("add", this("v"), num(1)))), ex(mcall(this("lst"), "@append", this("v"))), ret(this("v"))])])
    O, O2 = var("O"), var("O2")
    add("ctor-args", prog([decl("O", new("K", P(1), P(2))), disp(mcall(O, "get"), mem(O, "items")), ex(num(0))], funcs=PROBES, classes=[K]))
    for m in (0, 1, 3):
        add("ctor-arity-%d" % m, prog([mark("a"), decl("O", new("K", *[num(i) for i in range(m)])), mark("dead")], classes=[K]))
    add("no-ctor-args-ignored", prog([decl("O", new("J")), disp(mem(O, "v")), ex(num(0))], classes=[J]))
    add("this-in-methods", prog([decl("O", new("K", num(1), num(2))), disp(mcall(O, "twice", num(5))), disp(mcall(O, "get")), ex(num(0))], classes=[K]))
    add("this-restored-after-nested", prog([decl("O", new("K", num(1), num(2))), decl("O2", new("K", num(10), num(20))), disp(mcall(O, "other", O2)), disp(mcall(O, "get"), mcall(O2, "get")), ex(num(0))], classes=[K]))
    add("chain-calls", prog([decl("O", new("K", num(1), num(2))), disp(mcall(chain(O, ("add", [num(1)]), ("add", [num(2)]), ("add", [num(3)])), "get")), ex(num(0))], classes=[K]))
    add("chain-stmt", prog([decl("O", new("K", num(1), num(2))), ex(chain(O, ("add", [num(1)]), ("add", [num(2)]))), disp(mcall(O, "get")), ex(num(0))], classes=[K]))
    add("chain-builtin", prog([decl("L", lst(num(1))), ex(chain(var("L"), ("@append", [num(2)]), ("@append", [num(3)]))), disp(var("L")), ex(num(0))]))
    add("objects-isolated", prog([decl("O", new("J")), decl("O2", new("J")), ex(mcall(O, "bump")), ex(mcall(O, "bump")), ex(asg(mem(O2, "v"), num(50))), disp(mem(O, "v"), mem(O, "lst"), mem(O2, "v"), mem(O2, "lst")), decl("O3", new("J")), disp(mem(var("O3"), "v"), mem(var("O3"), "lst")), ex(num(0))], classes=[J]))
    add("unknown-method", prog([decl("O", new("J")), mark("a"), ex(mcall(O, "nope")), mark("dead")], classes=[J]))
    add("unknown-property-read", prog([decl("O", new("J")), mark("a"), disp(mem(O, "nope")), mark("dead")], classes=[J]))
    add("unknown-property-write", prog([decl("O", new("J")), mark("a"), ex(asg(mem(O, "nope"), num(1))), mark("dead")], classes=[J]))
    add("method-arity", prog([decl("O", new("J")), mark("a"), ex(mcall(O, "bump", num(1))), mark("dead")], classes=[J]))
    add("this-outside-method", prog([mark("a"), disp(this("v")), mark("dead")], classes=[J]))
    add("this-in-plain-function", prog([disp(call("F")), mark("dead")], funcs=[func("F", [], [ret(this("v"))])], classes=[J]))
    add("new-unknown-class", prog([mark("a"), decl("O", new("Nope")), mark("dead")]))
    add("new-of-function", prog([mark("a"), decl("O", new("F")), mark("dead")], funcs=[func("F", [], [ret(num(1))])]))
    add("method-of-number", prog([mark("a"), ex(mcall(num(5), "nope")), mark("dead")]))
    add("object-passed-to-function-shared", prog([decl("O", new("J")), ex(call("touch", O)), disp(mem(O, "v")), ex(num(0))], funcs=[func("touch", ["X"], [ex(asg(mem(var("X"), "v"), num(77))), ret(num(0))])], classes=[J]))
    add("method-result-feeds-call", prog([decl("O", new("K", num(1), num(2))), disp(call("dbl", mcall(O, "get"))), ex(num(0))], funcs=[func("dbl", ["X"], [ret(bin_("mul", var("X"), num(2)))])], classes=[K]))
    # in-place mutators of numbers (自增 / 自减) on default property values: every instance has its own defaults
    C = cls("C", [("n", num(0)), ("t", s("x")), ("f", b(False)), ("l", lst(num(1)))],
            methods=[func("hit", [], [ex(mcall(this("n"), "@incr", num(1))), ret(this("n"))]),
                     func("back", ["K"], [ex(mcall(this("n"), "@decr", var("K"))), ret(this("n"))])])
    add("inplace-default-number-own", prog([decl("O", new("C")), decl("O2", new("C")), ex(mcall(O, "hit")), ex(mcall(O, "hit")), ex(mcall(O, "hit")),
                                            disp(mem(O, "n"), mem(O2, "n")), decl("O3", new("C")), disp(mem(var("O3"), "n")), ex(mcall(O2, "back", num(5))),
                                            disp(mem(O, "n"), mem(O2, "n"), mem(var("O3"), "n")), decl("O4", new("C")), disp(mem(var("O4"), "n")), ex(num(0))], classes=[C]))
    add("inplace-through-member", prog([decl("O", new("C")), decl("O2", new("C")), ex(mcall(mem(O, "n"), "@incr", num(7))), disp(mem(O, "n"), mem(O2, "n")),
                                        decl("O3", new("C")), disp(mem(var("O3"), "n")), ex(num(0))], classes=[C]))
    add("inplace-variable-and-element", prog([decl("A", num(1)), decl("B", var("A")), ex(mcall(var("A"), "@incr", num(4))), disp(var("A"), var("B")),
                                              decl("L", lst(num(1), num(2))), decl("M", var("L")), ex(mcall(idx(var("L"), num(2)), "@decr", num(1))), disp(var("L"), var("M")), ex(num(0))]))
    add("inplace-in-ctor-default", prog([decl("O", new("D")), decl("O2", new("D")), disp(mem(O, "n"), mem(O2, "n")), ex(num(0))],
        classes=[cls("D", [("n", num(10))], ctor=func("D", [], [ex(mcall(this("n"), "@incr", num(1)))]))]))
    # a call with the wrong number of arguments fails in the CALLER: the callee's own handlers never see it
    for n_ in (0, 1, 2):
        params = ["X%d" % i for i in range(1, n_ + 1)]
        h = func("H", params, [mark("H-body"), ret(num(1))], [catch("@exc", [mark("H-handler"), ret(num(-1))])])
        for m in range(0, 4):
            if m == n_: continue
            add("arity-callee-handler-%d-%d" % (n_, m), prog([mark("s"), decl("R", call("H", *[P(i + 1) for i in range(m)])), disp(var("R")), mark("dead")], funcs=PROBES + [h]))
            add("arity-callee-handler-caught-outside-%d-%d" % (n_, m), prog([disp(call("W")), mark("e"), ex(num(0))],
                funcs=PROBES + [h, func("W", [], [decl("R", call("H", *[P(i + 1) for i in range(m)])), ret(var("R"))], [catch("@exc", [mark("W-handler"), ret(num(-2))])])]))
    MH = cls("MH", [("v", num(1))], ctor=func("MH", ["A"], [ex(asg(this("v"), var("A")))], [catch("@exc", [mark("ctor-handler")])]),
             methods=[func("m", ["A"], [ret(var("A"))], [catch("@exc", [mark("m-handler"), ret(num(-1))])])])
    add("arity-method-with-handler", prog([decl("O", new("MH", num(1))), mark("a"), disp(mcall(var("O"), "m")), mark("dead")], classes=[MH]))
    add("arity-ctor-with-handler", prog([mark("a"), decl("O", new("MH")), mark("dead")], classes=[MH]))
    # a chain feeds each RESULT to the next call - also when a call yields another object than the one it was made on
    BOX = cls("Box", [("v", num(0))], ctor=func("Box", ["A"], [ex(asg(this("v"), var("A")))]),
              methods=[func("dbl", [], [ret(new("Box", bin_("mul", this("v"), num(2))))]), func("inc", ["K"], [ret(new("Box", bin_("add", this("v"), var("K"))))]),
                       func("get", [], [ret(this("v"))]), func("me", [], [ret(this("@self"))])])
    FAC = cls("Fac", [("made", num(0))], methods=[func("make", ["N"], [ex(asg(this("made"), bin_("add", this("made"), num(1)))), ret(new("Box", var("N")))]), func("get", [], [ret(num(-1))])])
    add("chain-result-is-another-object", prog([decl("F", new("Fac")), disp(chain(var("F"), ("make", [num(21)]), ("dbl", []), ("get", []))), disp(mem(var("F"), "made")),
                                                disp(chain(var("F"), ("make", [num(1)]), ("inc", [num(5)]), ("dbl", []), ("me", []), ("get", []))), disp(mem(var("F"), "made")), ex(num(0))], classes=[BOX, FAC]))
    add("chain-stmt-result-is-another-object", prog([decl("F", new("Fac")), decl("B", chain(var("F"), ("make", [num(4)]), ("dbl", []))), disp(mcall(var("B"), "get"), mem(var("F"), "made")), ex(num(0))], classes=[BOX, FAC]))
    # 得到 on a method call binds a NEW name in the caller's block, also when an outer activation (recursion) has one of the same name
    TREE = cls("Tree", [("calls", num(0))],
               methods=[func("cnt", ["N"], [ex(asg(this("calls"), bin_("add", this("calls"), num(1)))), if_([bin_("le", var("N"), num(0))], [[ret(num(1))]]),
                                           ex(mcall(this("@self"), "cnt", bin_("sub", var("N"), num(1)), y="L")), ex(mcall(this("@self"), "cnt", bin_("sub", var("N"), num(2)), y="R")),
                                           ret(bin_("add", bin_("add", var("L"), var("R")), num(1)))]),
                        func("one", [], [ret(num(1))])])
    for n_ in (1, 3, 5):
        add("method-yield-tree-recursion-%d" % n_, prog([decl("T", new("Tree")), disp(mcall(var("T"), "cnt", num(n_))), disp(mem(var("T"), "calls")), ex(num(0))], classes=[TREE]))
    add("method-yield-binds-const", prog([decl("T", new("Tree")), ex(mcall(var("T"), "one", y="R")), disp(var("R")), ex(asg(var("R"), num(5))), mark("dead")], classes=[TREE]))
    add("method-yield-shadows-outer", prog([decl("T", new("Tree")), decl("R", num(9)), if_([b(True)], [[ex(mcall(var("T"), "one", y="R")), disp(var("R"))]]), disp(var("R")), ex(num(0))], classes=[TREE]))
    # random call graphs
    n = 1500 if tier == "quick" else 20000
    for i in range(n):
        Ps.append(random_prog(rnd, i))
    return Ps


def random_prog(rnd, i):
    """random well-typed call graph of 2-3 functions with arities 0..3, calls with probe/number/var arguments, bounded recursion guard."""
    nf = rnd.choice([2, 3])
    ar = [rnd.randrange(0, 4) for _ in range(nf)]
    funcs = []
    def argexpr(depth, params, me):
        c = rnd.random()
        if c < 0.3: return num(rnd.randrange(0, 5))
        if c < 0.5 and params: return var(rnd.choice(params))
        if c < 0.7: return P(rnd.randrange(1, 4))
        if depth < 2 and me + 1 < nf:
            tgt = rnd.randrange(me + 1, nf)     # only call "later" functions: no unbounded recursion
            n_ = ar[tgt] if rnd.random() < 0.85 else rnd.randrange(0, 4)
            return call("G%d" % tgt, *[argexpr(depth + 1, params, me) for _ in range(n_)])
        return bin_("add", num(1), P(rnd.randrange(1, 4)))
    for k in range(nf):
        params = ["A%d" % j for j in range(ar[k])]
        body = [disp(s("G%d" % k), *[var(x) for x in params])]
        for _ in range(rnd.randrange(0, 3)):
            body.append(decl("L%d" % len(body), argexpr(0, params, k)))
        body.append(ret(argexpr(0, params, k)))
        funcs.append(func("G%d" % k, params, body))
    main = [disp(argexpr(0, [], -1)) for _ in range(rnd.randrange(1, 4))] + [ex(num(0))]
    p = prog(main, funcs=PROBES[:3] + funcs)
    p["tag"] = "random-%d" % i
    return p


def run(ctx):
    znh = common.build_harness(ctx)
    rnd = random.Random(ctx.seed)
    progs = family(ctx.tier, rnd)
    log("[C08] %d programs" % len(progs))
    stats, vecs, res = run_family(ctx, znh, progs, "c08", wd=20.0)
    pick = [p for p in progs if p["tag"] in ("this-restored-after-nested", "arity-2-3")]
    samples = [dict(tag=p["tag"], source=res[p["id"]].get("src"), spec_result=vecs[p["id"]]["res"], spec_display=vecs[p["id"]]["out"]) for p in pick]
    cov = dict(traces_validated_against_impl=stats["programs"] - stats["skipped"], samples=samples,
               evaluations=stats["programs"], distinct_nontrivial=len(set(p["tag"] for p in progs)),
               rule="declared arity 0..3 x actual argument count 0..4 (arguments are probe calls, so order/once is visible) with and without 得到; nested "
                    "argument calls; direct/mutual recursion (depth up to 30 quick / 1000 thorough); constructors (arity, args, 其), methods calling "
                    "methods of the same and of another object (其 restored), chained 以X（a）、（b）, object isolation and per-instance defaults, unknown "
                    "method/property/class errors; plus seeded random acyclic call graphs. Expected behaviour from the ZnEval machine", **stats)
    return cov, ["a method without 输出 whose last statement is a bare expression is not generated (manual: 空; code: that value - not demanded)"]
