"""C05 - compilation and error display terminate cleanly on every input (spec/ZnFront.tla, Trace_ZnFront.tla)."""
import random, json, os, re, common
from common import log
import gramfam, c03

CH = {"a": "a", "W": "甲", "d": "1", "sp": " ", "tab": "\t", "LF": "\n", "CR": "\r", "lq": "“", "rq": "”", "lb": "【", "rb": "】", "lp": "（", "rp": "）", "lc": "{", "rc": "}",
      "bt": "`", "col": "：", "comma": "，", "pause": "、", "q": "？", "eq": "=", "plus": "+", "slash": "/", "star": "*", "let": "令", "with": "以", "this": "其", "is": "为",
      "and": "且", "dot": "之", "zhu": "注", "hash": "#", "ctl": "\x01", "nul": "\x00", "bang": "！", "semi": "；"}
INV = {v: k for k, v in CH.items()}
# further members of the classes (TLC enumerates class strings; the binding replays each with the canonical member and
# with randomly drawn other members): every blank of the lexer's table, other letters/digits, every quote family,
# ASCII twins of the punctuation, other operators, keywords, control characters / BOM / U+FFFD / non-characters
ALT = {"sp": ["\u3000", "\x0b", "\x0c", "\u00a0", "\u2000", "\u2003", "\u2009", "\u200a", "\u200b", "\u202f", "\u205f"],
       "a": ["Z", "é", "_"], "W": ["あ", "한", "龥", "𠀀"], "d": ["0", "9", "７"], "lq": ["「", "『", "‘", "《"], "rq": ["」", "』", "’", "》"],
       "lb": ["["], "rb": ["]"], "lp": ["("], "rp": [")"], "col": [":"], "comma": [","], "q": ["?"], "bang": ["!"], "semi": [";"],
       "eq": [">", "<"], "plus": ["-"], "slash": ["|", "\\"], "star": ["%"], "hash": ["@", "$", "&", "~"],
       "let": ["如果", "每当", "遍历", "输出", "拦截", "导入", "定义", "如何", "抛出", "否则", "再如", "得到", "恒为"], "with": ["何为", "新建"], "this": ["此"], "is": ["不为", "等于", "大于"],
       "and": ["或"], "dot": ["的"], "ctl": ["\x7f", "\x1b", "\x08", "\ufeff", "\ufffd", "\u2028", "\u0085", "\ufffe"], "LF": ["\n"], "CR": ["\r"]}


def lines_of(text):
    """physical lines (LF, CR, CRLF, LFCR), indentation stripped"""
    out, cur, i = [], "", 0
    while i < len(text):
        c = text[i]
        if c in "\r\n":
            if i + 1 < len(text) and text[i + 1] in "\r\n" and text[i + 1] != c:
                i += 1
            out.append(cur); cur = ""
        else:
            cur += c
        i += 1
    out.append(cur)
    return [l.lstrip(" \t") for l in out]


def quoted_line(report):
    ls = report.split("\n")
    for k, l in enumerate(ls):
        if l.strip() == "^" and k > 0:
            q = ls[k - 1]
            return q[4:] if q.startswith("    ") else q
    return None


def check_record(text, r):
    """python mirror of ZnFront!OutcomeOK + ZnGrammar!WellFormed for one outcome record -> (kind, what) or None"""
    if r["obs"] in ("timeout", "panic", "exit", "harness-error"):
        return (r["obs"], "front end %s: %s" % (r["obs"], (r.get("detail") or "")[:200]))
    if r.get("mutated") is not None:
        return ("source-changed", "compiling CHANGED the program text it was given: now %r" % r["mutated"][:120])
    if r["obs"] == "tree":
        if r.get("lexerr"):
            return ("accepted-untokenisable", "accepted with a tree although the text does not tokenise (lexer error %s at %s): the tree stands for a part of the text only"
                    % (r["lexerr"].get("code"), r["lexerr"].get("cursor")))
        wf = c03.well_formed(r["tree"])
        return ("half-built-tree", "accepted, but the tree is incomplete: %s" % wf) if wf else None
    if r["obs"] != "syntax-error":
        return ("not-a-syntax-error", "outcome %s: %s" % (r["obs"], (r.get("detail") or "")[:200]))
    if not (20 <= (r.get("code") or 0) <= 27):
        return ("error-code", "syntax error with code %s" % r.get("code"))
    if not (0 <= r.get("cursor", -1) <= r["len"]):
        return ("cursor-range", "cursor %s outside 0..%d" % (r.get("cursor"), r["len"]))
    rep = r.get("report") or ""
    if rep.startswith("PANIC") or "[%d]" % r["code"] not in rep:
        return ("render", "rendering the error failed or lost the code: %r" % rep[:200])
    q = quoted_line(rep)
    if q is None:
        return ("render-noquote", "the report quotes no line: %r" % rep[:200])
    if q not in lines_of(text):
        return ("quoted-line", "the report quotes %r, which is not a line of the source" % q)
    return None


def run(ctx):
    znh = common.build_harness(ctx)
    rnd = random.Random(ctx.seed)
    quick = ctx.tier == "quick"
    # ---- design: the outcome automaton (all outcomes of all texts <= 2) ; text enumeration <= 3 and a 1/30 (thorough: all) of length 4
    common.tlc(ctx, "ZnFront", "MC_ZnFront_2.cfg", timeout=600)
    texts = []
    alt_texts = []
    for cfg in ["MC_ZnFront_3.cfg", "MC_ZnFront_4.cfg" if quick else "MC_ZnFront_4all.cfg"]:
        t, _ = common.tlc(ctx, "ZnFront", cfg, timeout=3000, extra=["-seed", str(ctx.seed)])
        vs = common.vectors(t, "src")
        texts += ["".join(CH[c] for c in v["s"]) for v in vs]
        for v in vs:
            if any(c in ALT for c in v["s"]) and (len(v["s"]) <= 3 or rnd.random() < (0.2 if quick else 1.0)):
                for _ in range(1 if quick else 3):
                    alt = [rnd.choice(ALT[c] + [CH[c]]) if c in ALT else CH[c] for c in v["s"]]
                    alt_texts.append("".join(alt))
    texts = sorted(set(texts))
    alt_texts = sorted(set(alt_texts) - set(texts))
    # ---- token-level corruptions of grammar-covering programs (TLC: one delete / duplicate / swap at every position) + truncation at every offset
    progs = gramfam.family("quick", rnd)
    progs = [p_ for p_ in progs if p_.get("tag") == "one-statement-bodies"] + rnd.sample(progs, 14 if quick else 60)
    progs = list({p_["id"]: p_ for p_ in progs}.values())
    for i, p in enumerate(progs): p["id"] = i + 1
    pf = os.path.join(ctx.scratch, "progs-mut.ndjson")
    import c03
    table = {}
    open(pf, "w").write("".join(json.dumps(c03.to_ascii(p, table), ensure_ascii=True) + "\n" for p in progs))
    back = {v: k for k, v in table.items()}
    mt, _ = common.tlc(ctx, "MC_ZnGrammar", "MC_ZnGrammar_mutate.cfg", timeout=3000, files=[(pf, "progs.ndjson")])
    muts = [c03.from_ascii(v, back) for v in common.vectors(mt, "layout")]
    cases, meta = [], []
    for t in texts:
        cases.append(dict(id=len(cases), text=t)); meta.append(("chars", t))
    for t in alt_texts:
        cases.append(dict(id=len(cases), text=t)); meta.append(("chars-alt", t))
    # every comment form directly followed by a token that does not tokenise / an illegal indentation (the look-ahead past a comment)
    comments = ["// c\n", "/* c */", "/* c\nd */\n", "/* c */\n", "注：c\n", "注：“c\nd”\n", "注1：c\n", "令A = 1 // c\n", "令A = 1 /* c */ ", "（显示：1） 注：c\n"]
    bads = ["“abc", "`abc", "\x01", "令B = “x", "  令B = 1", " \t令B = 1", "』", "@@", "令B = 1 “", "令B = `x", "《未完", "令B = 1\n   令C = 2"]
    for pre in ("", "令Z = 0\n", "如果真：\n    "):
        for cm in comments:
            for bad in bads:
                for post in ("", "\n令Y = 2\n"):
                    tx = pre + cm.replace("\n", "\n    " if pre.startswith("如果") else "\n") + bad + post
                    cases.append(dict(id=len(cases), text=tx)); meta.append(("after-comment", tx))
    # a text literal with a (successful) back-tick escape, then something that does not compile on the same / the next line
    for esc in ("`LF`", "`CR`", "`CRLF`", "`SP`", "`TAB`", "`BK`", "`U+41`", "`U+1F600`", "`“`", "`』`", "`XX`", "``"):
        for lq, rq in (("“", "”"), ("「", "」"), ("‘", "’"), ("『", "』"), ("《", "》")):
            for bad in (" ~", "、、", "\n   令C = 2", "“", " 如果", "）"):
                for pre in ("令A = ", "（显示："):
                    tx = pre + lq + "一" + esc + "二" + esc + rq + bad
                    cases.append(dict(id=len(cases), text=tx)); meta.append(("escape-then-error", tx))
    # LONG RUNS: one character (of every kind the lexer treats in its own way) repeated 9 .. 4097 times, bare and inside every construct that
    # scans ahead for its end (text literal, back-ticked name, back-tick escape incl. U+, comment forms, number, brackets, indentation)
    units = ["a", "甲", "1", "F", "0", " ", "\t", "\n", "\r", "“", "”", "「", "`", "（", "）", "【", "】", "{", "}", "，", "、", "；", "：", "+", "-", "*", "/", ".", "=", "#", "%", "不", "注", "\x01", "\ufeff", "\U0001F600"]
    frames = [("", ""), ("“", "”"), ("“", ""), ("`", "`"), ("`", ""), ("“`U+", "`”"), ("“`", "`”"), ("“`U+", ""), ("// ", ""), ("/* ", " */"), ("/* ", ""), ("注：", ""), ("注：“", "”"), ("注", "："),
              ("令A = ", ""), ("令A = 【", "】"), ("令A = 1", ""), ("令A = 1.", ""), ("令A = 1*10^", ""), ("（", "）"), ("如果真：\n", "令B = 1"), ("令A = “x” % 【", "】")]
    for u in units:
        for n in (9, 17, 33, 257, 4097):
            if n > 300 and u not in ("a", "F", "1", " ", "“", "`", "（", "【", "注", "\n"): continue
            for fl, fr in frames:
                if n > 300 and (fl, fr) not in (("", ""), ("“", "”"), ("“`U+", "`”"), ("`", "`"), ("令A = ", ""), ("令A = 【", "】")): continue
                tx = fl + u * n + fr
                cases.append(dict(id=len(cases), text=tx)); meta.append(("long-run", tx))
    seen = set()
    for v in muts:
        k = (v["id"], tuple(v["out"]))
        if k in seen: continue
        seen.add(k)
        cases.append(dict(id=len(cases), out=v["out"], unit="sp4", eol="lf")); meta.append(("mutant", None))
    nbase = len(cases)
    res = common.run_harness(ctx, znh, "parse", cases, timeout=3000, args=["-t", "3"])
    # truncations at every character offset of (a sample of) the mutant texts and of the canonical texts
    mtexts = [r["text"] for r in res if meta[r["id"]][0] == "mutant" and r.get("text")]
    trunc = set()
    for t in rnd.sample(mtexts, min(len(mtexts), 60 if quick else 600)):
        for k in range(len(t)):
            trunc.add(t[:k])
    tcases = [dict(id=i, text=t) for i, t in enumerate(sorted(trunc))]
    tres = common.run_harness(ctx, znh, "parse", tcases, timeout=3000, args=["-t", "3"])
    records = []
    for r in res:
        text = cases[r["id"]].get("text")
        if text is None: text = r.get("text", "")
        records.append((meta[r["id"]][0], text, r))
    for r in tres:
        records.append(("truncated", tcases[r["id"]]["text"], r))
    outcomes = {}
    for kind, text, r in records:
        outcomes[r["obs"]] = outcomes.get(r["obs"], 0) + 1
        m = check_record(text, r)
        if m:
            common.report(ctx, "%s:%s" % (kind, m[0]), "input %r: %s" % (text[:120], m[1]), dict(text=text, result={k: r.get(k) for k in ("obs", "code", "cursor", "report", "detail")}))
    # ---- input-variable text: same short texts through ExecVarInputText
    vtexts = [t for t in texts if len(t) <= 3] if quick else texts
    vcases = [dict(id=i, recv="null", acc="var", name="", args=[], var=t) for i, t in enumerate(vtexts) if t]
    vres = common.run_harness(ctx, znh, "inv", vcases, timeout=3000, args=["-t", "3"])
    for r in vres:
        if r["obs"] not in ("value", "zn-error"):
            common.report(ctx, "varinput:%s" % r["obs"], "input-variable text %r: %s %s" % (vcases[r["id"]]["var"], r["obs"], (r.get("detail") or "")[:200]), dict(text=vcases[r["id"]]["var"], result=r))
    # ---- trace validation by TLC: outcome records of the class-symbol texts (all <= 3, sample of the rest) + accepted mutant trees
    tf = os.path.join(ctx.scratch, "trace-front.ndjson")
    nlines = 0
    dummy = dict(n="Program", a="", c=[])
    with open(tf, "w") as f:
        pool = [(k, t, r) for k, t, r in records if k == "chars" and r["obs"] in ("tree", "syntax-error") and r.get("report", "x") is not None]
        pool = [x for x in pool if len(x[1]) <= 3] + rnd.sample([x for x in pool if len(x[1]) > 3], min(4000 if quick else 40000, len([x for x in pool if len(x[1]) > 3])))
        for k, t, r in pool:
            s = [INV[c] for c in t]
            if r["obs"] == "tree":
                f.write(json.dumps(dict(s=s, o="tree", code=0, cursor=0, quoted=[], tree=r["tree"])) + "\n")
            else:
                q = quoted_line(r.get("report") or "")
                if q is None or any(c not in INV for c in q):
                    q = "\x01\x01\x01\x01\x01\x01"       # not a line of the source: TLC will reject the record
                f.write(json.dumps(dict(s=s, o="error", code=r["code"], cursor=r["cursor"], quoted=[INV.get(c, "a") for c in q], tree=dummy)) + "\n")
            nlines += 1
        acc = [r for k, t, r in records if k != "chars" and r["obs"] == "tree"]
        for r in rnd.sample(acc, min(len(acc), 300 if quick else 3000)):
            f.write(json.dumps(dict(s=[], o="tree", code=0, cursor=0, quoted=[], tree=r["tree"])) + "\n"); nlines += 1
    common.corrupt_trace(tf, ["cursor"], to=-3)     # (cursor + 1 is still inside the text: legitimately accepted)
    ttxt, tinfo = common.tlc(ctx, "Trace_ZnFront", "Trace_ZnFront.cfg", workers=1, timeout=1500, files=[(tf, "trace.ndjson")], allow_violation=True, heap="8g")
    if tinfo["violated"]:
        if tinfo.get("postcondition_failed"):
            m = re.search(r"The depth of the complete state graph search is (\d+)", ttxt)
            upto = int(m.group(1)) - 1 if m else -1
            lines = open(tf).read().splitlines()
            common.report(ctx, "trace:rejected", "outcome record %d is not an outcome of the ZnFront automaton: %s" % (upto + 1, lines[upto][:400] if 0 <= upto < len(lines) else "?"), dict(record=lines[upto][:2000] if 0 <= upto < len(lines) else None))
        else:
            raise common.NoVerdict("trace spec failed unexpectedly:\n" + common.tail(ttxt))
    cov = dict(traces_validated_against_impl=nlines, samples=[dict(text=texts[777]), dict(mutant=mtexts[5][:200] if mtexts else None)],
               evaluations=len(records) + len(vcases), distinct_nontrivial=len(records),
               rule="inputs: LONG RUNS (36 kinds of character repeated 9 / 17 / 33 / 257 / 4097 times, bare and inside 22 frames: literals, back-ticked names, back-tick escapes incl. U+, comments, numbers, brackets, indentation); every text of length <= 3 over 36 character classes (letters, wide characters, digits, blank, TAB, LF, lone CR, every bracket/quote/back-tick, "
                    "punctuation, operators, one-character keywords, 注, control characters, NUL) and a TLC-seeded 1/30 (thorough: all 1.7M) of length 4; every single token "
                    "deletion / duplication / swap of %d grammar-covering programs (TLC layout machine, Mutate) and every prefix (truncation at every character offset) of a sample "
                    "of those mutants; the short texts also as input-variable text. Each input is parsed in a worker process with a 3 s watchdog and its error rendered: exactly one "
                    "outcome; a syntax error has code 20..27, 0 <= cursor <= length and a report that quotes a physical line of the source; an accepted tree is complete and the accepted text tokenises from its first to its last character (the lexer alone). All "
                    "records are checked by the Python mirror of ZnFront!OutcomeOK; %d records (all texts <= 3, a sample of the rest, accepted mutant trees) are validated by "
                    "TLC against Trace_ZnFront" % (len(progs), nlines),
               outcome_counts=outcomes, char_texts=len(texts), mutants=len(mtexts), truncations=len(tcases), varinput_texts=len(vcases))
    return cov, ["TLC enumerates class strings; each is replayed with the canonical member and with 1 (thorough 3) random draws of other members", "TLC validates a sample of the outcome records (JSON size); the Python mirror of the same predicate checks all of them"]
