"""C03 - parsing builds the tree the grammar prescribes, for any layout (spec/ZnGrammar.tla)."""
import json, random, os, common
from common import log
import gramfam


def tree_eq(a, b):
    return a["n"] == b["n"] and a["a"] == b["a"] and len(a["c"]) == len(b["c"]) and all(tree_eq(x, y) for x, y in zip(a["c"], b["c"]))


def first_diff(a, b, path="Program"):
    if a["n"] != b["n"] or a["a"] != b["a"]:
        return "%s: spec %s(%s), parser %s(%s)" % (path, a["n"], a["a"], b["n"], b["a"])
    if len(a["c"]) != len(b["c"]):
        return "%s/%s: spec has %d children %s, parser %d %s" % (path, a["n"], len(a["c"]), [x["n"] for x in a["c"]], len(b["c"]), [x["n"] for x in b["c"]])
    for i, (x, y) in enumerate(zip(a["c"], b["c"])):
        d = first_diff(x, y, "%s/%s[%d]" % (path, a["n"], i))
        if d: return d
    return None


def well_formed(t):
    """python mirror of ZnGrammar!WellFormed, used on every accepted input (TLC evaluates it on the spec trees)"""
    if t["n"] == "NIL": return "NIL node"
    for c in t["c"]:
        r = well_formed(c)
        if r: return r
    n, k = t["n"], len(t["c"])
    ok = True
    if n in ("Arith", "Logic", "Assign"): ok = k == 2
    elif n == "If": ok = k in (3, 4) and t["c"][1]["n"] == "Block" and len(t["c"][1]["c"]) >= 1 and len(t["c"][2]["c"]) % 2 == 0
    elif n == "While": ok = k == 2 and t["c"][1]["n"] == "Block" and len(t["c"][1]["c"]) >= 1
    elif n == "Iter": ok = k == 3 and len(t["c"][2]["c"]) >= 1
    elif n in ("Func", "Getter", "Ctor"):
        ok = k == 2 and t["c"][0]["n"] == "ID" and t["c"][1]["n"] == "Exec" and len(t["c"][1]["c"]) == 3 and \
            len(t["c"][1]["c"][1]["c"]) + len(t["c"][1]["c"][2]["c"]) >= 1
    elif n == "Exec": ok = k == 3 and (len(t["c"][0]["c"]) == 0 or len(t["c"][1]["c"]) + len(t["c"][2]["c"]) >= 1)
    elif n == "Catch": ok = k == 2 and len(t["c"][1]["c"]) >= 1
    elif n == "Pair": ok = k == 2 and len(t["c"][0]["c"]) >= 1
    elif n == "Return": ok = k == 1
    elif n == "Member": ok = (t["a"] == "prop" and k == 1) or (t["a"] in ("id", "index") and k == 2)
    elif n == "Call": ok = k in (2, 3)
    elif n == "MCall": ok = k in (2, 3) and len(t["c"][1]["c"]) >= 1
    elif n == "Class": ok = k == 4
    elif n == "Prop": ok = k == 2
    elif n == "Dict": ok = k % 2 == 0
    return None if ok else "incomplete %s node (%d children)" % (n, k)


def to_ascii(x, table):
    """nothing non-ASCII goes through TLC (its state queue spills to disk with a lossy string encoding): every
    non-ASCII text of a program is replaced by a placeholder @U<n> and substituted back in TLC's output"""
    if isinstance(x, str):
        if x.isascii(): return x
        if x not in table: table[x] = "@U%d" % (len(table) + 1)
        return table[x]
    if isinstance(x, list): return [to_ascii(y, table) for y in x]
    if isinstance(x, dict): return {k: to_ascii(v, table) for k, v in x.items()}
    return x


def from_ascii(x, back):
    if isinstance(x, str):
        if "@U" in x:
            for ph in sorted(back, key=len, reverse=True):
                x = x.replace(ph, back[ph])
        return x
    if isinstance(x, list): return [from_ascii(y, back) for y in x]
    if isinstance(x, dict): return {k: from_ascii(v, back) for k, v in x.items()}
    return x


def layouts(ctx, progs, cfgs, simulate=None):
    pf = os.path.join(ctx.scratch, "progs-gram.ndjson")
    table = {}
    with open(pf, "w") as f:
        for p in progs:
            f.write(json.dumps(to_ascii(p, table), ensure_ascii=True, separators=(",", ":")) + "\n")
    back = {v: k for k, v in table.items()}
    _vectors = common.vectors
    class _C:      # local view of common with substituting vectors()
        @staticmethod
        def vectors(txt, key=None): return [from_ascii(v, back) for v in _vectors(txt, key)]
    trees, lay = {}, []
    for cfg in cfgs:
        txt, info = common.tlc(ctx, "MC_ZnGrammar", "MC_ZnGrammar_%s.cfg" % cfg, timeout=3000, files=[(pf, "progs.ndjson")])
        for v in _C.vectors(txt):
            if v.get("k") == "tree": trees[v["id"]] = v["tree"]
            elif v.get("k") == "layout": lay.append(v)
    if simulate:
        txt, info = common.tlc(ctx, "MC_ZnGrammar", "MC_ZnGrammar_deep.cfg", workers=4, timeout=1500, files=[(pf, "progs.ndjson")], simulate="num=%d" % simulate, depth=400,
                               extra=["-seed", str(ctx.seed)])
        for v in _C.vectors(txt):
            if v.get("k") == "layout": lay.append(v)
    return trees, lay


def run(ctx):
    znh = common.build_harness(ctx)
    rnd = random.Random(ctx.seed)
    quick = ctx.tier == "quick"
    progs = gramfam.family(ctx.tier, rnd)
    log("[C03] %d programs" % len(progs))
    trees, lay = layouts(ctx, progs, ["dev1", "globals", "minbrace"], simulate=(400 if quick else 6000))
    if len(trees) != len(progs):
        raise common.NoVerdict("TLC emitted %d trees for %d programs" % (len(trees), len(progs)))
    seen = set(); cases = []
    for v in lay:
        key = (v["id"], v["unit"], v["eol"], tuple(v["out"]))
        if key in seen: continue
        seen.add(key)
        cases.append(dict(id=len(cases), out=v["out"], unit=v["unit"], eol=v["eol"], pid=v["id"], dev=v["dev"]))
    res = common.run_harness(ctx, znh, "parse", cases, timeout=3000)
    byprog = {p["id"]: p for p in progs}
    devkinds = {}
    for r in res:
        c = cases[r["id"]]
        p = byprog[c["pid"]]
        spec = trees[c["pid"]]
        canon = [x for x in c["out"]]
        dk = sorted(set(x.split(":")[0] for x in c["out"] if x.split(":")[0] in ("sp", "cmt", "eolc1", "eolc2", "eolc3", "eolc4", "eolc5", "blankline", "comma", "brk", "brk0", "asg2", "dot2", "op2", "opt", "op2t", "lp2", "rp2", "col2", "comma2", "lb2", "rb2", "q2", "bang2")))
        for k in dk: devkinds[k] = devkinds.get(k, 0) + 1
        tag = "+".join(dk) or ("globals:%s/%s" % (c["unit"], c["eol"]))
        def rep(kind, what):
            common.report(ctx, "%s:%s" % (kind, tag), what, dict(program_tag=p.get("tag"), text=r.get("text"), layout=tag, result={k: r.get(k) for k in ("obs", "code", "cursor", "detail")}))
        if r["obs"] in ("timeout", "panic", "exit", "harness-error"):
            rep(r["obs"], "parser %s on a rendering of program '%s'" % (r["obs"], p.get("tag"))); continue
        if r.get("mutated") is not None:
            rep("source-changed", "parsing CHANGED the program text it was given: now %r" % r["mutated"][:120]); continue
        if r["obs"] != "tree":
            rep("rejected", "program '%s' rendered with layout [%s] is rejected: %s code %s at %s" % (p.get("tag"), tag, r["obs"], r.get("code"), r.get("cursor"))); continue
        if not tree_eq(spec, r["tree"]):
            rep("tree", "program '%s' rendered with layout [%s] parses to a different tree: %s" % (p.get("tag"), tag, first_diff(spec, r["tree"])))
            continue
        wf = well_formed(r["tree"])
        if wf:
            rep("incomplete", "accepted tree is incomplete: %s" % wf)
    # ---- corrupted renderings (one token deleted / duplicated / swapped, one whole line dropped - TLC, Mutate): whatever the parser
    # ACCEPTS must be a complete tree ("any tree the parser returns is complete"); what it rejects is C05's subject
    def corruptible(p_):
        return any(f.get("params") for f in p_.get("funcs", [])) or p_.get("classes") or p_.get("inputs") or p_.get("catches")
    cand = [p_ for p_ in progs if corruptible(p_)]
    small = [p_ for p_ in progs if p_.get("tag") == "one-statement-bodies"] + rnd.sample(cand, min(len(cand), 8 if quick else 40)) + rnd.sample(progs, 6 if quick else 30)
    small = [json.loads(json.dumps(p_)) for p_ in {p_["id"]: p_ for p_ in small}.values()]
    pf = os.path.join(ctx.scratch, "progs-mut.ndjson")
    table = {}
    open(pf, "w").write("".join(json.dumps(to_ascii(p_, table), ensure_ascii=True) + "\n" for p_ in small))
    back = {v: k for k, v in table.items()}
    mt, _ = common.tlc(ctx, "MC_ZnGrammar", "MC_ZnGrammar_mutate.cfg", timeout=3000, files=[(pf, "progs.ndjson")])
    seenm = set(); mcases = []
    for v in common.vectors(mt, "layout"):
        v = from_ascii(v, back)
        if v["dev"] == 0: continue
        k = (v["id"], tuple(v["out"]))
        if k in seenm: continue
        seenm.add(k)
        mcases.append(dict(id=len(mcases), out=v["out"], unit="sp4", eol="lf", pid=v["id"]))
    mres = common.run_harness(ctx, znh, "parse", mcases, timeout=3000, args=["-t", "3"])
    nacc = 0
    for r in mres:
        c = mcases[r["id"]]
        if r["obs"] in ("timeout", "panic", "exit", "harness-error"):
            common.report(ctx, "corrupt:%s" % r["obs"], "parser %s on a corrupted rendering of '%s'" % (r["obs"], byprog[c["pid"]].get("tag")), dict(text=r.get("text"), result=r.get("detail")))
        elif r["obs"] == "tree":
            nacc += 1
            wf = well_formed(r["tree"])
            if wf:
                common.report(ctx, "corrupt:incomplete:" + wf.split(" (")[0], "a corrupted rendering of '%s' is ACCEPTED with an incomplete tree: %s" % (byprog[c["pid"]].get("tag"), wf),
                              dict(text=r.get("text"), tree=r["tree"]))
    log("[C03] %d corrupted renderings of %d programs, %d accepted (all checked complete)" % (len(mcases), len(small), nacc))
    cov = dict(traces_validated_against_impl=len(cases) + len(mcases), corrupted_renderings=len(mcases), corrupted_accepted=nacc, samples=[dict(program=progs[3]["tag"], pieces=lay[50]["out"][:40], unit=lay[50]["unit"], eol=lay[50]["eol"])],
               evaluations=len(cases), distinct_nontrivial=len(cases),
               rule="%d programs covering every statement kind, expression form and program section (imports, inputs, types with properties/getters/methods/constructors, methods with "
                    "handlers, statements, handlers; drawn from the hand-written grammar family and from the C02/C06/C07/C08/C09 families). For each program TLC computes Tree(prog) "
                    "(checked complete) and Tokens(prog), and the layout machine emits: the canonical rendering, EVERY rendering with exactly one deviation (synonym spelling, ASCII "
                    "punctuation, comparison / logic operators written without surrounding blanks, extra blank, /* */ comment, end-of-line // and 注： comments, block comments spanning lines with the closing mark at the start of a line, blank line, comma before 且/或/得到, line break after 【 ， 、 { and before 】 }), all 6 "
                    "combinations of indentation unit x line terminator, the rendering with braces only where the documented precedence table requires them (MinBrace), and %d simulated renderings with up to 5 deviations; every rendering is parsed by the real parser and the "
                    "dumped tree must equal Tree(prog) (hence all renderings agree) and be complete. Plus every rendering of a sample of the programs with one token deleted / duplicated / swapped or one "
                    "whole line dropped (TLC, Mutate): whatever the parser accepts must be a complete tree (a definition has a body, an 输入 line is followed by statements, ...)" % (len(progs), 400 if quick else 6000),
               programs=len(progs), deviation_kinds=devkinds)
    return cov, ["expressions are rendered with braces around compound operands, except in the MinBrace rendering (grouping by the precedence table; the VALUES are C01's subject)",
                 "layout freedom is limited to the positions the manual exemplifies (DESIGN C03)", "identifier glyphs: ASCII names and the predefined Chinese names"]
