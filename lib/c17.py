"""C17 - source files are decoded losslessly or rejected (spec/ZnFile.tla)."""
import common, random
from common import log


def run(ctx):
    znh = common.build_harness(ctx)
    cfg = "MC_ZnFile_quick.cfg" if ctx.tier == "quick" else "MC_ZnFile_thorough.cfg"
    txt, info = common.tlc(ctx, "ZnFile", cfg, timeout=1500)
    vecs = common.vectors(txt, "file")
    if len(vecs) < 1000:
        raise common.NoVerdict("too few vectors from TLC: %d" % len(vecs))
    rnd = random.Random(ctx.seed)
    bss = [1, 2, 3, 4, 5] if ctx.tier == "quick" else [1, 2, 3, 4, 5, 6, 7]
    nreps = 2 if ctx.tier == "quick" else 6
    cases = []
    for i, v in enumerate(vecs):
        r0 = rnd.randrange(6)
        reps = [(r0 + j) % 6 for j in range(nreps)]
        # end-to-end execution for every valid file and a seeded sample of the invalid ones
        ex = v["ok"] or rnd.random() < (0.08 if ctx.tier == "quick" else 0.3)
        cases.append(dict(id=i, f=v["f"], ok=v["ok"], chars=v["chars"], bom=v["bom"], bss=bss, reps=reps, exec=ex))
    res = common.run_harness(ctx, znh, "file", cases, timeout=3000)
    runs = 0
    nontrivial = set()
    byid = {c["id"]: c for c in cases}
    for r in res:
        c = byid[r["id"]]
        if r["obs"] != "done":
            common.report(ctx, "harness:%s" % r["obs"], "driver observation %s: %s" % (r["obs"], r.get("detail", "")),
                          dict(case=c, result=r))
            continue
        runs += r["runs"]
        if len(c["f"]) >= 2 and any(s not in ("A",) for s in c["f"]):
            nontrivial.add(tuple(c["f"]))
        for m in r.get("mism") or []:
            api = m["api"].split("@")[0]
            sig = "%s:%s" % (api, m["kind"])
            common.report(ctx, sig, "%s on bytes [%s]: want %s, got %s" % (m["api"], m["hex"], m["want"], m["got"]),
                          dict(vector=c["f"], spec_ok=c["ok"], spec_chars=c["chars"], mismatch=m))
    if len(res) != len(cases):
        raise common.NoVerdict("harness returned %d results for %d cases" % (len(res), len(cases)))
    valid = [v for v in vecs if v["ok"]]
    samples = [dict(file=v["f"], spec_ok=v["ok"], spec_chars=v["chars"], bom=v["bom"]) for v in
               (rnd.sample(valid, 3) + rnd.sample(vecs, 3))]
    cov = dict(
        states=ctx.states, transitions=ctx.transitions,
        traces_validated_against_impl=len(res),
        samples=samples,
        evaluations=runs, distinct_nontrivial=len(nontrivial),
        rule="TLC enumerates every byte-symbol file up to the configured length x every block size and checks "
             "that the chunked decoder refines the one-shot decoder; each file vector (expected chars/error computed "
             "by TLC) is replayed with %d concrete byte representatives through FileStream.Read(n) for n in %s, "
             "FileStream.ReadAll (plain and with the vector straddling the 4096-byte boundary at every split), "
             "ByteStream.ReadAll and LoadFile().Execute; non-trivial = at least 2 bytes and not pure ASCII" % (nreps, bss),
        vectors=len(vecs), valid_vectors=len(valid), impl_runs=runs, exhaustive=True,
        checker_cmd="tlc -config %s ZnFile.tla" % cfg,
    )
    assumptions = [
        "byte classes are represented by boundary bytes (table symBytes in harness/cmd/znh/c17.go); validity of a sequence depends on the class only (RFC 3629 table 3-7)",
        "expected code points are computed from the expected byte tuples by the UTF-8 bit formula, not by unicode/utf8",
        "files longer than the bound are covered only through the 4096-boundary placement (ASCII padding)",
    ]
    return cov, assumptions
