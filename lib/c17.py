"""C17 - source files are decoded losslessly or rejected (spec/ZnFile.tla)."""
import common, random
from common import log


def run(ctx):
    znh = common.build_harness(ctx)
    cfg = "MC_ZnFile_quick.cfg" if ctx.tier == "quick" else "MC_ZnFile_thorough.cfg"
    txt, info = common.tlc(ctx, "ZnFile", cfg, timeout=1500)
    vecs = common.vectors(txt, "file")
    if len(vecs) < 1000:
        raise common.NoVerdict("too few vectors from TLC: %d" % len(vecs))
    rnd = random.Random(ctx.seed)
    bss = [1, 2, 3, 4, 5] if ctx.tier == "quick" else [1, 2, 3, 4, 5, 6, 7]
    nreps = 2 if ctx.tier == "quick" else 6
    cases = []
    for i, v in enumerate(vecs):
        r0 = rnd.randrange(6)
        reps = [(r0 + j) % 6 for j in range(nreps)]
        # end-to-end execution for every valid file and a seeded sample of the invalid ones
        ex = v["ok"] or rnd.random() < (0.08 if ctx.tier == "quick" else 0.3)
        cases.append(dict(id=i, f=v["f"], ok=v["ok"], chars=v["chars"], bom=v["bom"], bss=bss, reps=reps, exec=ex))
    res = common.run_harness(ctx, znh, "file", cases, timeout=3000)
    runs = 0
    nontrivial = set()
    byid = {c["id"]: c for c in cases}
    for r in res:
        c = byid[r["id"]]
        if r["obs"] != "done":
            common.report(ctx, "harness:%s" % r["obs"], "driver observation %s: %s" % (r["obs"], r.get("detail", "")),
                          dict(case=c, result=r))
            continue
        runs += r["runs"]
        if len(c["f"]) >= 2 and any(s not in ("A",) for s in c["f"]):
            nontrivial.add(tuple(c["f"]))
        for m in r.get("mism") or []:
            api = m["api"].split("@")[0]
            sig = "%s:%s" % (api, m["kind"])
            common.report(ctx, sig, "%s on bytes [%s]: want %s, got %s" % (m["api"], m["hex"], m["want"], m["got"]),
                          dict(vector=c["f"], spec_ok=c["ok"], spec_chars=c["chars"], mismatch=m))
    if len(res) != len(cases):
        raise common.NoVerdict("harness returned %d results for %d cases" % (len(res), len(cases)))
    # ---- short reads (ZnFileShort): every read delivers any number of bytes; schedules replayed through a FIFO ----
    stxt, _ = common.tlc(ctx, "ZnFileShort", "MC_ZnFileShort.cfg" if ctx.tier == "quick" else "MC_ZnFileShort_thorough.cfg", timeout=2500)
    svecs = common.vectors(stxt, "sched")
    if len(svecs) < 50000:
        raise common.NoVerdict("too few short-read vectors from TLC: %d" % len(svecs))
    multi = [v for v in svecs if len(v["sched"]) >= 2]
    ssample = rnd.sample(multi, min(len(multi), 12000 if ctx.tier == "quick" else 120000))
    scases = [dict(id=i, f=v["f"], sched=v["sched"], ok=v["ok"], chars=v["chars"], bom=v["bom"], reps=[rnd.randrange(6)]) for i, v in enumerate(ssample)]
    sres = common.run_harness(ctx, znh, "fileshort", scases, timeout=3000, args=["-t", "20"])
    if len(sres) != len(scases):
        raise common.NoVerdict("harness returned %d results for %d short-read cases" % (len(sres), len(scases)))
    for r in sres:
        c = scases[r["id"]]
        if r["obs"] != "done":
            common.report(ctx, "harness-short:%s" % r["obs"], "driver observation %s: %s" % (r["obs"], r.get("detail", "")), dict(case=c, result=r)); continue
        runs += r["runs"]
        for m in r.get("mism") or []:
            common.report(ctx, "%s:%s" % (m["api"].split("@")[0] + "@short-reads", m["kind"]), "%s on bytes [%s]: want %s, got %s" % (m["api"], m["hex"], m["want"], m["got"]),
                          dict(vector=c["f"], schedule=c["sched"], spec_ok=c["ok"], spec_chars=c["chars"], mismatch=m))
    # ---- "whatever its size": valid vectors tiled far beyond the sizes of ordinary programs (64 KiB .. 16 MiB), with a marker at the very end
    units = [v for v in vecs if v["ok"] and v["chars"] and not v["bom"] and all("X" != y for y in v["f"])]
    by_width = {}
    for v in units:
        by_width.setdefault(tuple(len(ch) for ch in v["chars"]), []).append(v)
    bcases = []
    sizes = [(1 << 16) + 1, (1 << 20) + 3, (4 << 20) + 5] + ([(16 << 20) + 1] if ctx.tier != "quick" else [(8 << 20) + 2])
    for w in ((1,), (2,), (3,), (4,), (1, 3), (4, 1, 2)):
        if w not in by_width: continue
        for sz in sizes:
            v = rnd.choice(by_width[w])
            bcases.append(dict(id=len(bcases), f=v["f"], chars=v["chars"], size=sz, rep=rnd.randrange(6), bom=bool(len(bcases) % 2)))
    bres = common.run_harness(ctx, znh, "filebig", bcases, timeout=3000, args=["-t", "120", "-j", "4"])
    if len(bres) != len(bcases):
        raise common.NoVerdict("harness returned %d results for %d big-file cases" % (len(bres), len(bcases)))
    for r in bres:
        c = bcases[r["id"]]
        if r["obs"] != "done":
            common.report(ctx, "harness-big:%s" % r["obs"], "driver observation %s: %s" % (r["obs"], r.get("detail", "")), dict(case=c, result=r)); continue
        runs += r["runs"]
        for m in r.get("mism") or []:
            common.report(ctx, "%s:%s" % (m["api"], m["kind"]), "%s, %s: want %s, got %s" % (m["api"], m["hex"], m["want"], m["got"]), dict(case=c, mismatch=m))
    # ---- loads in flight at the same time (ZnFileTwo): intended design holds, the shared-buffer deviation is refuted ----
    common.tlc(ctx, "MC_ZnFileTwo", "MC_ZnFileTwo.cfg", timeout=600)
    _, dinfo = common.tlc(ctx, "MC_ZnFileTwo", "MC_ZnFileTwo_shared.cfg", timeout=600, allow_violation=True)
    if not dinfo["violated"]:
        raise common.NoVerdict("model is vacuous: ZnFileTwo with one shared block buffer is not refuted")
    valid3 = [v for v in vecs if v["ok"] and len(v["f"]) >= 2]
    invalid3 = [v for v in vecs if not v["ok"] and len(v["f"]) >= 2]
    ccases = []
    for i in range(60 if ctx.tier == "quick" else 600):
        fl = rnd.sample(valid3, 5) + rnd.sample(invalid3, 1)
        rnd.shuffle(fl)
        ccases.append(dict(id=i, files=[dict(f=v["f"], chars=v["chars"], ok=v["ok"], bom=v["bom"]) for v in fl], rep=rnd.randrange(6), loops=40))
    cres = common.run_harness(ctx, znh, "fileconc", ccases, timeout=3000, args=["-t", "60"])
    if len(cres) != len(ccases):
        raise common.NoVerdict("harness returned %d results for %d concurrent cases" % (len(cres), len(ccases)))
    for r in cres:
        c = ccases[r["id"]]
        if r["obs"] != "done":
            common.report(ctx, "harness-conc:%s" % r["obs"], "driver observation %s: %s" % (r["obs"], r.get("detail", "")), dict(case=c, result=r)); continue
        runs += r["runs"]
        for m in r.get("mism") or []:
            common.report(ctx, "%s:%s" % (m["api"], m["kind"]), "%s, %s: want %s, got %s" % (m["api"], m["hex"], m["want"], m["got"]), dict(case=c, mismatch=m))
    valid = [v for v in vecs if v["ok"]]
    samples = [dict(file=v["f"], spec_ok=v["ok"], spec_chars=v["chars"], bom=v["bom"]) for v in
               (rnd.sample(valid, 3) + rnd.sample(vecs, 3))]
    cov = dict(
        states=ctx.states, transitions=ctx.transitions,
        traces_validated_against_impl=len(res),
        samples=samples,
        evaluations=runs, distinct_nontrivial=len(nontrivial),
        rule="TLC enumerates every byte-symbol file up to the configured length x every block size and checks "
             "that the chunked decoder refines the one-shot decoder; each file vector (expected chars/error computed "
             "by TLC) is replayed with %d concrete byte representatives through FileStream.Read(n) for n in %s, "
             "FileStream.ReadAll (plain and with the vector straddling the 4096-byte boundary at every split), "
             "ByteStream.ReadAll and LoadFile().Execute; every valid vector also TILED into a file of more than two read blocks (ConcatLemma checked by TLC), plain and behind a byte-order mark; "
             "short reads (ZnFileShort): every read delivers any number 1..3 (thorough 1..4) of bytes of files <= 4 symbols - TLC checks the refinement under every schedule and emits (file, schedule), a seeded sample of them is replayed through a FIFO "
             "whose writer hands out exactly those portions (ReadAll and a Read(4096) loop); loads in flight at the same time (ZnFileTwo: own buffer per load holds, one shared block buffer refuted by TLC): "
             "6 goroutines x 40 rounds decode their own tiled file each while the others decode theirs; big files: vectors of every character width tiled to 64 KiB, 1 MiB, 4 MiB, 8 (16) MiB (+ a marker at the end), as a raw file and as a program whose last statement must run; non-trivial = at least 2 bytes and not pure ASCII" % (nreps, bss),
        vectors=len(vecs), valid_vectors=len(valid), impl_runs=runs, exhaustive=True,
        checker_cmd="tlc -config %s ZnFile.tla" % cfg,
    )
    assumptions = [
        "byte classes are represented by boundary bytes (table symBytes in harness/cmd/znh/c17.go); validity of a sequence depends on the class only (RFC 3629 table 3-7)",
        "expected code points are computed from the expected byte tuples by the UTF-8 bit formula, not by unicode/utf8",
        "files longer than the bound are covered only through the 4096-boundary placement (ASCII padding)",
    ]
    return cov, assumptions
