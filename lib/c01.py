"""C01 - expressions evaluate to the documented values (spec/ZnExpr.tla)."""
import common, random, concurrent.futures as cf
from common import log


def root_ops(t, acc):
    if t["k"] == "bin":
        acc.add(t["op"]); root_ops(t["l"], acc); root_ops(t["r"], acc)
    return acc


def run(ctx):
    znh = common.build_harness(ctx)
    fams = ["A", "B"] + (["R"] if ctx.tier == "thorough" else [])
    vecs = []

    def one(f):
        extra = []
        if f == "R":
            extra = ["-seed", str(ctx.seed)]
        return common.tlc(ctx, "ZnExpr", "MC_ZnExpr_%s.cfg" % f, workers=8, timeout=1500, extra=extra)
    with cf.ThreadPoolExecutor(max_workers=3) as ex:
        for txt, info in ex.map(one, fams):
            vecs += common.vectors(txt, "expr")
    if len(vecs) < 40000:
        raise common.NoVerdict("too few vectors from TLC: %d" % len(vecs))
    rnd = random.Random(ctx.seed)
    cases = []
    for i, v in enumerate(vecs):
        # style 0 minimal/symbols/plain literals, 1 keyword synonyms + varied numeric spellings,
        # 2 fully braced, 3 leaves through variables, 4 keywords via 令结果
        styles = [0, 2, 1 + (i + ctx.seed) % 8] if ctx.tier == "quick" else [0, 1, 2, 3, 4, 5, 6, 7, 8]
        c = dict(v); c.pop("k"); c["id"] = i; c["styles"] = styles
        cases.append(c)
    res = common.run_harness(ctx, znh, "expr", cases, timeout=3000)
    if len(res) != len(cases):
        raise common.NoVerdict("harness returned %d results for %d cases" % (len(res), len(cases)))
    runs = 0
    outs = {"done": 0, "err": 0, "big": 0}
    for r in res:
        c = cases[r["id"]]
        outs[c["out"]] += 1
        if r["obs"] != "done":
            common.report(ctx, "driver:%s" % r["obs"], "observation %s: %s" % (r["obs"], r.get("detail", "")), dict(case=c, result=r))
            continue
        runs += r["runs"]
        for m in r.get("mism") or []:
            ops = sorted(root_ops(c["tree"], set()))
            sig = "%s:%s" % (m["kind"], c["tree"]["op"])
            common.report(ctx, sig, "`%s` (style %d): spec says %s, interpreter gave %s" % (m["expr"], m["style"], m["want"], m["got"]),
                          dict(tree=c["tree"], ops=ops, spec_out=c["out"], spec_val=c["val"], spec_probe_order=c["ord"], mismatch=m))
    # ---- IEEE facet: slot trees + lowered primitive code from TLC, doubles from the pool below
    itxt, iinfo = common.tlc(ctx, "MC_ZnExpr_I", "MC_ZnExpr_I.cfg", workers=2, timeout=900)
    ivecs = common.vectors(itxt, "iexpr")
    if len(ivecs) < 20000:
        raise common.NoVerdict("too few family-I vectors from TLC: %d" % len(ivecs))
    POOL = ["0", "-0", "1", "-1", "2", "3", "-7", "7", "0.5", "2.5", "0.1", "0.3", "0.01", "4.35", "1e300", "-1e300", "1e308", "1.7976931348623157e308",
            "5e-324", "1e-300", "9007199254740992", "9007199254740993", "+Inf", "-Inf", "NaN"]
    icases = []
    per = 2 if ctx.tier == "quick" else 12
    for i, v in enumerate(ivecs):
        nslots = max([t["id"] for t in v["mt"] if t["k"] == "slot"] or [0])
        if nslots == 0:
            continue
        if len(v["mt"]) == 3 and nslots == 2:       # family IA: one operator, every ordered pair of pool values
            vals = [[a, b] for a in POOL for b in POOL]
        else:
            vals = [[rnd.choice(POOL) for _ in range(nslots)] for _ in range(per)]
        if not (len(v["mt"]) == 3 and nslots == 2):
            vals = vals + [[rnd.choice(POOL[:14]) for _ in range(nslots)] for _ in range(3)]       # a few more rows for the re-evaluation pass
        icases.append(dict(id=len(icases), mt=v["mt"], code=v["code"], vals=vals, style=(i + ctx.seed) % 2, style2=(i // 2 + ctx.seed) % 4))
    ires = common.run_harness(ctx, znh, "iexpr", icases, timeout=3000)
    if len(ires) != len(icases):
        raise common.NoVerdict("harness returned %d results for %d family-I cases" % (len(ires), len(icases)))
    iruns = 0
    for r in ires:
        c = icases[r["id"]]
        if r["obs"] != "done":
            common.report(ctx, "driver:%s" % r["obs"], "observation %s: %s" % (r["obs"], r.get("detail", "")), dict(case=c["mt"], result=r))
            continue
        iruns += r["runs"]
        for m in r.get("mism") or []:
            ops = sorted(set(t["op"] for t in c["mt"] if t["k"] == "op"))
            common.report(ctx, "%s:%s" % (m["kind"], "+".join(ops) if len(ops) == 1 else "chain"),
                          "`%s` with slots %s: lowered code over float64 gives %s, interpreter gave %s" % (m["expr"], m["vals"], m["want"], m["got"]),
                          dict(expr=m["expr"], slots=m["vals"], lowered_code=c["code"], mismatch=m))
    runs += iruns
    sample = rnd.sample(vecs, 4)
    cov = dict(
        traces_validated_against_impl=runs,
        samples=[dict(minimal_tokens=[(t.get("op") or t.get("id") or t.get("v") or t["k"]) for t in s["mt"]],
                      spec_outcome=s["out"], spec_value=s["val"], probe_order=s["ord"]) for s in sample],
        evaluations=runs, distinct_nontrivial=outs["done"] + outs["err"],
        rule="family A: every operator x every ordered pair of 16 leaves; family B: all 4096 ordered operator triples x 5 tree shapes x 2 "
             "type-directed leaf assignments; family R (thorough): TLC RandomElement trees of depth<=4. Each tree is compiled to the spec's "
             "stack machine, TLC checks machine = reference evaluator in every terminal state, and emits tree + minimal-brace token list + "
             "expected value/error + probe order; every vector runs in several spellings through Interpreter.Execute. Non-trivial = vectors "
             "whose expected outcome is a value or an error (not the magnitude guard). IEEE facet (family I): the same operator-triple trees with "
             "numeric leaves replaced by slots, LOWERED by the spec to primitive code (+ - * / floor, ordered comparisons, ==; TLC invariant "
             "LoweringAgrees: the lowered code over exact rationals = the reference evaluator on every tree of families A/B/R); the harness runs "
             "the lowered code over float64 with slot values from a 25-value pool (0, -0, 0.1, 4.35, 2^53+1, 1e308, 5e-324, +-Inf, NaN, ...): "
             "every operator x every ordered pair, random assignments for the triples; results compared bit for bit; RE-EVALUATION: every slot tree also as the body of a method whose inputs carry the slots "
             "(names of 4 shapes, also names that begin with + or -), called for all rows of slot values within ONE execution: row by row the result of the lowered code",
        ieee_cases=len(icases), ieee_runs=iruns,
        vectors=len(vecs), expected_values=outs["done"], expected_errors=outs["err"], skipped_magnitude_guard=outs["big"],
        exhaustive=(ctx.tier == "quick"),
        checker_cmd="tlc -config MC_ZnExpr_{A,B,R}.cfg ZnExpr.tla",
    )
    assumptions = [
        "numbers in the spec are exact rationals; on vectors flagged exact (all intermediates dyadic) IEEE-754 arithmetic is exact and results are compared bit-exactly, otherwise within 1e-12 relative; vectors where floor/remainder/comparison consumed a non-dyadic value are compared for error-vs-value only",
        "IEEE facet: the primitives + - * / floor < > <= >= == on two doubles are Go's float64 operations (trusted); what each Zn operator means in terms of them is the spec's lowering",
        "numeric literal spellings are produced by the harness for the 8 pool values (all exactly representable decimals); what a spelling denotes is C04's subject",
    ]
    return cov, assumptions
