"""C01 - expressions evaluate to the documented values (spec/ZnExpr.tla)."""
import common, random, concurrent.futures as cf
from common import log


def root_ops(t, acc):
    if t["k"] == "bin":
        acc.add(t["op"]); root_ops(t["l"], acc); root_ops(t["r"], acc)
    return acc


def run(ctx):
    znh = common.build_harness(ctx)
    fams = ["A", "B"] + (["R"] if ctx.tier == "thorough" else [])
    vecs = []

    def one(f):
        extra = []
        if f == "R":
            extra = ["-seed", str(ctx.seed)]
        return common.tlc(ctx, "ZnExpr", "MC_ZnExpr_%s.cfg" % f, workers=8, timeout=1500, extra=extra)
    with cf.ThreadPoolExecutor(max_workers=3) as ex:
        for txt, info in ex.map(one, fams):
            vecs += common.vectors(txt, "expr")
    if len(vecs) < 40000:
        raise common.NoVerdict("too few vectors from TLC: %d" % len(vecs))
    rnd = random.Random(ctx.seed)
    cases = []
    for i, v in enumerate(vecs):
        # style 0 minimal/symbols/plain literals, 1 keyword synonyms + varied numeric spellings,
        # 2 fully braced, 3 leaves through variables, 4 keywords via 令结果
        styles = [0, 2, 1 + (i + ctx.seed) % 7] if ctx.tier == "quick" else [0, 1, 2, 3, 4, 5, 6, 7]
        c = dict(v); c.pop("k"); c["id"] = i; c["styles"] = styles
        cases.append(c)
    res = common.run_harness(ctx, znh, "expr", cases, timeout=3000)
    if len(res) != len(cases):
        raise common.NoVerdict("harness returned %d results for %d cases" % (len(res), len(cases)))
    runs = 0
    outs = {"done": 0, "err": 0, "big": 0}
    for r in res:
        c = cases[r["id"]]
        outs[c["out"]] += 1
        if r["obs"] != "done":
            common.report(ctx, "driver:%s" % r["obs"], "observation %s: %s" % (r["obs"], r.get("detail", "")), dict(case=c, result=r))
            continue
        runs += r["runs"]
        for m in r.get("mism") or []:
            ops = sorted(root_ops(c["tree"], set()))
            sig = "%s:%s" % (m["kind"], c["tree"]["op"])
            common.report(ctx, sig, "`%s` (style %d): spec says %s, interpreter gave %s" % (m["expr"], m["style"], m["want"], m["got"]),
                          dict(tree=c["tree"], ops=ops, spec_out=c["out"], spec_val=c["val"], spec_probe_order=c["ord"], mismatch=m))
    sample = rnd.sample(vecs, 4)
    cov = dict(
        traces_validated_against_impl=runs,
        samples=[dict(minimal_tokens=[(t.get("op") or t.get("id") or t.get("v") or t["k"]) for t in s["mt"]],
                      spec_outcome=s["out"], spec_value=s["val"], probe_order=s["ord"]) for s in sample],
        evaluations=runs, distinct_nontrivial=outs["done"] + outs["err"],
        rule="family A: every operator x every ordered pair of 16 leaves; family B: all 4096 ordered operator triples x 5 tree shapes x 2 "
             "type-directed leaf assignments; family R (thorough): TLC RandomElement trees of depth<=4. Each tree is compiled to the spec's "
             "stack machine, TLC checks machine = reference evaluator in every terminal state, and emits tree + minimal-brace token list + "
             "expected value/error + probe order; every vector runs in several spellings through Interpreter.Execute. Non-trivial = vectors "
             "whose expected outcome is a value or an error (not the magnitude guard)",
        vectors=len(vecs), expected_values=outs["done"], expected_errors=outs["err"], skipped_magnitude_guard=outs["big"],
        exhaustive=(ctx.tier == "quick"),
        checker_cmd="tlc -config MC_ZnExpr_{A,B,R}.cfg ZnExpr.tla",
    )
    assumptions = [
        "numbers in the spec are exact rationals; on vectors flagged exact (all intermediates dyadic) IEEE-754 arithmetic is exact and results are compared bit-exactly, otherwise within 1e-12 relative; vectors where floor/remainder/comparison consumed a non-dyadic value are compared for error-vs-value only",
        "IEEE extremes (huge/tiny/non-finite doubles) are outside what TLA+ integers can state (DESIGN section 6)",
        "numeric literal spellings are produced by the harness for the 8 pool values (all exactly representable decimals); what a spelling denotes is C04's subject",
    ]
    return cov, assumptions
