#!/usr/bin/env python3
"""Generates /verif/MANIFEST.json from the table below (single source of truth for the interface)."""
import json, os
V = os.path.dirname(os.path.dirname(os.path.abspath(__file__)))
props = [json.loads(l) for l in open(os.path.join(V, "properties.jsonl"))]

EVAL_NOTE = "trusted: TLC; the renderer's canonical layout and path->line map; H2 hook events (emitted after each VM state change in the single evaluator goroutine); program families are bounded (sizes in the evidence)"
CHECKS = {
 "C03": dict(
   technique="TLA+ grammar spec (ZnGrammar: prescribed tree, canonical token sequence, layout-option machine) model-checked by TLC; every TLC-emitted rendering parsed by the real parser and the dumped tree compared with the prescribed tree",
   level="For ~75 (thorough ~550) programs covering every statement kind, expression form and program section TLC computes Tree(prog) (checked complete) and Tokens(prog) and the layout machine emits the canonical rendering, every rendering with exactly one deviation (synonymous spelling, ASCII punctuation, extra blank, /* */ comment, end-of-line // and 注： comments, blank line, comma before 且/或/得到, line breaks after 【 ， 、 { and before 】 }), all 6 indentation-unit x line-terminator combinations and simulated renderings with up to 5 deviations (quick ~16600 renderings): each is parsed by the real parser and its dumped tree must equal Tree(prog) - so all renderings of a program agree - and be complete.",
   note="trusted: TLC; the nil-safe tree dumper and the piece->text table of the harness; layout freedom limited to the positions the manual exemplifies; operands braced (precedence is C01)", ref="5 C03"),
 "C05": dict(
   technique="TLA+ outcome automaton of the front end (ZnFront) model-checked by TLC, which also enumerates the input texts; token-level corruptions from the ZnGrammar layout machine; outcome records of the real parser + error printer validated against the automaton (TLC trace validation on a sample, a Python mirror of the same predicate on all records)",
   level="Inputs: every text of length <= 3 over 36 character classes (incl. TAB/blank indentation mixes, lone CR, every bracket/quote/back-tick, control characters, NUL) and a seeded 1/30 (thorough: all 1.7M) of length 4; every single token deletion/duplication/swap of grammar-covering programs; every prefix of a sample of those mutants; the short texts also as input-variable text. Each runs in a worker process with a watchdog: exactly one outcome, a syntax error has code 20..27, 0 <= cursor <= length and a report that quotes a physical line of the source, an accepted tree is complete; hang, panic, non-syntax error and nil tree are not outcomes of the automaton. ~52000 records are validated by TLC against Trace_ZnFront, all ~120000 by the mirrored predicate.",
   note="trusted: TLC; worker-process isolation; one character per class; TLC validates a sample only (JSON volume)", ref="5 C05"),
 "C20": dict(
   technique="TLA+ spec of the prefork master (ZnPrefork: one action per critical section, asynchronous spawn loops, intended design vs named deviation 'ascoded') exhaustively model-checked by TLC; TLC counterexamples and simulated behaviours replayed through H5 scheduling gates into the real master with real worker processes; every recorded H5 event log validated by TLC against Trace_ZnPrefork",
   level="TLC explores every interleaving of master, spawn-loop, worker and fault actions for small configurations (init <= max <= 3, thorough 4; batch 10 and 2; <= 3 requests, <= 1 crash/hang): live <= max, refCount = registered + reserved, live <= refCount <= max, a timeout changes no other worker (thorough: refill liveness under fairness). In the same run TLC refutes Bound for the original bookkeeping and its counterexample schedules, plus simulated behaviours of the intended design, are replayed into the real ZnPMServer.StartMaster (in-process) with real StartWorker child processes by holding and releasing cmd.Start and the three channel sends in schedule order; free-running randomized load with hung requests and crashing workers is run over 6 configurations. Every run is checked for live <= max (event log and /proc sampling), >= init alive once quiet, exactly-one own-token response per request, and its complete event log is accepted by the trace spec (action, refCount, table size and spawn-loop size bound at every event).",
   note="trusted: TLC; H5 hooks (events emitted by the goroutine that performs the step; gates before the sends); /proc as the independent process count; worker-internal steps unlogged", ref="5 C20"),
 "C16": dict(
   technique="TLA+ isolation spec (ZnIso: process-level cells, polluter alphabet, intended design vs named deviation 'ascoded') model-checked by TLC; all polluter sequences replayed in fresh processes against a probe; all interleavings of concurrent requests replayed through the real playground handler with H4 scheduling gates; Go race detector in the thorough tier",
   level="Sequential: TLC enumerates all 400 sequences of <= 3 polluters over a 7-letter alphabet (in-place mutation of 数值, redefinition of the constructor of 异常 and of a library type, mutation of a library default through an instance, failure three calls deep, declarations, imports); each runs on one interpreter object and on separate ones in a fresh process, followed by a probe that reads every cell, whose observation must equal the pristine one. Concurrent: all interleavings of bind-source / read-source of 2 requests (and 30 of the 90 of 3; thorough all) are forced through one ZnPlaygroundHandler by blocking gates: every request must get its own program's result. In every run TLC proves Isolation / OwnProgram for the intended design and refutes them for the deviation (sensitivity). Data races are reported by go build -race in the thorough tier.",
   note="trusted: TLC; fresh-process baseline for the probe; H4 gates emitted before/after the field accesses; race detector (not model-checked) for the data-race clause", ref="5 C16"),
 "C15": dict(
   technique="TLA+ depth-first module loader state machine (ZnModule) model-checked by TLC over all import digraphs; TLC-emitted body traces/results replayed as directories of .zn files through LoadFile().Execute",
   level="TLC enumerates all 512 digraphs (self-loops included) on three imported modules x all 15 ordered import lists of the main file, plus all digraphs on two modules with a missing third one, runs the loader machine (body at most once, imports before body, circular error iff a cycle is reachable - checked against an independent transitive-closure definition) and emits the body trace and the result. Each of the 8256 vectors is written to disk (module names with 1-3 path segments) and executed: order and multiplicity of module bodies, error code 63 / 60, per-module probes (an imported method must be able to call its own module's helper; names of modules main did not import are undefined), plus export / read-only / selective-import probe programs.",
   note="trusted: TLC; alphabetical import order inside generated modules; 3 modules (4 would be 65536 digraphs: thorough tier candidate)", ref="5 C15"),
 "C10": dict(
   technique="TLA+ member-table spec with total validator semantics (ZnBuiltins) enumerated by TLC; every invocation replayed in worker processes (panic/exit/hang are observations); member tables extracted from the Go sources bound to the spec's tables",
   level="TLC enumerates receiver kind (11 value kinds + free functions/constructors) x every member of the spec's tables (+ an unknown member) x access {get,set,call,new} x all argument tuples of arity <= 2 over an 18-value boundary pool (281k invocations; quick: all of arity <= 1 plus a seeded 45000), with the outcome the validator patterns demand; plus random tuples of arity 3-4 per method, 37 operator/index/assignment/iteration/construction/throw/format forms on every receiver kind, and input-variable texts. Each case runs in a worker process and must end as a value or a Zn error - never a Go panic, a nil result, a process exit or a hang. The getter/setter/method tables and Register* calls extracted from the sources must equal the spec's tables (otherwise exit 2, unmodelled).",
   note="trusted: TLC; worker-process isolation (recover + watchdog); boundary pool chosen from the validators' decision points; stdlib/http excluded (does not compile)", ref="5 C10"),
 "C14": dict(
   technique="TLA+ character-sequence spec of text operations (ZnText) and template scanner state machine with directive plans (ZnFmt) model-checked by TLC; TLC-enumerated texts/index pairs and templates replayed through the interpreter; observation rows of a text variable recorded from real runs validated by TLC (Trace_ZnText)",
   level="Text: TLC enumerates all texts <= 4 over 5 encoded-width classes (ASCII, 2-byte, CJK, astral, combining mark) x index pairs from {-6,-2,-1,0..6} (78100 vectors; quick replays a seeded 30000): 长度/字数, 字符组, 分隔 by the empty text, 取样 (exactly characters i..j inside the documented range; elsewhere a catchable error or a run of whole characters) and the split/join law with the spec's pieces. Format: all templates <= 5 (thorough 6) over {text,{,},#,+,.,digit,E,%} plus long-precision templates are scanned by the spec's state machine (TLC checks all literal text is copied verbatim) and each is applied to 4 argument shapes: the result text or the error must agree.",
   note="trusted: TLC; strconv.FormatFloat for the digits of the verb/precision/sign the spec selects; interpreter's own display form inside {}", ref="5 C14"),
 "C13": dict(
   technique="TLA+ literal reader state machine and canonical writer (ZnStr) with the round-trip invariant model-checked by TLC; TLC-enumerated literals replayed through zh.NextToken and Interpreter.Execute",
   level="TLC enumerates every text of length <= 3 over the 29-symbol critical alphabet x 3 openers x 2 writer styles (and <= 2 x all 5 openers; thorough also <= 5 over 10 symbols), writes it as a literal with the spec's Encode and checks on the spec that the reader state machine returns exactly the text, closes at the last character and never meets an undocumented back-tick sequence. The same literals - plus every raw body <= 4 over 16 symbols, <= 3 over all 29, <= 5 over 10 and every `U+hex` escape with <= 8 hex digits - are read by the real lexer: value, closing position, token type and 'unterminated => syntax error 27' must agree (quick: seeded 200000 literals x 2 concrete renderings); literals of the “ ” / 「 」 families also run end to end.",
   note="trusted: TLC; one concrete character per symbol (several for 'other'); where the manual leaves a failed back-tick escape ambiguous the spec flags the vector and only termination is checked", ref="5 C13"),
 "C04": dict(
   technique="TLA+ scanner state machine (ZnLex), numeric-form DFA with W-method suite (ZnNum) and interval-table normal form (ZnIdRange) model-checked by TLC; TLC-enumerated strings replayed through zh.NextToken and exec.MatchIDType; recorded IdInRange answers for all code points validated by TLC",
   level="Numeric: TLC enumerates every string of length <= 5 (thorough 6) over the 11 character classes plus the W-method suite P.Sigma^{<=3}.W of the 13-state minimal DFA (complete for recognisers with up to two extra states; W and the access strings are verified by TLC) - 336k distinct strings, each classified number/name/reject and, for numbers, compared bit-exactly with the correctly rounded double of the decimal the spec denotes. Tokenisation: every string <= 3 (thorough 4) over a 27-symbol alphabet and <= 4-6 over four reduced alphabets is scanned by the spec machine (progress, span, coverage and determinism invariants) and the token kinds and spans must equal zh.NextToken's. Alphabet: IdInRange is asked for all 0x110000 code points; TLC checks the run-length encoding equals the normal form of the table in id_range.go.",
   note="trusted: TLC; math/big for decimal->double rounding; the concrete representatives per symbol class; contexts the manual is silent about are checked for totality only", ref="5 C04"),
 "C11": dict(
   technique="TLA+ fold spec with nondeterministic iteration order (ZnMapIter: confluence of every range-over-map loop kind, deviations refuted) and ZnDictEq (contents-only equality vectors) model-checked by TLC; static go/types inventory of range-over-map sites bound to the spec's site table; N-fold repeated execution of TLC-generated programs",
   level="TLC explores all iteration orders of each modelled loop kind over all maps of <=3 entries and checks the result equals the canonical order's; the two non-confluent loop shapes found in the original code are kept as named deviations and must be refuted in every run. A go/types pass lists every range over a map in pkg/ and stdlib/ with a hash of the loop text: it must equal the spec's site table (otherwise exit 2, unmodelled). All 6241 ordered pairs of small dictionaries in all insertion orders are compared with 为/不为/==//=/包含/寻找 (plain and nested) 32 (thorough 256) times each: every repetition must give the contents-only answer; further order-sensitive-looking programs (JSON parse order, object defaults, error messages) are repeated 128-1024 times and must be one behaviour.",
   note="trusted: TLC; Go's per-range random iteration start as the source of schedule variety; manual classification of each loop site (re-forced by the hash when the loop text changes)", ref="5 C11"),
 "C19": dict(
   technique="TLA+ structural codec spec (ZnJson: ToJson/FromJson with ordered members, round-trip and order invariants) model-checked by TLC; TLC-enumerated values replayed through 生成JSON/解析JSON with Python's json module as the independent reader/writer",
   level="TLC enumerates 17014 top-level dictionaries (<=2 ordered members over 3 key atoms, values = 17 atoms incl. quote/backslash/control/astral/U+2028 texts and boundary doubles, or containers of <=1 atom) plus ~5000 seeded random depth-3 values, checking FromJson(ToJson(v)) = v and key order on the spec. For each value: the generated text must be read back by Python's strict json (order-preserving) as the same structure; Python-encoded documents in 4 styles must parse to the value with keys in document order; the composition must give the value (compared structurally and by 为); single-character corruptions (quick ~4000) and non-finite numbers must raise an exception that a 拦截异常 handler catches.",
   note="trusted: TLC; Python's json module as the reference codec and arbiter of well-formedness; atoms are fixed representatives", ref="5 C19"),
 "C12": dict(
   technique="TLA+ sequential ADT spec (ZnColl) open-client model checking; TLC-generated operation histories replayed as Zn programs; TLC trace validation (Trace_ZnColl) of operation logs recorded from value.Array/value.HashMap",
   level="TLC enumerates every history of 3 list operations (14 operations x arguments from 5 start lists, 841k) and 3 (thorough: 4) dictionary operations (8 operations, 4 start dictionaries); a TLC-seeded 1/20 resp. 1/3 of them (all in the thorough tier) become one Zn program each that displays reply, collection, length, text form / 所有索引 / 所有值 / generated JSON after every step and iterates at the end; laws and invariants are checked to length 8 with a VIEW. Random histories of 500-2000 operations over 9 values and 8 keys are recorded from the real value types and validated by TLC line by line (action, reply, full projected state, consistent 寻找 base).",
   note="trusted: TLC; the harness's program rendering of operations; direct value API calls in the recorder", ref="5 C12"),
 "C07": dict(
   technique="ZnEval TLA+ machine (heap facet: deep copy on bind, reference objects, invariant FreshOnBind) model-checked by TLC over copy/mutate histories; displayed snapshots after every step compared with the real interpreter",
   level="Copy/mutate histories over names A..D from a nested list or a dictionary of lists (declare-copy, multi-declare, assign, element/key assignment of collections, five mutation kinds through any name at nesting 1-2, mutation through a 遍历 loop variable), exhaustive for <= 2 steps and seeded random for 3-5 steps (2500 quick / 40000 thorough), plus object-sharing, per-instance-default and literal-freshness programs: every variable is displayed after every step and must equal the snapshot of the spec's heap machine; TLC checks FreshOnBind (the freshly bound slot shares no list/dict cell with any other slot) in every state.",
   note=EVAL_NOTE + "; sharing is observed through displayed values, not pointer identity", ref="5 C07"),
 "C08": dict(
   technique="ZnEval TLA+ machine (call/object facet: ICall/IMCall/INew/IRet, 其, 得到) model-checked by TLC over an arity x argument matrix, recursion, object programs and seeded random call graphs; behaviours compared event-by-event with the real interpreter",
   level="Declared arity 0..3 x actual argument count 0..4 with probe-call arguments (evaluation order and once-ness visible in the display trace; a mismatch must run none of the body), with and without 得到; nested argument calls; direct and mutual recursion; constructors, methods calling methods of the same/another object with 其 restored afterwards, chained 以X（a）、（b）, per-object isolation and defaults, unknown method/property/class errors; 1500 (quick) seeded random acyclic call graphs. Statement trace with call depth, display trace and outcome must equal the machine's.",
   note=EVAL_NOTE, ref="5 C08"),
 "C06": dict(
   technique="TLA+ environment spec (ZnVM) open-client model checking + replay of every short history through runtime.Scope/VM; TLC trace validation (Trace_ZnVM) of operation logs recorded from the real VM; ZnEval machine over a scoping program family",
   level="(1) TLC enumerates every history of length 5 over begin/end/declare/declare-const/assign/lookup x 2 names + a predefined name x depth<=3 (391700; quick replays a seeded 120000) and each is stepped through the real runtime.Scope and runtime.VM comparing every reply; invariants and action properties (constants never change, end-scope restores, failed op is a no-op) are checked to length 9 with a VIEW. (2) Random histories of length 400-2000 are recorded from the real VM and validated line by line by TLC against Trace_ZnVM (action, reply, scope depth, live symbols). (3) ~70 scoping programs (every block kind, nesting, recursion, exception exits, constants/inputs/得到/predefined names) must behave as the ZnEval machine says, including scope depth consistency at every statement and an empty symbol table at the end.",
   note=EVAL_NOTE, ref="5 C06"),
 "C09": dict(
   technique="ZnEval TLA+ machine (exception facet: IThrow/IUnwind/handler frames) model-checked by TLC over the raise-point x handler-placement x class-match matrix; TLC-emitted behaviours compared event-by-event with H2-hooked executions",
   level="TLC runs the evaluator machine on every program of the matrix raise kind x depth 0..3 x site x handler placement per frame x handler ending (quick: ~1300 programs) plus constructor/handler-fault/receiver/recursion programs, checking the scope/frame invariants in every state; the real interpreter must execute the same statements at the same call depth (so stale or missing frames after a catch are visible at the next statement), display the same values (其内容, caller locals, results of repeated calls) and end with the same value or uncaught error at the same line and call chain.",
   note=EVAL_NOTE, ref="5 C09"),
 "C18": dict(
   technique="ZnEval TLA+ machine (fault path + active frames) and ZnPos TLA+ position machine (physical line / marker column), model-checked by TLC; expected reports compared with DisplayError output of the real interpreter",
   level="Runtime part: fault kind x call depth 0..3 x statement context x layout material before the fault (blank lines, //, /* */, 注：“…” blocks, multi-line literals) x LF/CRLF/CR x history (earlier handled exception, returned calls): the reported head line and call chain must equal the lines of the machine's active frames at the fault. Syntax part: every text <= 7 over {narrow, wide, LF, CR, bad char} with one offending character (36k vectors; quick replays all <= 5 and a seeded sample): reported line, marker offset in display columns and quoted line must equal ZnPos.",
   note=EVAL_NOTE + "; display width table only exercised on the representatives (ASCII/Latin width 1, CJK/kana/hangul width 2)", ref="5 C18"),
 "C02": dict(
   technique="TLA+ evaluator state machine (ZnEval: Compile to instructions + frame/scope/heap machine) model-checked by TLC over exhaustive control-flow skeleton families; TLC-emitted behaviours (statement trace, display trace, result) compared event-by-event with H2-hooked executions of the real interpreter",
   level="Every control skeleton over {mark, if/elseif/else, while, iterate over list/dict with 0/1/2 names, break, continue, return} up to size 4 (5 thorough) with nesting<=3, plus a seeded sample of the next size, is run at top level and inside a method through the ZnEval machine by TLC (all invariants in every state); the real interpreter must execute exactly the same statements in the same order at the same call depth (H2 line events), display the same values and return the same result.",
   note=EVAL_NOTE, ref="5 C02"),
 "C01": dict(
   technique="TLA+ expression machine (ZnExpr: precedence table, minimal-brace renderer, reference evaluator, stack machine with short-circuit jumps) model-checked with TLC; TLC-generated trees/expected outcomes replayed through Interpreter.Execute in several spellings; IEEE facet: TLC-checked lowering of every operator to primitive code, executed over float64 by the harness",
   level="TLC enumerates every operator on every ordered pair of 16 leaves and all 4096 ordered operator triples in all 5 tree shapes (plus random depth-4 trees in the thorough tier), checks on the spec that the instruction machine agrees with the reference evaluator in every terminal state, and emits each tree with its minimal-brace token list, expected value or error and probe (evaluation) order; the real interpreter must reproduce each of them in 3-8 concrete spellings.",
   note="trusted: TLC; exact-rational arithmetic in the spec vs IEEE doubles only on exactly representable (dyadic) intermediates; the harness's literal spellings",
   ref="5 C01"),
 "C17": dict(
   technique="TLA+ refinement spec (ZnFile: chunked decoder refines one-shot decoder) exhaustively model-checked with TLC; TLC-generated file vectors replayed into pkg/io and LoadFile().Execute",
   level="TLC enumerates every byte-class file up to length 4 (quick) / 5 (thorough) x block sizes and proves, on the spec, that the chunked decoder equals the one-shot decoder or both reject; every vector is then replayed through the real FileStream.Read(n), ReadAll (incl. every split across the 4096 block boundary), ByteStream and end-to-end execution, comparing with the spec's expected characters. Exhaustive within the bound, nothing beyond it.",
   note="trusted: TLC, the byte-class abstraction (RFC 3629 well-formedness table), the harness's byte substitution and bit-formula code point computation",
   ref="5 C17"),
}

ADD = {   # what was added after the seeded-change rounds (DESIGN.md 13); appended to the level text
 "C01": " IEEE facet: TLC also emits the operator-triple trees with numeric leaves as slots together with their LOWERING to primitive code (+ - * / floor, ordered comparisons, ==; invariant LoweringAgrees: the lowered code over exact rationals = the reference evaluator on every tree); the harness runs that code over float64 with slot values from a 25-value pool (0.1, 4.35, 2^53+1, 1e308, 5e-324, -0, +-Inf, NaN ...) - every operator x every ordered pair, random assignments for the triples - and compares bit for bit.",
 "C02": " Non-boolean conditions at every condition position (如果, 再如 after false arms, 每当 on a later pass, inside methods).",
 "C03": " Plus a 72-program nest family (an inner 如果 / loop ending a branch block never takes the outer 再如/否则) and comparison/logic operators written without blanks as a layout deviation.",
 "C05": " Every class text is also replayed with randomly drawn other members of the classes (all 20 blanks of the lexer's table, every quote family, ASCII twins of the punctuation, keywords, DEL/ESC/BOM/U+FFFD/U+2028).",
 "C06": " Programs also cover a call whose input binding fails and is caught by the caller (all depths must return) and inner declarations / inputs / loop variables / 得到 names that shadow module-level methods and types.",
 "C07": " Binding forms include literals that mention a variable and collections handed to storing methods (后增 / 写入 keep a copy).",
 "C08": " Plus in-place number mutators (自增/自减) on per-instance default properties and wrong-arity calls to a callee that has its own handler (fails in the caller).",
 "C09": " Raise points also inside 8 expression positions (遍历 target, 每当/如果/再如 condition, call argument, declaration, list item, 输出 value); call chains that cross one or two module-file boundaries (ZnEval frames carry their module; traces and chains compared as (file, line)).",
 "C10": " Plus 60 input-variable texts and the shape family: values that contain themselves (built through every storing method), objects reaching themselves, results of bodies that produce nothing, types/methods as values x 19 ways of consuming a value; the display recorder builds the text like the predefined 显示.",
 "C11": " Site kind collect-then-stable-sort with its non-injective-key deviation refuted; dictionary literals repeating a key under repetition; the same HTTP request (names differing only in case) served 64 times through ZnHttpHandler must get one answer.",
 "C12": " Dictionary literals with every pattern of repeated keys over <= 4 keys (first position, last value); the trace spec also binds `kept`: the last NEW collection handed out by 逆序/合并/所有索引/所有值 keeps its value whatever is done to the receiver afterwards.",
 "C13": " U+ escapes over {0,1,D,F}^<=8 and {0,1,8,D,F}^<=6 (zero padding, surrogates, > 10FFFF); every decode body with a complete back-tick sequence is replayed; failed escapes containing quotes of another family are demanded.",
 "C14": " One text VARIABLE observed (长度, 字数, 字符组, 分隔, 取样, the text) before / between / after ordered pairs of 12 text methods on 13 texts: every observation row is validated by TLC against Trace_ZnText (one character sequence must explain all observers).",
 "C15": " Four home-module probes per module (method, handler block, constructing body, type method). Four imported modules: TLC checks the loader invariants on all 65536 digraphs x four import lists; quick replays a seeded 6000, thorough all 262144.",
 "C16": " As built: 9 polluters (also: write into the headers a response constructor supplied; run a FILE that imports a custom module file), 820 sequences (quick: all of <= 2 and 40 percent of 3), probe executed as a file.",
 "C18": " Plus faults in expression positions and faults raised inside handler blocks (rethrow / built-in fault): the report must end at the handler's own line below the frame whose call raised the handled exception; call chains across module files (every chain entry compared as (file, line)).",
 "C19": " Keys range over 4 atoms incl. a key of control characters / DEL / backslash / a non-printable astral character.",
}

NA_REASON = "check not built yet in this round (planned in DESIGN.md section 5); not claimed"

def main():
    checks = []
    for p in props:
        pid = p["id"]
        if pid not in CHECKS:
            continue
        c = CHECKS[pid]
        checks.append(dict(
            property_id=pid,
            quick_cmd="bin/check %s --tier quick" % pid,
            thorough_cmd="bin/check %s --tier thorough" % pid,
            evidence_file="/verif/evidence/%s.json" % pid,
            replay_cmd_template="bin/check %s --replay {path}" % pid,
            engine="tlc+znh",
            level_claimed=dict(category="model_checking", text=c["level"] + ADD.get(pid, ""), design_ref="DESIGN.md section " + c["ref"]),
            level_note=c["note"],
            technique=c["technique"],
        ))
    na = [dict(property_id=p["id"], reason=NA_REASON) for p in props if p["id"] not in CHECKS]
    hooks_commits = []
    hc = os.path.join(V, "hooks_commits.txt")
    if os.path.exists(hc):
        hooks_commits = [l.split()[0] for l in open(hc) if l.strip()]
    m = dict(
        version=1,
        setup_cmd="mkdir -p /verif/.build && cd /verif/harness && cp /repo/go.sum go.sum && GOFLAGS=-mod=mod GOPROXY=off GOSUMDB=off GOTOOLCHAIN=local go build -tags verif -o /verif/.build/znh ./cmd/znh",
        hooks=dict(guard="verif", enable="go build -tags verif (harness module verifharness, replace github.com/DemoHn/Zn => /repo)",
                   baseline_off_cmd="/verif/bin/baseline", source_commits=hooks_commits, add_only=True),
        engines=[dict(name="tlc+znh", path="/verif/bin/check", serves_properties=[c["property_id"] for c in checks],
                      kind_free_text="TLA+ specs under /verif/spec model-checked by TLC; TLC-generated vectors/behaviours replayed into the real code by the Go harness /verif/harness (cmd/znh), traces recorded from the real code validated by Trace_* specs")],
        checks=checks,
        notes="Every check: build harness from /repo's working tree with -tags verif; TLC model-checks the spec (a violation there is exit 2, spec broken); TLC emits vectors; harness replays them; mismatches are matched against known_findings.json. See DESIGN.md.",
        not_applicable=na,
    )
    json.dump(m, open(os.path.join(V, "MANIFEST.json"), "w"), ensure_ascii=False, indent=1)
    print("MANIFEST.json: %d checks, %d not_applicable" % (len(checks), len(na)))

if __name__ == "__main__":
    main()
