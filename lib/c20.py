"""C20 - the prefork master keeps the worker pool within its bounds (spec/ZnPrefork.tla)."""
import random, json, os, re, common
from common import log

CFG_TMPL = """CONSTANTS
  InitProcs = %d
  MaxProcs = %d
  Batch = 10
  NReq = 0
  NFault = 0
  MaxPid = 400
  Design = "intended"
SPECIFICATION TraceSpec
INVARIANTS TypeOK Bound Bookkeeping RefCountBounded LiveAccounted
POSTCONDITION TraceAccepted
CHECK_DEADLOCK FALSE
"""


def renumber(events):
    """pids -> 1,2,.. in start order; events of pids never started are dropped (cannot happen)"""
    m = {}
    out = []
    for e in events:
        if e["e"] == "started":
            m[e["pid"]] = len(m) + 1
        if e["pid"] not in m:
            continue
        x = dict(e=e["e"], pid=m[e["pid"]], st=e.get("st", ""), rc=e.get("rc", 0), nc=e.get("nc", 0), n=e.get("n", 0))
        out.append(x)
    return out


def run(ctx):
    znh = common.build_harness(ctx)
    rnd = random.Random(ctx.seed)
    quick = ctx.tier == "quick"
    # ---- (1) the design: intended bookkeeping holds in every interleaving of small configurations
    for cfg in (["i_1_3", "i_2_3_b2", "i_2_3_f2"] if quick else ["i_1_3", "i_2_3_b2", "i_2_3_f2", "i_2_4", "i_live"]):
        common.tlc(ctx, "ZnPrefork", "MC_ZnPrefork_%s.cfg" % cfg, timeout=3000)
    # named deviation "lostexit" (an exit notification that is dropped when the master is busy): Refill must be refuted
    _, li = common.tlc(ctx, "ZnPrefork", "MC_ZnPrefork_lostexit.cfg", timeout=600, allow_violation=True)
    if not li["violated"]:
        raise common.NoVerdict("sensitivity: TLC did not refute Refill for the deviation 'lostexit'")
    # ---- (2) schedules: counterexamples of the named deviation + simulated behaviours of the intended design
    scheds = []
    for cfg, (i0, m0) in (("cex1", (1, 3)), ("cex2", (2, 3))):
        t, info = common.tlc(ctx, "MC_ZnPrefork", "MC_ZnPrefork_%s.cfg" % cfg, workers=8, timeout=600, allow_violation=True)
        cex = common.vectors(t, "cex")
        if not info["violated"] or not cex:
            raise common.NoVerdict("sensitivity: TLC did not refute Bound for the deviation 'ascoded' (%s)" % cfg)
        for c in cex[:3]:
            scheds.append(("cex:" + cfg, i0, m0, c["h"]))
    nsim = 10 if quick else 80
    t, info = common.tlc(ctx, "MC_ZnPrefork", "MC_ZnPrefork_sim.cfg", workers=1, timeout=600, simulate="num=%d" % (nsim * 3), depth=80, extra=["-seed", str(ctx.seed)])
    sims = common.vectors(t, "sched")
    seen = set()
    for s in sims:
        k = json.dumps(s["h"])
        if k not in seen and len(seen) < nsim:
            seen.add(k)
            scheds.append(("sim", 1, 3, s["h"]))
    # adversarial probes: orders that the intended design does NOT allow (the exit of a child handed to the master BEFORE its registration; the gates
    # only delay, so the real master either refuses the order - the replay diverges and the gates are opened - or follows it and must still satisfy
    # Bound and Refill)
    def A(a, p_): return dict(a=a, p=p_)
    for i0, m0, h in ((1, 2, [A("spawn", 1), A("crash", 1), A("del", 1), A("add", 1)]),
                      (2, 3, [A("spawn", 1), A("add", 1), A("spawn", 2), A("crash", 2), A("del", 2), A("add", 2)]),
                      (2, 3, [A("spawn", 1), A("spawn", 2) if False else A("add", 1), A("spawn", 2), A("add", 2), A("crash", 1), A("del", 1), A("spawn", 3), A("crash", 3), A("del", 3), A("add", 3)]),
                      (1, 3, [A("spawn", 1), A("crash", 1), A("add", 1), A("del", 1), A("spawn", 2), A("crash", 2), A("del", 2), A("add", 2)])):
        scheds.append(("adv:exit-before-registration", i0, m0, h))
    # ---- (3) runs against the real master
    cases, meta = [], []
    for tag, i0, m0, h in scheds:
        cases.append(dict(id=len(cases), init=i0, max=m0, timeout=1, mode="sched", sched=h)); meta.append((tag, i0, m0))
    nfree = 8 if quick else 60
    for k in range(nfree):
        i0, m0 = [(1, 3), (2, 3), (1, 2), (2, 4), (1, 1), (3, 3)][k % 6]
        cases.append(dict(id=len(cases), init=i0, max=m0, timeout=1, mode="free", seed=ctx.seed * 1000 + k, bursts=6 if quick else 14)); meta.append(("free", i0, m0))
    # storms: every live worker killed at the same moment, the master's bookkeeping steps slowed down (several exits arrive while it is busy)
    nstorm = 4 if quick else 24
    for k in range(nstorm):
        i0, m0 = [(2, 3), (2, 4), (3, 3), (1, 2)][k % 4]
        cases.append(dict(id=len(cases), init=i0, max=m0, timeout=1, mode="free", seed=ctx.seed * 1000 + 500 + k, bursts=2, slow=[40, 0, 120, 15][k % 4], storm=2)); meta.append(("free", i0, m0))
    res = common.run_harness(ctx, znh, "pm", cases, timeout=3000, args=["-t", "90", "-j", "4"])
    if len(res) != len(cases):
        raise common.NoVerdict("harness returned %d/%d" % (len(res), len(cases)))
    groups = {}
    nresp = 0
    followed = 0
    for r in sorted(res, key=lambda r: r["id"]):
        tag, i0, m0 = meta[r["id"]]
        c = cases[r["id"]]
        def rep(kind, what):
            common.report(ctx, "%s:%s" % (tag.split(":")[0], kind), what, dict(case=c, result={k: r.get(k) for k in ("max_live", "max_proc", "final_live", "final_proc", "diverged", "note")}, events=(r.get("events") or [])[:60]))
        if r["obs"] != "done":
            rep(r["obs"], "driver %s: %s" % (r["obs"], r.get("detail", "")[:300])); continue
        if r["diverged"] < 0 and c["mode"] == "sched":
            followed += 1
        # Bound: hooks' view and /proc's view
        if r["max_live"] > m0 or r["max_proc"] > m0:
            rep("bound", "init=%d max=%d: %d live workers by the event log, %d by /proc%s" % (i0, m0, r["max_live"], r["max_proc"],
                 (" (schedule %s)" % " ".join("%s%d" % (a["a"], a["p"]) for a in c["sched"])) if c["mode"] == "sched" else ""))
        # Refill: once quiet, at least init workers are alive
        if r["final_live"] < i0 or r["final_proc"] < i0:
            rep("refill", "init=%d max=%d: after the quiet period only %d (events) / %d (/proc) workers are alive" % (i0, m0, r["final_live"], r["final_proc"]))
        # each accepted request is answered exactly once, by one worker; peers of hung/crashing requests still answer
        for tok, outs in (r.get("responses") or {}).items():
            nresp += 1
            if tok.startswith("hang-") or tok.startswith("exit-"):
                continue
            if c["mode"] == "free" and (len(outs) != 1 or not outs[0].startswith("ok %s " % tok)):
                rep("response", "request %s got %s" % (tok, outs))
        groups.setdefault((i0, m0), []).append(renumber(r["events"]))
    # ---- (4) trace validation of every recorded event log
    ntr = nlines = 0
    for (i0, m0), logs in sorted(groups.items()):
        tf = os.path.join(ctx.scratch, "trace-pm-%d-%d.ndjson" % (i0, m0))
        with open(tf, "w") as f:
            for lg in logs:
                f.write(json.dumps(dict(e="reset", pid=0, st="", rc=0, nc=0, n=0)) + "\n"); nlines += 1
                for e in lg:
                    f.write(json.dumps(e) + "\n"); nlines += 1
                ntr += 1
        cfgf = os.path.join(ctx.scratch, "Trace_ZnPrefork_%d_%d.cfg" % (i0, m0))
        open(cfgf, "w").write(CFG_TMPL % (i0, m0))
        common.corrupt_trace(tf, ["rc", "n"])
        ttxt, tinfo = common.tlc(ctx, "Trace_ZnPrefork", os.path.basename(cfgf), workers=1, timeout=900, files=[(tf, "trace.ndjson"), (cfgf, os.path.basename(cfgf))], allow_violation=True)
        if tinfo["violated"]:
            m = re.search(r"The depth of the complete state graph search is (\d+)", ttxt)
            upto = int(m.group(1)) - 1 if m else -1
            lines = open(tf).read().splitlines()
            inv = [w for w in ("Bound", "Bookkeeping", "RefCountBounded", "LiveAccounted", "TypeOK") if ("Invariant " + w + " is violated") in ttxt]
            if inv:
                common.report(ctx, "trace:invariant:%s" % inv[0], "init=%d max=%d: the recorded event log violates %s" % (i0, m0, inv[0]), dict(tlc=common.tail(ttxt, 30)))
            elif tinfo.get("postcondition_failed"):
                bad = json.loads(lines[upto]) if 0 <= upto < len(lines) else {}
                common.report(ctx, "trace:rejected:%s" % bad.get("e"), "init=%d max=%d: event log rejected by Trace_ZnPrefork at line %d: %s (context %s)" % (i0, m0, upto + 1, lines[upto] if bad else "?", lines[max(0, upto - 4):upto]),
                              dict(context=lines[max(0, upto - 8):upto + 1]))
            else:
                raise common.NoVerdict("trace spec failed unexpectedly:\n" + common.tail(ttxt))
    cov = dict(traces_validated_against_impl=ntr, samples=[dict(tlc_counterexample_schedule=scheds[0][3]), dict(recorded_events=groups[(1, 3)][0][:8])],
               evaluations=len(cases), distinct_nontrivial=len(cases),
               rule="design: TLC explores every interleaving of master / spawn-loop / worker / fault actions for init<=max<=3(4), batch 10 and 2, <=3 requests, <=1 fault (Bound, "
                    "refCount = registered + reserved, live <= refCount <= max, TimeoutIsolated); the deviation 'ascoded' is refuted in the same run and its counterexample "
                    "schedules (%d) plus %d simulated behaviours of the intended design are (and 4 adversarial probes: the exit of a child handed over before its registration) are REPLAYED through the H5 gates (cmd.Start and the three channel sends held and released "
                    "in schedule order) into the real master with real worker processes; %d free-running randomized load runs (bursts, hung requests, crashing workers, and a late round of short requests after a quiet period longer than --timeout) over 6 "
                    "configurations, and %d storm runs (all live workers killed at the same moment, twice, while every bookkeeping step of the master is slowed down by 0-120 ms: several exit notifications arrive while the master is busy). Double faults and the liveness property Refill are model-checked (i_2_3_f2); the deviation 'lostexit' (exit notification dropped when the master is busy) is refuted by TLC. Every run: live workers (event log and /proc, sampled every 4 ms) <= max; >= init alive after the quiet period; every normal request "
                    "answered exactly once with its own token; and the complete H5 event log is validated by TLC against Trace_ZnPrefork (action, refCount, table size, "
                    "spawn-loop size bound at every event; %d log lines)" % (len([s for s in scheds if s[0].startswith("cex")]), len(scheds) - len([s for s in scheds if s[0].startswith("cex")]), nfree, nstorm, nlines),
               schedules_followed_to_the_end=followed, responses_checked=nresp, trace_lines=nlines)
    return cov, ["worker-internal steps (accept, finish, pipe writes) are not logged; the trace spec takes the state report from the log",
                 "batch is the code's constant 10; configurations with max <= 4", "pids are renumbered in start order (spec pids are symmetric)"]
