"""C10 - no program can crash the host process (spec/ZnBuiltins.tla)."""
import random, json, os, re, common
from common import log

GLYPH = {  # (recv, id) -> member name in the source
    "array": dict(text="文本", first="首项", last="末项", count="数目", len="长度", reverse="逆序", insert="新增", add="添加", prepend="前增", append="后增",
                  shift="左移", pop="右移", join="拼接", merge="合并", contains="包含", find="寻找", swap="交换"),
    "hashmap": dict(count="数目", len="长度", keys="所有索引", vals="所有值", read="读取", write="写入", remove="移除"),
    "string": dict(len="长度", count2="字数", text="文本", chars="字符组", replace="替换", split="分隔", match="匹配", matchstart="匹配开头", matchend="匹配结尾",
                   slice="取样", strip="去除空格", lower="转小写-英文", upper="转大写-英文", join="拼接", format="格式化", atoi="转换数值"),
    "number": dict(text="文本", square="平方", cube="立方", sqrt="平方根", add="加", sub="减", mul="乘", div="除", selfadd="自增", selfsub="自减", floor="向下取整", ceil="向上取整"),
    "bool": dict(text="文本"),
    "exception": dict(content="内容"),
    "object": dict(self="自身", url="URL", path="路径", method="方法", headers="头部", query="查询参数", body="内容"),
    "free": dict(display="显示", random="取随机数", parsejson="解析JSON", genjson="生成JSON", readfile="读取文件", writefile="写入文件", readdir="读取目录",
                 exception="异常", numbercls="数值", httpreq="HTTP请求", httpresp="HTTP响应"),
}
ALLNAMES = {}
for rk, d in GLYPH.items():
    for k, v in d.items():
        ALLNAMES.setdefault(k, v)
ALLNAMES["nosuch"] = "无此成员"


def source_tables():
    """member names per (recv, access) extracted from the Go sources"""
    out = {}
    files = {"array": "pkg/value/array.go", "hashmap": "pkg/value/hashmap.go", "string": "pkg/value/string.go", "number": "pkg/value/number.go", "bool": "pkg/value/bool.go"}
    for recv, f in files.items():
        src = open(os.path.join(common.REPO, f)).read()
        for m in re.finditer(r"(\w+)(Getter|Setter|Method)Map\s*:?=\s*map\[string\]\w+\{(.*?)\n\t\}", src, re.S):
            acc = {"Getter": "get", "Setter": "set", "Method": "call"}[m.group(2)]
            for name in re.findall(r'"([^"]+)"\s*:', m.group(3)):
                out.setdefault((recv, acc), set()).add(name)
    for f in ("stdlib/json/json.go", "stdlib/file/file.go"):
        src = open(os.path.join(common.REPO, f)).read()
        for name in re.findall(r'Register(?:Function|Class)\("([^"]+)"', src):
            out.setdefault(("free", "call"), set()).add(name)
    g = open(os.path.join(common.REPO, "pkg/exec/globals.go")).read()
    out[("globals", "names")] = set(re.findall(r'^\s*"([^"]+)":', g[g.index("globalValues = map"):], re.M))
    return out


def forms():
    """operator / index / assignment / iteration / construction / throw forms applied to every receiver kind"""
    F = []
    hdr = "导入《@JSON》\n输入甲、乙1\n"
    for body in ["输出甲 + 乙1", "输出甲 - 乙1", "输出甲 * 乙1", "输出甲 / 乙1", "输出甲 | 乙1", "输出甲 % 乙1", "输出甲 > 乙1", "输出甲 == 乙1", "输出甲 为 乙1", "输出甲 且 乙1",
                 "输出甲 或 乙1", "输出甲#乙1", "输出甲#{乙1}", "甲#乙1 = 乙1\n输出1", "甲#“k” = 乙1\n输出1", "输出甲之乙1", "以K、V遍历甲：\n    （显示：K、V）\n输出1",
"遍历甲：\n    （显示：1）\n输出1", "每当甲：\n    输出1\n输出2", "如果甲：\n    输出1\n输出2",
                 "输出（甲：乙1）", "输出（新建甲：乙1）", "抛出甲：乙1！", "令丙、丁 = 甲\n输出丙", "输出【甲，乙1】", "输出【“k” = 甲】", "输出（生成JSON：【“k” = 甲】）",
                 "输出以甲（无此：乙1）", "输出“{}{#}{#.2}” % 【甲，乙1，甲】", "输出甲之自身", "如何新建甲？\n    输出1\n输出2", "（显示：甲、乙1）\n输出1",
                 "输出以【甲，乙1】（包含：甲）", "输出以【乙1】（寻找：甲）", "输出以【1，2】（新增：甲、乙1）", "输出以【1，2】（交换：甲、乙1）", "输出以“abc”（取样：甲、乙1）"]:
        F.append(hdr + body + "\n")
    return F

VARINPUTS = ["A = B", "A = 其B", "A = （F）", "A = 【1，2】#5", "A = 1 / 0", "A = 以1（加：“x”）", "A = （新建甲）", "A", "= 1", "A = ", "令A = 1", "A = 1；B = A", "A = 1\nA = 2", "A = 【=】#“k”",
             "A = 数值", "A = 以数值（自增：1）", "A = （显示：1）", "A = 空之甲", "A = “x” % 【1】", "A=1；；B=2", "其A = 1", "A#1 = 2", "A = （异常）", "A = （新建异常：1）", "A = {1", "A = 此"]


# input-variable texts that parse but contain no assignment at all / other program sections
VARINPUTS2 = ["\n", "\n\n", " ", "\t", "// c", "/* c */", "注：x", "注：“a\nb”", "导入《@JSON》", "导入《@JSON》\nA = 1", "A = （显示：1），得到R\nB = （R）", "A = （显示：1），得到R", "如何F？\n    输出1", "如何F？\n    输出1\nA = （F）",
              "定义K：\n    其a = 1", "输入X", "输入X\nA = X", "拦截异常：\n    输出1", "A = 1\n拦截异常：\n    输出1", "A = 1\n\n", "输出1", "A = 1\n输出A", "如果真：\n    A = 1", "每当真：\n    结束循环",
              "抛出异常：“x”！", "A = 1 且", "A = 以", "A = （", "A == 1", "令A、B = 1", "A、B = 1", "A = B = 1", "A = 1，B = 2", "甲 = 1；乙 = 甲 + 1；丙 = 【甲，乙】"]


def weird_programs():
    """values of unusual SHAPE (self-containing collections, objects that reach themselves, results of bodies that
    produce nothing) x every way of consuming a value"""
    builders = {
        "dict-in-itself": "令怪 = 【“a” = 1】\n以怪（写入：“k”、怪）\n",
        "list-in-itself-append": "令怪 = 【1】\n以怪（后增：怪）\n",
        "list-in-itself-prepend": "令怪 = 【1】\n以怪（前增：怪）\n",
        "list-in-itself-insert": "令怪 = 【1】\n以怪（新增：怪、1）\n",
        # ... and through element / key / setter assignment whose right-hand side is NOT a plain name: a literal that mentions the
        # target, the result of a method that yields its receiver
        "list-in-itself-element-literal": "令怪 = 【1】\n怪#1 = 【怪，2】\n",
        "list-in-itself-element-method-result": "令怪 = 【1】\n怪#1 = 以怪（后增：3）\n",
        "list-in-itself-element-nested-literal": "令怪 = 【1】\n怪#1 = 【【怪】】\n",
        "dict-in-itself-key-literal": "令怪 = 【“a” = 1】\n怪#“k” = 【怪】\n",
        "dict-in-itself-key-dict-literal": "令怪 = 【“a” = 1】\n怪#“a” = 【“z” = 怪】\n",
        "dict-in-itself-key-method-result": "令怪 = 【“a” = 1】\n怪#“a” = 以怪（写入：“b”、2）\n",
        "list-in-itself-first-setter": "令怪 = 【1，2】\n怪之首项 = 【怪】\n",
        "list-in-itself-last-setter": "令怪 = 【1，2】\n怪之末项 = 【“x” = 怪】\n",
        "list-in-itself-element-of-element": "令怪 = 【【1】，2】\n怪#1#1 = 【怪】\n",
        "list-in-itself-via-call-result": "如何取？\n    输入物\n    输出物\n令怪 = 【1】\n怪#1 = （取：怪）\n",
        "two-lists-in-each-other": "令怪 = 【1】\n令妖 = 【2】\n以怪（后增：妖）\n以妖（后增：怪）\n",
        "list-in-dict-in-list": "令怪 = 【1】\n令妖 = 【“a” = 1】\n以怪（后增：妖）\n以妖（写入：“b”、怪）\n",
        "object-property-is-itself": "定义环：\n    其下 = 空\n令怪 = （新建环）\n怪之下 = 怪\n",
        "object-in-its-own-list": "定义环：\n    其表 = 【】\n令怪 = （新建环）\n以怪之表（后增：怪）\n",
        # (results of bodies that produce nothing: the consumers use the call （怪法） itself, once - see INLINE below)
        "result-of-body-with-only-definitions": "如何怪法？\n    如何内？\n        输出1\n\n",
        "result-of-body-with-only-a-type": "如何怪法？\n    定义内类：\n        其a = 1\n\n",
        "result-of-empty-handler": "如何怪法？\n    抛出异常：“x”！\n    拦截异常：\n        令丑 = 1\n\n",
        "result-of-declaration-body": "如何怪法？\n    令丑 = 1\n\n",
        "result-of-loop-body": "如何怪法？\n    遍历【】：\n        令丑 = 1\n\n",
        "result-of-branch-not-taken": "如何怪法？\n    如果假：\n        令丑 = 1\n\n",
        # literals that repeat a key, and plain collections (for the consumers that change a collection while / before reading it)
        "dict-literal-aa": "令怪 = 【“a” = 1，“a” = 2】\n",
        "dict-literal-aba": "令怪 = 【“a” = 1，“b” = 2，“a” = 3】\n",
        "dict-literal-aab": "令怪 = 【“a” = 1，“a” = 2，“b” = 3】\n",
        "dict-literal-copy-aba": "令妖 = 【“a” = 1，“b” = 2，“a” = 3】\n令怪 = 妖\n",
        "plain-list-4": "令怪 = 【1，2，3，4】\n",
        "plain-dict-3": "令怪 = 【“a” = 1，“b” = 2，“c” = 3】\n",
        "type-value": "定义环：\n    其下 = 空\n令怪 = 环\n",
        "method-value": "如何怪法二？\n    输出1\n令怪 = 怪法二\n",
    }
    consumers = {
        "display": "（显示：怪）\n输出1\n", "display-call": "（显示：（怪法））\n输出1\n", "return": "输出怪\n", "format": "输出“{}” % 【怪】\n", "json": "输出（生成JSON：【“v” = 怪】）\n", "copy": "令丙 = 怪\n输出1\n",
        "equal-self": "输出怪 为 怪\n", "equal-other": "输出怪 == 【1】\n", "contains": "输出以【怪】（包含：怪）\n", "find": "输出以【1，怪】（寻找：怪）\n",
        "iterate": "遍历怪：\n    （显示：1）\n输出1\n", "in-literal": "输出【怪，怪】\n", "throw": "抛出异常：怪！\n", "concat": "输出“x” + 怪\n", "index": "输出怪#1\n",
        "remove-then-read": "以怪（移除：“a”）\n输出【怪，怪之所有值，怪之所有索引，怪之数目】\n", "write-then-read": "以怪（写入：“a”、9）\n输出【怪，怪之所有值】\n",
        "remove-twice": "以怪（移除：“a”）\n以怪（移除：“a”）\n以怪（移除：“b”）\n输出怪\n",
        "iterate-shift": "遍历怪：\n    以怪（左移）\n输出怪\n", "iterate-pop": "以值遍历怪：\n    以怪（右移）\n    （显示：值）\n输出怪\n",
        "iterate-append": "令数 = 0\n遍历怪：\n    数 = 数 + 1\n    如果数 < 9：\n        以怪（后增：数）\n输出怪\n",
        "iterate-remove-key": "以键、值遍历怪：\n    以怪（移除：键）\n输出怪\n", "iterate-remove-other": "以键、值遍历怪：\n    以怪（移除：“c”）\n    以怪（移除：“b”）\n输出怪\n",
        "iterate-write-key": "令数 = 0\n以键、值遍历怪：\n    数 = 数 + 1\n    如果数 < 9：\n        以怪（写入：“k” + “x”、数）\n输出怪\n",
        "iterate-reassign": "遍历怪：\n    怪 = 【】\n输出怪\n", "iterate-set-index": "以序、值遍历怪：\n    怪#1 = 【】\n输出怪\n",
        "text": "输出怪之文本\n", "length": "输出怪之长度\n", "join": "输出以【怪】（拼接：“,”）\n", "merge": "输出以【1】（合并：怪）\n",
    }
    out = []
    for bn, bsrc in builders.items():
        for cn, csrc in consumers.items():
            if cn == "display-call" and "怪法" not in bsrc: continue
            if bn.startswith("result-of-"):
                if cn == "display-call": continue
                csrc = csrc.replace("怪", "（怪法）", 1).replace("以（怪法）（", "以{（怪法）}（") if "以怪" not in csrc else csrc.replace("以怪", "以（怪法）", 1)
            out.append(("%s/%s" % (bn, cn), "导入《@JSON》\n" + bsrc + csrc))
    return out


def throw_programs():
    """exception objects of every SHAPE (which properties the type has, what 其内容 is) x how they are raised x whether anything
    handles them: an uncaught exception ends the program with a Zn error through the normal channel"""
    types = {
        "no-content": "定义错：\n    其代码 = 1\n",
        "no-properties": "定义错：\n    如何用？\n        输出1\n",
        "content-number": "定义错：\n    其内容 = 7\n",
        "content-list": "定义错：\n    其内容 = 【1，2】\n",
        "content-dict": "定义错：\n    其内容 = 【“a” = 1】\n",
        "content-null": "定义错：\n    其内容 = 空\n",
        "content-bool": "定义错：\n    其内容 = 真\n",
        "content-text": "定义错：\n    其内容 = “文”\n",
        "content-getter-faults": "定义错：\n    其代码 = 1\n\n    何为内容？\n        输出1 / 0\n",
        "content-getter-number": "定义错：\n    其代码 = 1\n\n    何为内容？\n        输出5\n",
        "content-is-itself": "定义错：\n    其内容 = 空\n\n如何新建错？\n    其内容 = 其\n",
        "constructor-sets-nothing": "定义错：\n    其代码 = 1\n\n如何新建错？\n    输入甲子\n    令丑 = 甲子\n",
        "constructor-faults": "定义错：\n    其内容 = “文”\n\n如何新建错？\n    其内容 = 1 / 0\n",
    }
    raises = {
        "top-noarg": "抛出错！\n", "top-1arg": "抛出错：1！\n", "top-2args": "抛出错：“m”、2！\n",
        "method": "如何险？\n    抛出错：1！\n（险）\n",
        "method-with-other-handler": "定义别错：\n    其内容 = “b”\n如何险？\n    抛出错：1！\n    拦截别错：\n        输出1\n（险）\n",
        "rethrown-from-handler": "如何险？\n    抛出错：1！\n    拦截错：\n        抛出其！\n（险）\n",
        "caught-content-read": "如何险？\n    抛出错：1！\n    拦截错：\n        输出其内容\n（显示：（险））\n",
        "caught-displayed": "如何险？\n    抛出错：1！\n    拦截错：\n        （显示：其）\n        输出1\n（显示：（险））\n",
        "object-thrown-as-value": "令物 = （新建错：1）\n抛出异常：物！\n",
        "in-getter": "定义外类：\n    其甲 = 1\n\n    何为乙？\n        抛出错：1！\n令物 = （新建外类）\n（显示：物之乙）\n",
        "in-loop": "遍历【1，2】：\n    抛出错：1！\n",
    }
    out = []
    for tn, tsrc in types.items():
        for rn, rsrc in raises.items():
            out.append(("%s/%s" % (tn, rn), "导入《@JSON》\n" + tsrc + "\n" + rsrc + "输出1\n"))
    return out


def deep_programs():
    """thousands of nested calls (direct methods, type methods, constructors), ending in a value / a fault / a throw, handled at the top,
    inside a method, or by nothing; then the program goes on"""
    out = []
    ends = {"value": "输出0", "fault": "输出1 / 0", "throw": "抛出异常：“底”！"}
    for n in (150, 1999, 2000, 2001, 2500, 6000):
        for en, etxt in ends.items():
            rec = "如何深？\n    输入层\n    如果层 == 0：\n        %s\n    输出（深：层 - 1） + 1\n" % etxt
            out.append(("direct-%d-%s-uncaught" % (n, en), "导入《@JSON》\n" + rec + "令果 = （深：%d）\n（显示：果）\n输出果\n" % n))
            out.append(("direct-%d-%s-top-handler" % (n, en), "导入《@JSON》\n" + rec + "令甲 = 1\n令果 = （深：%d）\n（显示：果）\n输出果\n拦截异常：\n    （显示：甲）\n    输出甲\n" % n))
            out.append(("direct-%d-%s-method-handler" % (n, en), "导入《@JSON》\n" + rec + "如何护？\n    输入层\n    输出（深：层）\n    拦截异常：\n        输出-1\n令甲 = 1\n令果 = （护：%d）\n令果二 = （护：3）\n（显示：甲、果、果二）\n输出甲 + 果\n" % n))
            meth = "定义递：\n    其数 = 0\n\n    如何降？\n        输入层\n        如果层 == 0：\n            %s\n        输出以其（降：层 - 1）\n" % etxt
            out.append(("type-method-%d-%s-handler" % (n, en), "导入《@JSON》\n" + meth + "如何护？\n    输入层\n    令物 = （新建递）\n    输出以物（降：层）\n    拦截异常：\n        输出-1\n令甲 = 1\n令果 = （护：%d）\n（显示：甲、果）\n输出甲\n" % n))
    return out


def nested_programs():
    """every kind of statement / definition placed inside every kind of body (method, method called twice, own constructor,
    the predefined 异常's redefined constructor, getter, type method, handler block, branch, loops) and the body executed"""
    inner = {
        "define-type": "定义内类：\n    其a = 1\n",
        "define-type-with-method": "定义内类：\n    其a = 1\n\n    如何用？\n        输出其a\n",
        "define-method": "如何内法？\n    输出1\n",
        "define-method-with-input": "如何内法？\n    输入子\n    输出子\n",
        "define-constructor-of-outer-type": "如何新建外类？\n    其甲 = 2\n",
        "define-constructor-of-exception": "如何新建异常？\n    输入文\n    其内容 = 文\n",
        "define-getter-like": "何为内值？\n    输出1\n",
        "import": "导入《@JSON》\n",
        "input-line": "输入丑\n",
        "declare-and-use-type": "定义内类：\n    其a = 1\n令物 = （新建内类）\n（显示：物之a）\n",
        "throw-custom": "定义内错：\n    其内容 = “c”\n抛出内错：“m”！\n",
        "handler": "拦截异常：\n    输出1\n",
        "return-type": "定义内类：\n    其a = 1\n输出内类\n",
        "return-method": "如何内法？\n    输出1\n输出内法\n",
    }
    def ind(txt, n): return "".join("    " * n + l + "\n" if l else "\n" for l in txt.rstrip("\n").split("\n"))
    # t: a handler section closing the body (empty for most inner kinds)
    bodies = {
        "method": lambda x, t="": "如何外？\n" + ind(x, 1) + "    输出1\n" + ind(t, 1) + "（显示：（外））\n",
        "method-twice": lambda x, t="": "如何外？\n" + ind(x, 1) + "    输出1\n" + ind(t, 1) + "（显示：（外））\n（显示：（外））\n",
        "own-constructor": lambda x, t="": "定义外类：\n    其甲 = 1\n如何新建外类？\n" + ind(x, 1) + "    其甲 = 3\n" + ind(t, 1) + "令物 = （新建外类）\n令物二 = （新建外类）\n（显示：物之甲）\n",
        "exception-constructor": lambda x, t="": "如何新建异常？\n    输入文\n" + ind(x, 1) + "    其内容 = 文\n" + ind(t, 1) + "令错 = （新建异常：“x”）\n令错二 = （新建异常：“y”）\n（显示：错之内容）\n",
        "exception-constructor-thrown": lambda x, t="": "如何新建异常？\n    输入文\n" + ind(x, 1) + "    其内容 = 文\n" + ind(t, 1) + "如何试？\n    抛出异常：“x”！\n    拦截异常：\n        输出1\n（显示：（试））\n（显示：（试））\n",
        "exception-constructor-thrown-uncaught": lambda x, t="": "如何新建异常？\n    输入文\n" + ind(x, 1) + "    其内容 = 文\n" + ind(t, 1) + "抛出异常：“x”！\n",
        "getter": lambda x, t="": "定义外类：\n    其甲 = 1\n\n    何为乙？\n" + ind(x, 2) + "        输出2\n" + ind(t, 2) + "令物 = （新建外类）\n（显示：物之乙、物之乙）\n",
        "type-method": lambda x, t="": "定义外类：\n    其甲 = 1\n\n    如何做？\n" + ind(x, 2) + "        输出2\n" + ind(t, 2) + "令物 = （新建外类）\n（显示：以物（做））\n（显示：以物（做））\n",
        "handler-block": lambda x, t="": "如何外？\n    抛出异常：“x”！\n    拦截异常：\n" + ind(x, 2) + "        输出1\n（显示：（外））\n（显示：（外））\n",
        "branch": lambda x, t="": "如果真：\n" + ind(x, 1) + "    （显示：1）\n",
        "while": lambda x, t="": "令数 = 0\n每当数 < 2：\n    数 = 数 + 1\n" + ind(x, 1),
        "iterate": lambda x, t="": "遍历【1，2】：\n" + ind(x, 1) + "    （显示：1）\n",
        "top-level": lambda x, t="": x + t,
    }
    # a fault / a throw in the body, with the body's OWN handler section (matching, not matching, faulting itself, without 输出)
    faults = {"div": "令丑 = 1 / 0\n", "index": "令丑 = 【1】#5\n", "throw": "抛出异常：“内”！\n", "undefined": "令丑 = 无此名\n", "method-fault": "令丑 = 以“a”（取样：5、9）\n"}
    tails = {"match-ret": "拦截异常：\n    输出1\n", "match-noret": "拦截异常：\n    令寅 = 1\n", "match-reads": "拦截异常：\n    输出其内容\n", "nomatch": "定义别错：\n    其内容 = “b”\n", "match-faults": "拦截异常：\n    输出1 / 0\n",
             "match-rethrows": "拦截异常：\n    抛出其！\n"}
    out = []
    for bn, mk in bodies.items():
        for iname, itxt in inner.items():
            out.append(("%s/%s" % (bn, iname), "导入《@JSON》\n" + mk(itxt) + "输出1\n"))
        if bn in ("handler-block", "branch", "while", "iterate"): continue
        for fn, ftxt in faults.items():
            # (抛出异常 inside the constructor of 异常 constructs an 异常 again: unbounded recursion of the PROGRAM, like a method that
            # calls itself for ever - exhausting the host's memory that way is not what this property is about, see DESIGN 10.4)
            if fn == "throw" and bn.startswith("exception-constructor"): continue
            for tn, ttxt in tails.items():
                if tn == "nomatch":
                    src = "导入《@JSON》\n定义别错：\n    其内容 = “b”\n\n" + mk(ftxt, "拦截别错：\n    输出1\n")
                else:
                    src = "导入《@JSON》\n" + mk(ftxt, ttxt)
                out.append(("%s/fault-%s/handler-%s" % (bn, fn, tn), src + ("输出1\n" if bn != "top-level" else "")))
    return out


def run(ctx):
    znh = common.build_harness(ctx)
    rnd = random.Random(ctx.seed)
    quick = ctx.tier == "quick"
    txt, info = common.tlc(ctx, "ZnBuiltins", "MC_ZnBuiltins.cfg", timeout=1500)
    tab = common.vectors(txt, "table")
    inv = common.vectors(txt, "inv")
    if not tab or len(inv) < 200000:
        raise common.NoVerdict("too few vectors: %d" % len(inv))
    # ---- table binding: source tables = spec tables
    spec = {}
    for e in tab[0]["t"]:
        if e["recv"] in GLYPH and e["id"] in GLYPH[e["recv"]]:
            spec.setdefault((e["recv"], e["acc"]), set()).add(GLYPH[e["recv"]][e["id"]])
        else:
            raise common.NoVerdict("spec member %s.%s has no glyph mapping" % (e["recv"], e["id"]))
    src = source_tables()
    unmodelled, stale = [], []
    for key in set(k for k in src if k[0] in ("array", "hashmap", "string", "number", "bool")) | set(k for k in spec if k[0] in ("array", "hashmap", "string", "number", "bool")):
        unmodelled += ["%s.%s.%s" % (key[0], key[1], n) for n in src.get(key, set()) - spec.get(key, set())]
        stale += ["%s.%s.%s" % (key[0], key[1], n) for n in spec.get(key, set()) - src.get(key, set())]
    unmodelled += ["free.call.%s" % n for n in src.get(("free", "call"), set()) - spec.get(("free", "call"), set())]
    known_globals = {"真", "假", "空", "异常", "显示", "取随机数", "数值"}
    unmodelled += ["global.%s" % n for n in src[("globals", "names")] - known_globals]
    # ---- cases
    if quick:
        small = [v for v in inv if len(v["args"]) <= 1]
        big = [v for v in inv if len(v["args"]) > 1]
        inv = small + rnd.sample(big, 45000)
    cases, meta = [], []
    for v in inv:
        cases.append(dict(id=len(cases), recv=v["recv"], acc=v["acc"], name=ALLNAMES[v["m"]], args=v["args"])); meta.append(("inv", v))
    pool_ids = ["n0", "nm1", "n15", "nbig", "nnan", "ninf", "nmin", "s0", "sa", "semo", "bt", "nul", "l0", "l1", "d0", "d1", "obj", "fn"]
    # arity 3-4 (pairwise-ish random tuples) on every table entry
    calls = [e for e in tab[0]["t"] if e["acc"] in ("call", "new")]
    for e in calls:
        for _ in range(12 if quick else 200):
            n = rnd.choice([3, 4])
            cases.append(dict(id=len(cases), recv=e["recv"], acc=e["acc"], name=GLYPH[e["recv"]][e["id"]], args=[rnd.choice(pool_ids) for _ in range(n)])); meta.append(("inv34", e))
    # members found in the source tables but not (yet) in the spec's: they have no row, but the oracle of this property needs
    # none - they are invoked with every argument tuple of arity <= 2 and random longer ones all the same
    for um in unmodelled:
        parts = um.split(".", 2)
        if len(parts) != 3 or parts[0] == "global": continue
        recv, acc, name = parts
        tuples = [[]] + [[a] for a in pool_ids] + [[a, b_] for a in pool_ids for b_ in pool_ids] + [[rnd.choice(pool_ids) for _ in range(rnd.choice([3, 4]))] for _ in range(40)]
        for args in (tuples if acc in ("call", "new") else [[], [pool_ids[0]]] + [[a] for a in pool_ids]):
            cases.append(dict(id=len(cases), recv=recv, acc=acc, name=name, args=args)); meta.append(("inv34", dict(recv=recv, id=name)))
    kinds = ["number", "string", "bool", "null", "array", "hashmap", "object", "class", "function", "exception", "govalue"]
    for f in forms():
        for k in kinds:
            for a in (pool_ids if not quick else rnd.sample(pool_ids, 6)):
                cases.append(dict(id=len(cases), recv=k, acc="form", name="", args=[a], src=f)); meta.append(("form", f))
    for tag, src in weird_programs():
        cases.append(dict(id=len(cases), recv="null", acc="form", name="", args=["n0"], src=src.replace("导入《@JSON》\n", "导入《@JSON》\n输入甲、乙1\n", 1))); meta.append(("shape", tag))
    for tag, src in throw_programs():
        cases.append(dict(id=len(cases), recv="null", acc="form", name="", args=["n0"], src=src.replace("导入《@JSON》\n", "导入《@JSON》\n输入甲、乙1\n", 1))); meta.append(("nested", "throw:" + tag))
    for tag, src in deep_programs():
        cases.append(dict(id=len(cases), recv="null", acc="form", name="", args=["n0"], src=src.replace("导入《@JSON》\n", "导入《@JSON》\n输入甲、乙1\n", 1))); meta.append(("nested", "deep:" + tag))
    for tag, src in nested_programs():
        cases.append(dict(id=len(cases), recv="null", acc="form", name="", args=["n0"], src=src.replace("导入《@JSON》\n", "导入《@JSON》\n输入甲、乙1\n", 1))); meta.append(("nested", tag))
    for t in VARINPUTS + VARINPUTS2:
        cases.append(dict(id=len(cases), recv="null", acc="var", name="", args=[], var=t)); meta.append(("varinput", t))
    res = common.run_harness(ctx, znh, "inv", cases, timeout=3000, args=["-t", "10"])
    if len(res) != len(cases):
        raise common.NoVerdict("harness returned %d/%d" % (len(res), len(cases)))
    counts = {}
    illtyped_accepted = 0
    for r in res:
        kind, v = meta[r["id"]]
        c = cases[r["id"]]
        counts[r["obs"]] = counts.get(r["obs"], 0) + 1
        where = ("program " + v) if kind in ("shape", "nested") else ("%s %s.%s(%s)" % (c["acc"], c["recv"], c["name"], ",".join(c["args"]))) if kind.startswith("inv") else (c.get("var") or c.get("src", "").splitlines()[-1] + " on " + c["recv"] + "," + ",".join(c["args"]))
        if r["obs"] in ("panic", "exit", "timeout", "nil-value", "harness-error"):
            site = ""
            m = re.search(r"pkg/[\w/]+\.go:\d+|stdlib/[\w/]+\.go:\d+", (r.get("stack") or "") + (r.get("detail") or ""))
            if m: site = m.group(0)
            sig = "%s:%s:%s" % (r["obs"], (c["recv"] + "." + c["name"]) if kind.startswith("inv") else (kind if kind not in ("shape", "nested") else kind + ":" + v), site)
            common.report(ctx, sig, "%s -> %s %s" % (where, r["obs"], (r.get("detail") or r.get("msg") or "")[:300]), dict(case=c, result=r))
        elif r["obs"] == "syntax-error" and kind == "nested":
            pass        # a definition where the grammar allows none is a syntax error: a Zn error, which is what the property asks for
        elif r["obs"] == "syntax-error":
            common.report(ctx, "harness:syntax", "generated program does not parse: %s" % r.get("src"), dict(case=c, result=r))
        elif kind == "inv" and v["out"] == "error" and r["obs"] == "value":
            illtyped_accepted += 1     # recorded, not a violation: the property demands value-or-error, not which
    cov = dict(traces_validated_against_impl=len(cases), samples=[inv[100], dict(form=forms()[11]), dict(varinput=VARINPUTS[1])],
               evaluations=len(cases), distinct_nontrivial=len(cases),
               rule="TLC enumerates receiver kind (11 + free functions/constructors) x every member id of the spec tables (+ an unknown member) x access {get,set,call,new} x all "
                    "argument tuples of arity <= 2 over an 18-value boundary pool (0,-1,1.5,1e308,NaN,Inf,-2^63,'', 'a', astral text, 真, 空, 【】,【1】,【=】, a dictionary, an object, a "
                    "function) = 281k invocations with the outcome the validators' patterns demand (quick: all of arity <= 1 + a seeded 45000); plus random tuples of arity 3-4 "
                    "for every method/function/constructor, 38 operator/index/assignment/iteration/construction/throw/format forms x 11 receiver kinds x pool values, and %d "
                    "input-variable texts; %d programs that build a value of unusual shape (a collection that contains itself, directly or through another collection or an object; the result of a body that "
                    "produces nothing; a type or method as a value) and consume it in every way (display, return, format, JSON, copy, compare, search, iterate, throw, join, merge). %d programs that raise an exception object of every shape (no 内容 property, 内容 a number / list / dictionary / 空 / the object itself / a faulting getter, constructors that set nothing or fault) at top level, in methods, getters, loops, handled by nothing / another type's handler / a handler that reads or displays it. %d programs with 150 .. 6000 nested calls (direct methods, type methods) ending in a value / fault / throw, handled at the top, in a method, or not at all, and going on afterwards. %d programs that place every kind of definition / section (type, method, constructor, getter, import, 输入, handler, a custom throw) inside every kind of body (method, method called twice, own constructor, the redefined constructor of 异常 - constructed and thrown -, getter, type method, handler block, branch, loops) and run it. Every case runs in a worker process: the outcome class must be value or Zn error - never panic, nil result, exit or hang. The member "
                    "tables extracted from the Go sources must equal the spec's tables" % (len(VARINPUTS) + len(VARINPUTS2), len(weird_programs()), len(throw_programs()), len(deep_programs()), len(nested_programs())),
               outcome_counts=counts, illtyped_calls_returning_a_value=illtyped_accepted, unmodelled_members=unmodelled, stale_members=stale)
    if unmodelled or stale:
        # not a verdict by itself: recorded, so that the new member gets its row in the spec's tables (until then only the
        # arity-3/4 random tuples and the forms reach it)
        ctx.notes.append("member tables differ from spec/ZnBuiltins.tla (add the rows): unmodelled=%s stale=%s" % (unmodelled, stale))
    return cov, ["stdlib/http does not compile on this tree and is excluded; the two HTTP classes of pkg/common are exercised through a harness-side library",
                 "which error is raised, and the results of well-typed calls, are not compared here (C12/C14/C19)"]
