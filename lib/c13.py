"""C13 - every text value round-trips through a string literal (spec/ZnStr.tla)."""
import random, json, common, concurrent.futures as cf
from common import log


def run(ctx):
    znh = common.build_harness(ctx)
    rnd = random.Random(ctx.seed)
    quick = ctx.tier == "quick"
    cfgs = ["rt3", "rt2all", "rtq5", "dec4", "dec3all", "dec5", "uplus", "uplus6"] if quick else ["rt3", "rt2all", "rtq5", "rt5", "dec4", "dec3all", "dec5", "dec6", "uplus", "uplus6"]
    vecs = []
    def one(c):
        return common.tlc(ctx, "ZnStr", "MC_ZnStr_%s.cfg" % c, workers=5, timeout=3000)
    with cf.ThreadPoolExecutor(max_workers=3) as ex:
        for cname, (txt, info) in zip(cfgs, ex.map(one, cfgs)):
            vs_ = common.vectors(txt, "str")
            for v_ in vs_: v_["_cfg"] = cname
            vecs += vs_
    if len(vecs) < 300000:
        raise common.NoVerdict("too few vectors: %d" % len(vecs))
    if quick:
        rtq = [v for v in vecs if v["mode"] == "roundtrip" and v.get("_cfg") == "rtq5" and len(v["lit"]) >= 6]      # nested quote pairs between ordinary characters: all replayed
        rt = [v for v in vecs if v["mode"] == "roundtrip" and not (v.get("_cfg") == "rtq5" and len(v["lit"]) >= 6)]
        dec = [v for v in vecs if v["mode"] == "decode"]
        up = [v for v in vecs if v["mode"] == "uplus"]
        # decode direction: every body with at least two back-ticks (a complete back-tick sequence) is replayed, the rest sampled
        dec_bt = [v for v in dec if v["lit"].count("bt") >= 2]
        dec_other = [v for v in dec if v["lit"].count("bt") < 2]
        log("[C13] decode vectors: %d with a back-tick sequence (all replayed), %d others (sampled)" % (len(dec_bt), len(dec_other)))
        vecs = rnd.sample(rt, 80000) + rtq + dec_bt + rnd.sample(dec_other, min(len(dec_other), 40000)) + rnd.sample(up, 40000)
    cases = []
    for i, v in enumerate(vecs):
        e2e = v["lit"][0] in ("ql1", "ql2") and v["ok"] and v["stop"] == len(v["lit"]) and (v["mode"] == "roundtrip" or i % 5 == 0)
        # a sample of the round-trip literals also as LONG literals in a file: the body starts 2..0 bytes before / at a 4096-byte block boundary
        pads = [4096 * (1 + i % 2) - 9 - d for d in (0, 1, 2, 3)] if (e2e and v["mode"] == "roundtrip" and i % (25 if quick else 4) == 0) else []
        # ... and with a 2-, 3- or 4-byte character in front of the body that straddles the block boundary at every split point
        # (value = letters + that character + the text)
        strad = []
        if pads:
            m = 4096 * (1 + i % 2)
            for w in ("é", "你", "𝄞", "\U0010FFFD"):
                for sp in range(1, len(w.encode()) ):
                    strad.append([m - 9 - sp, w])
        cases.append(dict(id=i, lit=v["lit"], val=v["val"], reps=[0, 1 + (i + ctx.seed) % 10, 11 + (i * 7 + ctx.seed) % 90] if quick else [0, 1, 2, 3, 7, 10, 11 + (i * 7 + ctx.seed) % 90, 11 + (i * 13 + 5 * ctx.seed) % 90, 11 + (i * 29 + 3) % 90], e2e=e2e, pads=pads, strad=strad))
    res = common.run_harness(ctx, znh, "strlit", cases, timeout=3000)
    nrt = ndec = nsoft = 0
    for r in res:
        v = vecs[r["id"]]
        if r["obs"] != "done":
            common.report(ctx, "%s:%s" % (v["mode"], r["obs"]), "driver %s on literal %s: %s" % (r["obs"], v["lit"], r.get("detail", "")[:200]), dict(vector=v)); continue
        for run_ in r["runs"]:
            if v["mode"] == "roundtrip": nrt += 1
            else: ndec += 1
            if v["soft"]:
                nsoft += 1
                continue          # a back-tick sequence the manual does not define: totality only
            def rep(kind, what):
                common.report(ctx, "%s:%s" % (v["mode"], kind), what, dict(literal_symbols=v["lit"], spec_value=v["val"], spec_ok=v["ok"], run=run_))
            if v["ok"]:
                if run_["status"] != "ok":
                    rep("rejected", "literal %r: spec reads %r, lexer error %s" % (run_["src"], run_["want"], run_.get("code")))
                elif not run_["eq"]:
                    rep("value", "literal %r: spec reads %r, lexer reads %r" % (run_["src"], run_["want"], run_["got"]))
                elif run_["end"] != v["stop"]:
                    rep("end", "literal %r closes after %d characters in the spec, after %d in the lexer" % (run_["src"], v["stop"], run_["end"]))
                elif "e2e_obs" in run_ and not run_.get("e2e_eq"):
                    rep("e2e", "输出%s gave %r (%s), expected %r" % (run_["src"], run_.get("e2e_got"), run_.get("e2e_msg"), run_["want"]))
                else:
                    for k_, fr in run_.items():
                        if k_.startswith("file_") and not fr.get("eq"):
                            rep("long-literal-in-file", "literal %r preceded by %d letters%s, read from a file: value %s, expected %r after the letters" % (run_["src"], fr["pad"], (" and %r across the block boundary" % fr["w"]) if fr.get("w") else "", fr.get("got_tail", fr.get("msg")), run_["want"]))
                            break
            else:
                if run_["status"] == "ok":
                    rep("unterminated-accepted", "unterminated literal %r was accepted as %r" % (run_["src"], run_["got"]))
                elif run_.get("code") != 27:
                    rep("unterminated-code", "unterminated literal %r: error code %s, expected the incomplete-string syntax error" % (run_["src"], run_.get("code")))
    cov = dict(traces_validated_against_impl=nrt + ndec, samples=[vecs[10], vecs[-10]],
               evaluations=nrt + ndec, distinct_nontrivial=len(vecs),
               rule="round trip: every text of length <= 3 over the 29-symbol critical alphabet (10 quote characters, back-tick, CR, LF, escape-name letters, +, hex "
                    "digits, other) x openers {“,『,《} x 2 writer styles, plus all texts <= 2 x all 5 openers (thorough: <= 5 over a 10-symbol alphabet): the "
                    "spec's writer output is read by the spec's reader (TLC invariant RoundTrip) and by zh.NextToken (and 输出‹literal› for the “ ” / 「 」 "
                    "families, a sample of them also as LONG literals read from a file, the body placed at / across the 4096-byte read-block boundaries); decode direction: every body <= 4 over 16 symbols, <= 3 over all 29, <= 5 (thorough 6) over 10 symbols: value, closing position and "
                    "'unterminated => syntax error 27' compared; `U+h..h` with every hex string of <= 8 digits over {0,1,D,F} and <= 6 over {0,1,8,D,F} (zero padding, surrogates, > 10FFFF) wherever every back-tick sequence is a documented escape (others: totality only). quick replays every decode "
                    "body that contains a complete back-tick sequence, and a seeded sample (80000 / 40000 / 40000) of the round-trip, other decode and U+ vectors, with 2 concrete representations",
               roundtrip_runs=nrt, decode_runs=ndec, soft_runs=nsoft)
    return cov, ["where the manual does not say how far a failed back-tick escape extends only termination is demanded (flag soft, from the spec)",
                 "escape names are upper case as documented; hex digits available in the alphabet: 0 1 8 A B C D F"]
