"""C12 - lists are 1-indexed sequences, dictionaries insertion-ordered maps (spec/ZnColl.tla)."""
import random, json, os, re, common
from common import log


def rv_num(v): return v.get("t") == "num" and v.get("s")
def as_int(v):
    return int(v["s"]) if v.get("t") == "num" and re.fullmatch(r"-?\d+", v.get("s", "")) else None
def as_ints(v):
    if v.get("t") != "list": return None
    out = [as_int(x) for x in v["v"]]
    return None if any(x is None for x in out) else out
def as_strs(v):
    if v.get("t") != "list": return None
    return [x.get("v") if x.get("t") == "str" else None for x in v["v"]]


def reply_ok(op, rep, rv, st):
    """spec reply vs displayed reply value. st['fb'] carries the inferred base of 寻找."""
    k = rep["k"]
    if k in ("index", "key"):
        return rv.get("t") == "str" and rv.get("v") == "!ERR"
    if k == "val": return as_int(rv) == rep["v"]
    if k == "null": return rv.get("t") == "null"
    if k == "bool": return rv.get("t") == "bool" and rv.get("v") == rep["v"]
    if k == "seq":
        if op["o"] == "dkeys": return as_strs(rv) == list(rep["v"])
        return as_ints(rv) == list(rep["v"])
    if k == "find":
        got = as_int(rv)
        if rep["p"] == 0: return got == -1
        if got is None: return False
        base = got - (rep["p"] - 1)
        if base not in (0, 1): return False
        if st.setdefault("fb", base) != base: return False
        return True
    return False


def check_case(c, r, st):
    """-> (kind, detail) or None"""
    if r["obs"] != "value":
        return ("run-" + r["obs"], "program did not complete: %s %s" % (r["obs"], (r.get("msg") or r.get("detail") or "")[-200:]))
    d = r["display"]
    n = len(c["h"])
    if len(d) < n:
        return ("display-count", "only %d of %d steps displayed" % (len(d), n))
    for i, op in enumerate(c["h"]):
        row = d[i]
        if not reply_ok(op, op["r"], row[0], st):
            return ("reply:" + op["o"], "step %d %s: spec reply %s, displayed %s" % (i + 1, op["o"], json.dumps(op["r"]), json.dumps(row[0], ensure_ascii=False)))
        s = op["s"]
        if c["kind"] == "list":
            if as_ints(row[1]) != list(s["l"]) or as_int(row[2]) != len(s["l"]):
                return ("state:" + op["o"], "after step %d %s: spec list %s, displayed %s len %s" % (i + 1, op["o"], s["l"], json.dumps(row[1]), json.dumps(row[2])))
            txt = "[" + "，".join(str(x) for x in s["l"]) + "]"
            if row[3].get("v") != txt:
                return ("text-form:" + op["o"], "text form %r, expected %r" % (row[3].get("v"), txt))
        else:
            dd = row[1]
            if dd.get("t") != "dict" or list(dd["k"]) != list(s["k"]) or [as_int(x) for x in dd["v"]] != list(s["v"]) or dd.get("n") != len(s["k"]):
                return ("state:" + op["o"], "after step %d %s: spec dict %s=%s, displayed %s" % (i + 1, op["o"], s["k"], s["v"], json.dumps(dd, ensure_ascii=False)))
            if as_int(row[2]) != len(s["k"]) or as_strs(row[3]) != list(s["k"]) or as_ints(row[4]) != list(s["v"]):
                return ("observers:" + op["o"], "数目/所有索引/所有值 disagree with spec %s=%s: %s" % (s["k"], s["v"], json.dumps(row[2:5], ensure_ascii=False)))
            # generated JSON follows the same order
            try:
                pairs = json.loads(row[5]["v"], object_pairs_hook=lambda p: p)
                if [k for k, _ in pairs] != list(s["k"]) or [v for _, v in pairs] != list(s["v"]):
                    return ("json-order", "生成JSON %s, dictionary order %s" % (row[5]["v"], s["k"]))
            except Exception as e:
                return ("json-invalid", "生成JSON gave %r" % (row[5],))
    # final iteration
    fin = c["h"][-1]["s"] if c["h"] else None
    it = d[n:]
    if fin is not None:
        if c["kind"] == "list":
            want = [(i + 1, x) for i, x in enumerate(fin["l"])]
            got = [(as_int(row[0]), as_int(row[1])) for row in it]
        else:
            want = list(zip(fin["k"], fin["v"]))
            got = [(row[0].get("v"), as_int(row[1])) for row in it]
        if want != got:
            return ("iteration", "遍历 visited %s, spec %s" % (got, want))
    return None


def run(ctx):
    znh = common.build_harness(ctx)
    rnd = random.Random(ctx.seed)
    cases = []
    for kind in ("list", "dict"):
        cfg = "MC_ZnColl_%s.cfg" % kind
        if ctx.tier == "thorough":
            cfg = "MC_ZnColl_%s_thorough.cfg" % kind
        txt, info = common.tlc(ctx, "MC_ZnColl", cfg, timeout=2500, extra=["-seed", str(ctx.seed)])
        vs = common.vectors(txt, "coll")
        if len(vs) < 10000:
            raise common.NoVerdict("too few %s histories: %d" % (kind, len(vs)))
        cases += vs
        common.tlc(ctx, "MC_ZnColl", "MC_ZnColl_%s_deep.cfg" % kind, timeout=900)
    for i, c in enumerate(cases):
        c["id"] = i
    res = common.run_harness(ctx, znh, "coll", cases, timeout=3000)
    st = {}
    ops = 0
    for r in res:
        c = cases[r["id"]]
        ops += len(c["h"])
        m = check_case(c, r, st)
        if m:
            common.report(ctx, "%s:%s" % (c["kind"], m[0]), m[1], dict(start=c["start"], history=[{k: o[k] for k in ("o", "i", "j", "v", "key", "other", "r")} for o in c["h"]], source=r.get("src"), display=r.get("display")))
    # ---- literals (ZnEval machine: mkdict = first position, last value; mklist) incl. repeated keys, then keyed writes
    import zneval as Z, itertools
    lprogs = []
    keysets = [ks for n in (1, 2, 3, 4) for ks in itertools.product("ab" if n > 3 else "abc", repeat=n)]
    for ks in keysets:
        main = [Z.decl("D", Z.dct(list(ks), [Z.num(i + 1) for i in range(len(ks))])), Z.disp(Z.var("D")),
                Z.iter_(["K", "V"], Z.var("D"), [Z.disp(Z.var("K"), Z.var("V"))]),
                Z.ex(Z.asg(Z.idx(Z.var("D"), Z.s("b")), Z.num(9))), Z.ex(Z.asg(Z.idx(Z.var("D"), Z.s("z")), Z.num(8))), Z.disp(Z.var("D")), Z.ex(Z.num(0))]
        p = Z.prog(main); p["tag"] = "dict-literal:" + "".join(ks); lprogs.append(p)
    p = Z.prog([Z.decl("L", Z.lst(Z.num(3), Z.num(3), Z.lst(), Z.s("x"))), Z.disp(Z.var("L"), Z.idx(Z.var("L"), Z.num(1)), Z.idx(Z.var("L"), Z.num(4))),
                Z.iter_(["I", "V"], Z.var("L"), [Z.disp(Z.var("I"), Z.var("V"))]), Z.ex(Z.num(0))]); p["tag"] = "list-literal"; lprogs.append(p)
    # tables (collections of collections) built in every way - one row variable mentioned in every position, literal rows, rows appended
    # one by one, a dictionary of rows - copied, then written cell by cell: a read returns the last value written at THAT position
    R, G, H = Z.var("R"), Z.var("G"), Z.var("H")
    builders = {
        "row-variable": [Z.decl("R", Z.lst(Z.num(0), Z.num(0), Z.num(0))), Z.decl("G", Z.lst(R, R, R))],
        "literal-rows": [Z.decl("G", Z.lst(Z.lst(Z.num(0), Z.num(0), Z.num(0)), Z.lst(Z.num(0), Z.num(0), Z.num(0)), Z.lst(Z.num(0), Z.num(0), Z.num(0))))],
        "appended-rows": [Z.decl("R", Z.lst(Z.num(0), Z.num(0), Z.num(0))), Z.decl("G", Z.lst()), Z.ex(Z.mcall(G, "@append", R)), Z.ex(Z.mcall(G, "@append", R)), Z.ex(Z.mcall(G, "@append", R))],
        "nested-row-variable": [Z.decl("R", Z.lst(Z.num(0), Z.num(0), Z.num(0))), Z.decl("Q", Z.lst(R, R)), Z.decl("G", Z.lst(Z.idx(Z.var("Q"), Z.num(1)), Z.idx(Z.var("Q"), Z.num(2)), R))],
    }
    for bn, bs in builders.items():
        for direct in (True, False):
            main = json.loads(json.dumps(bs)) + ([Z.decl("H", G)] if not direct else [Z.decl("H", Z.lst()), Z.ex(Z.asg(H, G))])
            for (i, j) in ((1, 1), (2, 3), (3, 2), (2, 1)):
                main += [Z.ex(Z.asg(Z.idx(Z.idx(H, Z.num(i)), Z.num(j)), Z.num(10 * i + j))), Z.disp(H, G, Z.idx(Z.idx(H, Z.num(j)), Z.num(i)))]
            main += [Z.ex(Z.mcall(Z.idx(H, Z.num(1)), "@append", Z.num(99))), Z.disp(H, Z.idx(H, Z.num(2)), Z.idx(H, Z.num(3))), Z.ex(Z.num(0))]
            p = Z.prog(main); p["tag"] = "table:%s:%s" % (bn, "declared-copy" if not direct else "assigned-copy"); lprogs.append(p)
    DD = Z.var("DD")
    main = [Z.decl("R", Z.lst(Z.num(0), Z.num(0))), Z.decl("D", Z.dct(["a", "b", "c"], [R, R, R])), Z.decl("DD", Z.var("D")),
            Z.ex(Z.asg(Z.idx(Z.idx(DD, Z.s("a")), Z.num(1)), Z.num(5))), Z.disp(DD, Z.var("D")), Z.ex(Z.mcall(Z.idx(DD, Z.s("b")), "@append", Z.num(6))), Z.disp(DD, Z.idx(DD, Z.s("c"))), Z.ex(Z.num(0))]
    p = Z.prog(main); p["tag"] = "table:dictionary-of-rows"; lprogs.append(p)
    # 空 is a value like any other: a key / position that holds 空 is stored (read by index, by iteration, counted, displayed), however it got there
    D, L = Z.var("D"), Z.var("L")
    for how, mk in (("literal", [Z.decl("D", Z.dct(["a", "b"], [Z.NULL, Z.num(1)]))]), ("key-assignment", [Z.decl("D", Z.dct(["a", "b"], [Z.num(0), Z.num(1)])), Z.ex(Z.asg(Z.idx(D, Z.s("a")), Z.NULL))]),
                    ("put", [Z.decl("D", Z.dct(["b"], [Z.num(1)])), Z.ex(Z.mcall(D, "@put", Z.s("a"), Z.NULL))]), ("copy", [Z.decl("E", Z.dct(["a", "b"], [Z.NULL, Z.num(1)])), Z.decl("D", Z.var("E"))])):
        main = json.loads(json.dumps(mk)) + [Z.disp(Z.idx(D, Z.s("a")), Z.idx(D, Z.s("b")), D), Z.iter_(["K", "V"], D, [Z.disp(Z.var("K"), Z.var("V"))]),
                                             Z.ex(Z.asg(Z.idx(D, Z.s("c")), Z.NULL)), Z.disp(Z.idx(D, Z.s("c")), D), Z.ex(Z.asg(Z.idx(D, Z.s("a")), Z.num(5))), Z.disp(Z.idx(D, Z.s("a")), Z.idx(D, Z.s("c"))), Z.mark("missing-next"), Z.ex(Z.idx(D, Z.s("zz"))), Z.mark("dead")]
        p = Z.prog(main); p["tag"] = "null-values:dict:" + how; lprogs.append(p)
    main = [Z.decl("L", Z.lst(Z.NULL, Z.num(1), Z.NULL)), Z.disp(Z.idx(L, Z.num(1)), Z.idx(L, Z.num(2)), Z.idx(L, Z.num(3)), L), Z.ex(Z.asg(Z.idx(L, Z.num(2)), Z.NULL)), Z.ex(Z.mcall(L, "@append", Z.NULL)),
            Z.disp(L, Z.idx(L, Z.num(4))), Z.iter_(["I", "V"], L, [Z.disp(Z.var("I"), Z.var("V"))]), Z.ex(Z.asg(Z.idx(L, Z.num(1)), Z.num(7))), Z.disp(Z.idx(L, Z.num(1)), Z.idx(L, Z.num(3))), Z.ex(Z.idx(L, Z.num(5))), Z.mark("dead")]
    p = Z.prog(main); p["tag"] = "null-values:list"; lprogs.append(p)
    # a NUMBER held in a variable and stored into a collection (后增, 前增, 写入, element / key assignment, a literal that mentions it - also twice):
    # the position holds that number; 自增 / 自减 on the variable, or on one stored position, changes nothing else
    N, L2, D2 = Z.var("N"), Z.var("L"), Z.var("D")
    def inc(tgt, by=1, m="@incr"): return Z.ex(Z.mcall(tgt, m, Z.num(by)))
    stores = {
        "append": [Z.decl("L", Z.lst(Z.num(1))), Z.ex(Z.mcall(L2, "@append", N)), Z.ex(Z.mcall(L2, "@append", N))],
        "prepend": [Z.decl("L", Z.lst(Z.num(1))), Z.ex(Z.mcall(L2, "@prepend", N)), Z.ex(Z.mcall(L2, "@prepend", N))],
        "element-assign": [Z.decl("L", Z.lst(Z.num(1), Z.num(2), Z.num(3))), Z.ex(Z.asg(Z.idx(L2, Z.num(1)), N)), Z.ex(Z.asg(Z.idx(L2, Z.num(3)), N))],
        "literal": [Z.decl("L", Z.lst(N, Z.num(2), N))],
        "copy-of-literal": [Z.decl("G", Z.lst(N, N)), Z.decl("L", Z.var("G"))],
    }
    for sn, stm in stores.items():
        main = [Z.decl("N", Z.num(5))] + json.loads(json.dumps(stm)) + [Z.disp(L2, N), inc(N), Z.disp(L2, N), inc(Z.idx(L2, Z.num(1)), 10), Z.disp(L2, N), inc(N, 3, "@decr"), Z.disp(L2, N),
                                                                       Z.iter_(["I", "V"], L2, [Z.disp(Z.var("I"), Z.var("V"))]), Z.ex(Z.num(0))]
        p = Z.prog(main); p["tag"] = "number-variable-stored:list:" + sn; lprogs.append(p)
    for sn, stm in (("put", [Z.decl("D", Z.dct(["a"], [Z.num(1)])), Z.ex(Z.mcall(D2, "@put", Z.s("k"), N)), Z.ex(Z.mcall(D2, "@put", Z.s("j"), N))]),
                   ("key-assign", [Z.decl("D", Z.dct(["a"], [Z.num(1)])), Z.ex(Z.asg(Z.idx(D2, Z.s("k")), N)), Z.ex(Z.asg(Z.idx(D2, Z.s("j")), N))]),
                   ("literal", [Z.decl("D", Z.dct(["k", "j"], [N, N]))])):
        main = [Z.decl("N", Z.num(5))] + json.loads(json.dumps(stm)) + [Z.disp(D2, N), inc(N), Z.disp(D2, N), inc(Z.idx(D2, Z.s("k")), 10), Z.disp(D2, N, Z.idx(D2, Z.s("j"))), Z.ex(Z.num(0))]
        p = Z.prog(main); p["tag"] = "number-variable-stored:dict:" + sn; lprogs.append(p)
    lstats, _, _ = Z.run_family(ctx, znh, lprogs, "c12lit")
    # ---- trace validation of long random histories recorded from the real value types
    nh, ln = (30, 500) if ctx.tier == "quick" else (150, 2000)
    hres = common.run_harness(ctx, znh, "collhist", [dict(id=i, seed=ctx.seed * 7919 + i, len=ln) for i in range(nh)])
    tf = os.path.join(ctx.scratch, "trace-zncoll.ndjson")
    nlines = 0
    with open(tf, "w") as f:
        for r in sorted(hres, key=lambda r: r["id"]):
            if r["obs"] != "done":
                common.report(ctx, "recorder:%s" % r["obs"], "collhist driver: %s" % r.get("detail", ""), dict(result=r))
                continue
            f.write(json.dumps(dict(o="reset", i=0, j=0, v=0, key="", other=[], r={"k": "init"}, l=[], dk=[], dv=[], dn=0, kept=[])) + "\n"); nlines += 1
            for e in r["log"]:
                f.write(json.dumps(e) + "\n"); nlines += 1
    common.corrupt_trace(tf, ["dn", "v"])
    ttxt, tinfo = common.tlc(ctx, "Trace_ZnColl", "Trace_ZnColl.cfg", workers=1, timeout=900, files=[(tf, "trace.ndjson")], allow_violation=True)
    accepted = not tinfo["violated"]
    if not accepted:
        if tinfo.get("postcondition_failed") and "Action property" not in ttxt and "Invariant" not in ttxt:
            m = re.search(r"The depth of the complete state graph search is (\d+)", ttxt)
            upto = int(m.group(1)) - 1 if m else -1
            lines = open(tf).read().splitlines()
            bad = json.loads(lines[upto]) if 0 <= upto < len(lines) else {}
            common.report(ctx, "trace-rejected:%s" % bad.get("o"), "recorded history rejected by Trace_ZnColl at line %d: %s" % (upto + 1, lines[upto] if bad else "?"),
                          dict(context=lines[max(0, upto - 3):upto + 1]))
        else:
            raise common.NoVerdict("trace spec failed unexpectedly:\n" + common.tail(ttxt))
    cov = dict(traces_validated_against_impl=len(cases) + nh, samples=[dict(kind=cases[0]["kind"], start=cases[0]["start"], ops=[(o["o"], o["r"]) for o in cases[0]["h"]]),
                                                                         dict(recorded_trace_line=open(tf).read().splitlines()[5])],
               evaluations=ops + nlines, distinct_nontrivial=len(cases),
               rule="every history of 3 list operations (14 operations x arguments, 5 start lists; 841k) and 3 (thorough 4) dictionary operations "
                    "(8 operations, 4 start dictionaries) from ZnColl - quick replays a TLC-seeded 1/20 (list) and 1/3 (dict) of them, thorough 1/4 and 1/12 of the 4-operation dictionary histories (JSON volume) - is turned into one Zn program that displays "
                    "the reply, the collection, its length, text form / 所有索引 / 所有值 / generated JSON after every step and iterates over it at the "
                    "end; %d dictionary literals over <=4 keys incl. every pattern of repeated keys (ZnEval: first position, last value) followed by keyed writes; invariants and laws are also checked to length 8 with a VIEW; %d random histories of %d operations over 9 values / 8 keys are "
                    "RECORDED from value.Array/value.HashMap and validated by TLC against Trace_ZnColl (accepted=%s)" % (len(lprogs), nh, ln, accepted),
               literal_programs=lstats["programs"], find_base_inferred=st.get("fb"), trace_lines=nlines, trace_accepted=accepted)
    return cov, ["寻找's index base (0 in the draft API document, 1 suggested by '1-indexed') is inferred and must be consistent",
                 "新增/添加 positions, fractional indices and setters on empty lists are not demanded (DESIGN C12)"]
