"""C19 - JSON generation and parsing are faithful inverses (spec/ZnJson.tla; independent codec: Python json)."""
import random, json, math, common
from common import log

ATOM = {
    "t_empty": "", "t_a": "a", "t_quote": 'q"q', "t_bslash": "b\\s", "t_lf": "l\nf", "t_ctl": "c\x01", "t_emoji": "\U0001F600",
    "t_script": "</script>", "t_ls": " ", "t_uesc": "C:\\u003cdir\\u0026x\\u0041&<>", "t_nesc": "r\\n\\\"s\\\\t\\", "t_kctl": "k\x01\x0b\x7f\\\U000E0001\x1f",
    "n_0": 0.0, "n_m1": -1.0, "n_1p5": 1.5, "n_1e21": 1e21, "n_2p53": 9007199254740992.0,
    "true": True, "false": False, "null": None,
}


def concrete(v):
    """spec value -> (python value with dict order as list of pairs, harness typed value)"""
    if v["t"] == "atom":
        a = ATOM[v["a"]]
        if isinstance(a, bool): return a, {"t": "bool", "b": a}
        if a is None: return None, {"t": "null"}
        if isinstance(a, float): return a, {"t": "num", "s": repr(a)}
        return a, {"t": "str", "v": a}
    if v["t"] == "list":
        ps = [concrete(x) for x in v["items"]]
        return [p for p, _ in ps], {"t": "list", "i": [h for _, h in ps]}
    ks = [ATOM[k] for k in v["keys"]]
    ps = [concrete(x) for x in v["vals"]]
    return Pairs(zip(ks, [p for p, _ in ps])), {"t": "dict", "k": ks, "d": [h for _, h in ps]}


class Pairs(list):
    """ordered object"""


def py_eq(a, b):
    """python structure (Pairs for objects) equality, numbers by value"""
    if isinstance(a, Pairs) or isinstance(b, Pairs):
        return isinstance(a, Pairs) and isinstance(b, Pairs) and len(a) == len(b) and all(x[0] == y[0] and py_eq(x[1], y[1]) for x, y in zip(a, b))
    if isinstance(a, list) or isinstance(b, list):
        return isinstance(a, list) and isinstance(b, list) and len(a) == len(b) and all(py_eq(x, y) for x, y in zip(a, b))
    if isinstance(a, bool) or isinstance(b, bool) or a is None or b is None:
        return a is b
    if isinstance(a, (int, float)) and isinstance(b, (int, float)):
        return float(a) == float(b)
    return type(a) == type(b) and a == b


def snap_to_py(s):
    t = s.get("t")
    if t == "num":
        x = s["s"]
        return float(x.replace("+Inf", "inf").replace("-Inf", "-inf").replace("NaN", "nan"))
    if t == "str": return s["v"]
    if t == "bool": return s["v"]
    if t == "null": return None
    if t == "list": return [snap_to_py(x) for x in s["v"]]
    if t == "dict": return Pairs(zip(s["k"], [snap_to_py(x) for x in s["v"]]))
    return ("?", t)


def to_text(py, ascii_, ws):
    def conv(x):
        if isinstance(x, Pairs): return {k: conv(v) for k, v in x}     # python dicts keep insertion order
        if isinstance(x, list): return [conv(v) for v in x]
        return x
    return json.dumps(conv(py), ensure_ascii=ascii_, separators=((", ", ": ") if ws else (",", ":")), indent=(1 if ws == 2 else None))


def strict_loads(text):
    def bad(c): raise ValueError("constant " + c)
    return json.loads(text, object_pairs_hook=Pairs, parse_constant=bad)


def run(ctx):
    znh = common.build_harness(ctx)
    rnd = random.Random(ctx.seed)
    vecs = []
    for fam in ("E", "R"):
        txt, info = common.tlc(ctx, "ZnJson", "MC_ZnJson_%s.cfg" % fam, timeout=900, extra=["-seed", str(ctx.seed)])
        vecs += common.vectors(txt, "json")
    if len(vecs) < 15000:
        raise common.NoVerdict("too few vectors: %d" % len(vecs))
    cases = []
    meta = []
    def add(op, py, hv=None, text=None, why=""):
        cases.append(dict(id=len(cases), op=op, val=hv or {"t": "null"}, text=text or ""))
        meta.append((op, py, text, why))
    for i, v in enumerate(vecs):
        py, hv = concrete(v["v"])
        add("gen", py, hv=hv)
        add("round", py, hv=hv)
        if v["v"]["t"] != "atom" and i % 3 == 0:
            add("genshared", py, hv=hv, why="equal parts are one object")
        style = (i + ctx.seed) % 4
        add("parse", py, text=to_text(py, ascii_=(style % 2 == 0), ws=(style // 2)))
        if i % 7 == 0:
            add("parse", py, text=to_text(py, ascii_=True, ws=2))
    # LARGE values built from the enumerated ones: many siblings (lists / dictionaries with thousands of members, each itself a
    # container), deep nesting (lists in lists, dictionaries in dictionaries, hundreds of levels), long texts
    import sys
    sys.setrecursionlimit(20000)
    def wide_list(py, hv, n): return Pairs([("表", [py] * n)]), {"t": "dict", "k": ["表"], "d": [{"t": "list", "i": [hv] * n}]}
    def wide_dict(py, hv, n): return Pairs([("k%d" % j, py) for j in range(n)]), {"t": "dict", "k": ["k%d" % j for j in range(n)], "d": [hv] * n}
    def deep_list(py, hv, n):
        for _ in range(n): py, hv = [py], {"t": "list", "i": [hv]}
        return Pairs([("深", py)]), {"t": "dict", "k": ["深"], "d": [hv]}
    def deep_dict(py, hv, n):
        for j in range(n): py, hv = Pairs([("d", py)]), {"t": "dict", "k": ["d"], "d": [hv]}
        return py, hv
    def rows(py, hv, n): return Pairs([("行", [[py, j] for j in range(n)])]), {"t": "dict", "k": ["行"], "d": [{"t": "list", "i": [{"t": "list", "i": [hv, {"t": "num", "s": str(j)}]} for j in range(n)]}]}
    shapes = [("wide-list", wide_list, [1200, 3000]), ("wide-dict", wide_dict, [1500]), ("deep-list", deep_list, [60, 400]), ("deep-dict", deep_dict, [60, 400]), ("rows", rows, [1100, 2500])]
    nbig = 0
    for v in rnd.sample(vecs, 6 if ctx.tier == "quick" else 60):
        py0, hv0 = concrete(v["v"])
        for tag_, mk, ns in shapes:
            for n in ns:
                py, hv = mk(py0, hv0, n)
                add("gen", py, hv=hv, why="large:%s:%d" % (tag_, n)); add("round", py, hv=hv, why="large:%s:%d" % (tag_, n))
                add("parsegen", py, text=to_text(py, ascii_=bool(n % 2), ws=0), why="large:%s:%d" % (tag_, n)); nbig += 3
    for v in rnd.sample(vecs, 40 if ctx.tier == "quick" else 400):
        py0, hv0 = concrete(v["v"])
        py, hv = Pairs([("前", [py0, 1.0]), ("后", [py0, 1.0]), ("又", py0)]), {"t": "dict", "k": ["前", "后", "又"], "d": [{"t": "list", "i": [hv0, {"t": "num", "s": "1"}]}, {"t": "list", "i": [hv0, {"t": "num", "s": "1"}]}, hv0]}
        add("genshared", py, hv=hv, why="the same value at several places")
    longtext = "长" * 70000 + "\"" + "x\n" * 30000
    pyl = Pairs([("文", longtext), ("尾", 1.0)])
    add("gen", pyl, hv={"t": "dict", "k": ["文", "尾"], "d": [{"t": "str", "v": longtext}, {"t": "num", "s": "1"}]}, why="large:text")
    add("parse", pyl, text=to_text(pyl, ascii_=False, ws=0), why="large:text")
    # corruptions of a sample of documents (single character deleted / inserted / replaced)
    nsamp = 400 if ctx.tier == "quick" else 4000
    alphabet = ['{', '}', '[', ']', ',', ':', '"', 'x', '1', ' ', '\\', '-']
    for v in rnd.sample(vecs, nsamp):
        py, hv = concrete(v["v"])
        text = to_text(py, ascii_=True, ws=0)
        seen = set()
        for _ in range(12):
            p = rnd.randrange(len(text) + 1)
            k = rnd.choice(["del", "ins", "rep"])
            if k == "del" and p < len(text): t2 = text[:p] + text[p + 1:]
            elif k == "ins": t2 = text[:p] + rnd.choice(alphabet) + text[p:]
            elif p < len(text): t2 = text[:p] + rnd.choice(alphabet) + text[p + 1:]
            else: continue
            if t2 in seen or t2 == text: continue
            seen.add(t2)
            add("catchparse", None, text=t2, why=k)
    for t2 in ["", " ", "{", "}", "[]", "null", "1", '"a"', '{"a":}', '{"a":1,}', "{'a':1}", '{"a":NaN}', '{"a":Infinity}', '{"a":1e999}', '{"a":01}',
               '{"a":"\x01"}', '{"a":1}{"b":2}', '{"a":1} x', '﻿{"a":1}', '{"a":[1,2}', '{"a":tru}', '{"a":"\\u12"}', '{"a":"\\ud800"}', '{"a" 1}', '{a:1}']:
        add("catchparse", None, text=t2, why="hand")
    for bad in ("NaN", "+Inf", "-Inf"):
        add("catchgen", None, hv={"t": "dict", "k": ["a"], "d": [{"t": "num", "s": bad}]}, why=bad)
        add("catchgen", None, hv={"t": "dict", "k": ["a", "b"], "d": [{"t": "num", "s": "1"}, {"t": "list", "i": [{"t": "dict", "k": ["z"], "d": [{"t": "num", "s": bad}]}]}]}, why=bad + "-nested")
    # a refused generation / failed parse first, then the value: the second result must be what it is alone
    bads = [{"t": "dict", "k": ["x", "y"], "d": [{"t": "str", "v": "long text before the refused number"}, {"t": "num", "s": "NaN"}]},
            {"t": "dict", "k": ["p"], "d": [{"t": "list", "i": [{"t": "num", "s": "1"}, {"t": "dict", "k": ["q"], "d": [{"t": "num", "s": "+Inf"}]}]}]},
            {"t": "list", "i": [{"t": "str", "v": "z"}, {"t": "num", "s": "-Inf"}]}]
    for i, v in enumerate(rnd.sample(vecs, 300 if ctx.tier == "quick" else 3000)):
        py, hv = concrete(v["v"])
        cases.append(dict(id=len(cases), op="genafter", val=hv, bad=bads[i % len(bads)], text=rnd.choice(['{"a":', '{"a":1}}', '[1,2', 'x', '{"a":"\\ud800"}'])))
        meta.append(("genafter", py, None, "after-refusal"))
    res = common.run_harness(ctx, znh, "json", cases, timeout=2500)
    if len(res) != len(cases):
        raise common.NoVerdict("harness returned %d/%d" % (len(res), len(cases)))
    counts = {}
    for r in res:
        op, py, text, why = meta[r["id"]]
        counts[op] = counts.get(op, 0) + 1
        def rep(kind, what):
            common.report(ctx, "%s:%s" % (op, kind), what, dict(op=op, value=repr(py)[:400], text=text, result=r, why=why))
        if r["obs"] in ("panic", "timeout", "exit", "harness-error"):
            rep(r["obs"], "%s during %s: %s" % (r["obs"], op, r.get("detail", "")[:300]))
            continue
        if op == "genafter":
            if r["obs"] != "value" or r["val"].get("t") != "list" or len(r["val"]["v"]) != 6:
                rep("did-not-run", "the sequence refused-generation / failed-parse / generation did not complete: %s %s" % (r["obs"], r.get("msg"))); continue
            a, b_, txt, c3, txt2, same = r["val"]["v"]
            if a.get("v") != "ERR" or c3.get("v") != "ERR":
                rep("refusal", "生成JSON of a value holding a non-finite number did not raise a catchable exception: %s / %s" % (a, c3)); continue
            for which, tx in (("first", txt), ("second", txt2)):
                try:
                    back = strict_loads(tx.get("v"))
                    if not py_eq(back, py):
                        rep("after-refusal:structure", "%s generation after a refused one: %r reads back as %r, expected %r" % (which, tx.get("v"), back, py)); break
                except Exception as e:
                    rep("after-refusal:invalid-json", "%s generation after a refused one gave %r: %s" % (which, tx.get("v"), e)); break
            else:
                if same.get("v") is not True:
                    rep("after-refusal:roundtrip", "解析JSON(生成JSON(v)) 为 v is %s after a refused generation" % same)
            continue
        if op in ("gen", "parsegen", "genshared"):
            # (parsegen: a document parsed and generated again - values nested deeper than the harness's snapshot are compared as text)
            if r["obs"] != "value" or r["val"].get("t") != "str":
                rep("no-text", "%s did not return a text: %s %s" % ("生成JSON" if op == "gen" else ("生成JSON of a value in which " + why) if op == "genshared" else "生成JSON(解析JSON(document))" + why, r["obs"], r.get("msg"))); continue
            try:
                back = strict_loads(r["val"]["v"])
            except Exception as e:
                rep("invalid-json", "Python's json rejects the generated text %r: %s" % (r["val"]["v"], e)); continue
            if not py_eq(back, py):
                kind = "key-order" if isinstance(back, Pairs) and sorted(map(repr, back)) == sorted(map(repr, py)) else "structure"
                rep(kind, "generated %r reads back as %r, expected %r" % (r["val"]["v"], back, py))
        elif op == "parse":
            if r["obs"] != "value":
                rep("rejected-valid", "解析JSON rejected a valid document %r: %s" % (text, r.get("msg"))); continue
            got = snap_to_py(r["val"])
            if not py_eq(got, py):
                kind = "key-order" if isinstance(got, Pairs) and sorted(map(repr, got)) == sorted(map(repr, py)) else "structure"
                rep(kind, "document %r parsed as %r, expected %r" % (text, got, py))
        elif op == "round":
            if r["obs"] != "value":
                rep("error", "解析JSON(生成JSON(d)) failed: %s" % r.get("msg")); continue
            got = snap_to_py(r["val"])
            if not py_eq(got, py) and not why.startswith("large:deep"):      # (the snapshot stops at 12 levels; 为 below compares all of it)
                rep("structure", "round trip gave %r, expected %r" % (got, py))
            d = r.get("display") or []
            if not d or d[0][0].get("v") is not True:
                rep("not-equal-by-为", "解析JSON(生成JSON(d)) 为 d answered %s" % (d[0][0] if d else None))
        elif op == "catchparse":
            try:
                v = strict_loads(text)
                valid = True
            except Exception:
                valid = False
            out = r["val"].get("v") if r["obs"] == "value" and r.get("val") else None
            if r["obs"] != "value":
                rep("uncatchable", "解析JSON on %r ended the program (%s) instead of raising a catchable exception" % (text, r.get("msg")))
            elif not valid and out != "caught":
                # both Python and the property say malformed
                rep("malformed-accepted", "malformed document %r was accepted" % text)
            elif valid and isinstance(v, Pairs) and out != "no-error" and "﻿" not in text and "inf" not in repr(v):
                rep("valid-rejected", "valid document %r raised an exception" % text)
        elif op == "catchgen":
            out = r["val"].get("v") if r["obs"] == "value" and r.get("val") else None
            if out != "caught":
                rep("nonfinite", "生成JSON of a non-finite number (%s): %s %s" % (why, r["obs"], out if out else r.get("msg")))
    cov = dict(traces_validated_against_impl=len(cases), samples=[dict(spec_value=vecs[5]["v"]), dict(document=meta[2][2])],
               evaluations=len(cases), distinct_nontrivial=len(vecs),
               rule="exhaustive: top-level dictionaries with <=2 members (ordered keys from 4 key atoms incl. a quote, an astral character and a key made of control characters / DEL / backslash / a non-printable astral character) whose values are "
                    "atoms (9 texts, 5 doubles, 真/假/空) or lists/dictionaries of <=1 atom (17014 values); seeded random values of depth 3 with <=3 members "
                    "(RandomElement, ~5000). For each value: generated text read by Python json (order-preserving, constants rejected), Python-encoded text "
                    "(ascii/non-ascii, compact/spaced/indented) parsed by 解析JSON, composition compared by value and by 为; plus %d single-character "
                    "corruptions and hand-written malformed documents; LARGE values built from a seeded sample (lists of 1200-3000 containers, dictionaries of 1500 members, 1100-2500 rows, lists / dictionaries nested 60 and 400 deep, a text of 160000 characters), and non-finite numbers, which must raise a catchable exception; 300 sequences refused generation / failed parse / generation / refused generation / generation in ONE execution: the texts generated after a refusal are what they are alone" % counts.get("catchparse", 0),
               per_op=counts)
    return cov, ["Python's json module (strict: NaN/Infinity rejected) is the independent codec and the arbiter of well-formedness",
                 "top-level non-object documents and a leading BOM are not demanded either way", "number spelling in generated text is not compared (values are)"]
