"""C18 - errors point at the line and call chain where they arose.
Runtime part: ZnEval machine gives fault path + active call chain (paths -> physical lines via the
renderer's map, with multi-line literals/comments, blank lines, CR/CRLF line ends before the fault).
Syntax part: ZnPos gives line and marker column of the offending character."""
import random, itertools, common
from zneval import *
from excfam import *

PRE = {
    "none": None,
    "blank": ["", ""],
    "cmt": ["// 注释一行"],
    "block": ["/* 多行\n注释\n结束 */"],
    "zhu": ["注：“第一行\n第二行”"],
    "mix": ["", "/* a\nb */", "// x"],
}


def handled_history(p):
    """insert before the main call: a call to G that handles its own exception, and a returned call"""
    g = func("G", ["X"], [mark("G-in"), ex(idx(lst(), num(1))), ret(num(0))], [catch("@exc", [mark("G-h"), ret(num(1))])])
    h = func("H", [], [ret(num(2))])
    p["funcs"] = p["funcs"] + [g, h]
    p["main"] = [disp(call("G", num(1))), disp(call("H"))] + p["main"]
    return p


def family(tier, rnd):
    P = []
    for depth in (0, 1, 2, 3):
        for rk in ("thr", "cust", "idx", "div", "undef"):
            for sw in ("plain", "inwhile", "initer", "inif"):
                for prek in PRE:
                    for eol in ("", "crlf", "cr"):
                        for hist in (False, True):
                            if tier == "quick" and rnd.random() > 0.22:
                                continue
                            hks = ["none"] * (depth + 1)
                            if depth >= 1 and rnd.random() < 0.3:
                                hks[rnd.randrange(depth + 1)] = "nomatch"
                            p = chain_prog(depth, rk, sw, hks, "ret", followups=False, pre=PRE[prek])
                            # a multi-line text literal earlier in the program
                            if rnd.random() < 0.5:
                                p["main"] = [decl("TXT", s("l1\nl2\nl3"))] + p["main"]
                            if hist:
                                handled_history(p)
                            p["eol"] = eol
                            p["tag"] += "/%s/%s/%s" % (prek, eol or "lf", "hist" if hist else "nohist")
                            P.append(p)
    # faults in expression positions, and faults raised INSIDE a handler block (rethrow / built-in fault): the report
    # ends at the handler's own line, below the frame whose call raised the handled exception
    for depth in (0, 1, 2):
        for rk in ("thr", "idx", "undef"):
            for sw in EXPR_SITES:
                if depth == 0 and sw == "ret-value": continue
                if tier == "quick" and rnd.random() > 0.5: continue
                p = chain_prog(depth, rk, sw, ["none"] * (depth + 1), "ret", followups=False, pre=PRE[rnd.choice(list(PRE))])
                p["eol"] = rnd.choice(["", "crlf", "cr"]); p["tag"] += "/expr-site/%s" % (p["eol"] or "lf")
                P.append(p)
    for depth in (1, 2, 3):
        for rk in ("thr", "idx", "cust"):
            for sw in ("plain", "initer"):
                for he in ("rethrow", "fault"):
                    for lvl in range(0, depth + 1):
                        if tier == "quick" and rnd.random() > 0.6: continue
                        hks = ["none"] * (depth + 1); hks[lvl] = "match"
                        p = chain_prog(depth, rk, sw, hks, he, followups=False, pre=PRE[rnd.choice(list(PRE))])
                        p["eol"] = rnd.choice(["", "crlf"]); p["tag"] += "/in-handler/%s" % (p["eol"] or "lf")
                        P.append(p)
    # the fault statement in every bare expression-statement form (a statement that is nothing but the faulting expression)
    K = cls("KF", [("p", num(1)), ("q", lst(num(1)))],
            methods=[func("m1", [], [mark("m1"), ex(this("nope")), mark("dead")]),
                     func("m2", [], [mark("m2"), ex(idx(this("q"), num(9))), mark("dead")]),
                     func("m3", ["X"], [mark("m3"), ex(mem(var("X"), "nope")), mark("dead")]),
                     func("m4", [], [mark("m4"), ex(mcall(this("@self"), "nomethod")), mark("dead")]),
                     func("m5", [], [mark("m5"), ex(mcall(this("@self"), "m1")), mark("dead")])])
    for mname, args in (("m1", []), ("m2", []), ("m3", [var("O")]), ("m4", []), ("m5", [])):
        for prek in ("none", "block", "mix"):
            p = prog([decl("O", new("KF")), mark("a"), ex(mcall(var("O"), mname, *args)), mark("dead")], classes=[K])
            if PRE[prek]: p["main"][2]["pre"] = PRE[prek]
            p["eol"] = rnd.choice(["", "crlf"]); p["tag"] = "bare-stmt/%s/%s/%s" % (mname, prek, p["eol"] or "lf")
            P.append(p)
    for tagx, st in (("member-of-var", ex(mem(var("V9"), "nope"))), ("index-of-var", ex(idx(var("V9"), num(7)))), ("bare-var", ex(var("NOPE"))),
                     ("bare-call", ex(call("nofunc"))), ("bare-bin", ex(bin_("div", var("V9"), num(0)))), ("bare-list", ex(lst(var("NOPE"))))):
        p = prog([decl("V9", lst(num(1))), mark("a"), st, mark("dead")]); p["main"][2]["pre"] = PRE["cmt"]
        p["tag"] = "bare-stmt/" + tagx; P.append(p)
    # ... and a statement that is nothing but an object creation: unknown type, faulting argument, fault inside the constructor (also one
    # call deeper, and with the creating statement inside a method)
    KC = cls("KC", [("p", num(1))], ctor=func("KC", ["A"], [mark("ctor"), ex(asg(this("p"), bin_("div", num(10), var("A")))), mark("ctor-ok")]))
    for tagx, st in (("new-unknown-type", lambda: ex(new("NoSuchType"))), ("new-faulting-argument", lambda: ex(new("KC", idx(var("V9"), num(7))))),
                     ("new-constructor-faults", lambda: ex(new("KC", num(0)))), ("new-wrong-arity", lambda: ex(new("KC", num(1), num(2))))):
        for prek in ("none", "cmt", "mix"):
            for inside in (False, True):
                body = [decl("V9", lst(num(1))), ex(new("KC", num(5))), mark("a"), st(), mark("dead")]
                if PRE[prek]: body[3]["pre"] = PRE[prek]
                p = prog(body, classes=[KC]) if not inside else prog([mark("s"), disp(call("mk")), mark("dead2")], classes=[KC], funcs=[func("mk", [], body + [ret(num(1))])])
                p["eol"] = rnd.choice(["", "crlf"]); p["tag"] = "bare-stmt/%s/%s/%s/%s" % (tagx, prek, "in-method" if inside else "top", p["eol"] or "lf")
                P.append(p)
    # across module files: the chain names, for every active call, the FILE (module) and the call-site line in that file
    LV = {1: [[1]], 2: [[0, 1], [1, 1], [1, 2]], 3: [[0, 1, 2], [1, 1, 2], [1, 2, 2], [0, 0, 1]]}
    for depth in (1, 2, 3):
        for levels in LV[depth]:
            for rk in ("thr", "idx", "div", "undef"):
                for sw in ("plain", "inwhile", "call-arg", "iter-target", "decl-rhs"):
                    for hist in (False, True):
                        if tier == "quick" and rnd.random() > 0.35: continue
                        hks = ["none"] * (depth + 1)
                        if rnd.random() < 0.3: hks[rnd.randrange(depth + 1)] = "nomatch"
                        p = chain_prog(depth, rk, sw, hks, "ret", followups=False, pre=PRE[rnd.choice(list(PRE))], levels=levels)
                        if hist: handled_history(p)
                        p["eol"] = rnd.choice(["", "crlf", "cr"])
                        p["tag"] += "/%s/%s" % (p["eol"] or "lf", "hist" if hist else "nohist")
                        P.append(p)
            # a fault raised inside a handler block of a method that lives in a module file
            for he in ("rethrow", "fault"):
                for lvl in range(1, depth + 1):
                    if tier == "quick" and rnd.random() > 0.5: continue
                    hks = ["none"] * (depth + 1); hks[lvl] = "match"
                    p = chain_prog(depth, "idx", "plain", hks, he, followups=False, levels=levels)
                    p["tag"] += "/in-handler"
                    P.append(p)
    return P


def run(ctx):
    znh = common.build_harness(ctx)
    rnd = random.Random(ctx.seed)
    progs = family(ctx.tier, rnd)
    log("[C18] %d runtime-fault programs" % len(progs))
    stats, vecs, res = run_family(ctx, znh, progs, "c18")
    # every program of this family ends in an uncaught error: check it was exercised
    if stats["errors"] < 0.9 * stats["programs"]:
        raise common.NoVerdict("family degenerate: only %d/%d programs end in an error" % (stats["errors"], stats["programs"]))
    # ---- syntax part
    txt, info = common.tlc(ctx, "ZnPos", "MC_ZnPos.cfg", timeout=600)
    pv = common.vectors(txt, "pos")
    if ctx.tier == "quick":
        pv = [v for v in pv if len(v["t"]) <= 5] + rnd.sample([v for v in pv if len(v["t"]) > 5], 4000)
    cases = [dict(id=i, t=v["t"], rep=(i + ctx.seed) % 12) for i, v in enumerate(pv)]
    sres = common.run_harness(ctx, znh, "synpos", cases, timeout=1500)
    nsyn = 0
    for r in sres:
        v = pv[r["id"]]
        nsyn += 1
        def rep(kind, what):
            common.report(ctx, "c18-syntax:%s" % kind, what, dict(classes=v["t"], source=r.get("src"), spec=dict(line=v["line"], col=v["col"]), real=r))
        if r["obs"] != "error" or r.get("errkind") != "syntax":
            rep("not-a-syntax-error:" + str(r["obs"]), "text with an invalid character / indentation gave %s %s" % (r["obs"], r.get("detail", "")))
            continue
        if r.get("line") != v["line"]:
            rep("line", "offending character on physical line %d, report says line %s" % (v["line"], r.get("line")))
        elif r.get("caret") != v["col"]:
            rep("marker", "marker offset %s, expected %d (line %d)" % (r.get("caret"), v["col"], v["line"]))
        else:
            parts = r["parts"]
            # quoted line = the characters of v["quoted"] in their concrete form
            idxs = None
            want = None
            # locate quoted subsequence by position: recompute from classes
            t = v["t"]; px = t.index("X") if "X" in t else t.index("S")
            a = px
            while a > 0 and t[a - 1] not in ("LF", "CR"): a -= 1
            while t[a] == "S": a += 1          # an indentation error quotes the line without its indentation
            z = px
            while z + 1 < len(t) and t[z + 1] not in ("LF", "CR"): z += 1
            if t[a:z + 1] == v["quoted"]:
                want = "".join(parts[a:z + 1])
                if r.get("quoted") != want:
                    rep("quoted-line", "quoted line %r, source line is %r" % (r.get("quoted"), want))
    pick = [p for p in progs if "/block/" in p["tag"] and p["tag"].startswith("d2")][:1] + progs[:1]
    samples = [dict(tag=p["tag"], source=res[p["id"]].get("src"), spec_fault=vecs[p["id"]]["res"],
                    real_chain=res[p["id"]].get("chain")) for p in pick] + [dict(syntax_vector=pv[0])]
    # ---- faults raised while a module is being IMPORTED (module level: ZnModuleFault, shared with C15): the report names the faulting line,
    # then every module that waits in one of its import statements with that statement's line, the main file last
    import c15
    nimp = len(c15.import_fault_family(ctx, znh, rnd))
    cov = dict(traces_validated_against_impl=stats["programs"] - stats["skipped"] + nsyn, samples=samples,
               evaluations=stats["programs"] + nsyn, distinct_nontrivial=len(set(p["tag"] for p in progs)) + len(pv),
               rule="IMPORT-TIME FAULTS (ZnModuleFault, shared with C15): 1500 (2517) runs in which the body of a module faults while it is being imported - the report = the faulting line + the load stack with the line of every waiting import statement. runtime: fault kind {抛出, custom class, index, division by zero, undefined name} x call depth 0..3 x statement context x "
                    "layout material before the fault {blank lines, // comment, /* */ block, 注：“…” block, mixture} x line ends {LF, CRLF, CR} x "
                    "history {none, an earlier handled exception + returned call}; the same with the call chain crossing one or two module-file boundaries (every chain entry compared as (file, line)) (quick: seeded 22%% sample of the matrix); expected fault line and "
                    "call chain = the ZnEval machine's frames at the fault. syntax: all texts <= 7 over {narrow, wide, LF, CR, bad} with one bad "
                    "character: reported line, marker offset (display widths) and quoted line must equal ZnPos's", runtime=stats, syntax_vectors=len(pv))
    return cov, ["message wording not compared", "chain order: outermost call first, as the report prints it",
                 "display width table: ASCII/Latin 1, CJK/kana/hangul 2 (the representatives used)"]
