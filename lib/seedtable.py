"""prints the markdown table of DESIGN.md section 13 from seeded/*/meta.json and seeded/RESULTS.json"""
import json, os
V = os.path.dirname(os.path.dirname(os.path.abspath(__file__)))
SHORT = {
    "C01": "`%` computed with `math.Mod` + sign fix-up (differs for 1 % 0.1, huge operands, infinite divisor)",
    "C01-2": "`>=` / `<=` as negation of `<` / `>` (true with a NaN operand)",
    "C02": "输出 inside a 遍历 over a DICTIONARY no longer ends the loop",
    "C02-2": "non-boolean 再如 condition silently treated as 假",
    "C03": "a 如果 also takes a 再如/否则 written at a shallower indentation",
    "C03-2": "`A/=1` (no blank before `/=`) no longer lexes",
    "C04": "`*10^` literals computed as mantissa * 10^exp (two roundings)",
    "C04-2": "`IdInRange` fast path accepts U+9FFD..U+9FFF",
    "C05": "lexer loops forever on VT / FF outside literals",
    "C05-2": "error printer panics on mixed SP/TAB indentation errors",
    "C06": "a call whose input binding fails leaves its scope open (when the caller handles the error)",
    "C06-2": "name lookup prefers module-level methods/types over inner declarations",
    "C07": "copy of a dictionary shares the key-order slice",
    "C07-2": "`令L = 【A，3】` does not copy A into the literal",
    "C08": "scalar default properties shared between instances (visible through 自增)",
    "C08-2": "wrong-arity call swallowed by the CALLEE's own handler",
    "C09": "a raise in the 遍历 target expression ends one scope too many",
    "C09-2": "a handler that itself fails leaves its frame on the stack",
    "C10": "`ValidateExactParams` stops checking after an `any` position (新增 with a non-number index panics)",
    "C10-2": "input-variable text without any statement: nil dereference",
    "C11": "dictionary literal repeating a key: key order from Go map iteration",
    "C11-2": "request header / query dictionaries sorted case-insensitively (ties in map order)",
    "C12": "合并 returns a list sharing the receiver's spare capacity",
    "C12-2": "dictionary literal repeating a key keeps the FIRST value",
    "C13": "`` `C“` `` (escape-name prefix + quote + back-tick) taken as a wrapped quote",
    "C13-2": "`U+` escapes limited to 6 hex digits (zero-padded 7-8 digit forms kept literally)",
    "C14": "template without a complete placeholder returned unchanged (count / malformed errors skipped)",
    "C14-2": "cached character array of a text not invalidated by 转换数值",
    "C15": "cycle check pre-colours modules settled by an earlier check (cycle closed later not reported)",
    "C15-2": "handler block of an imported method cannot see its own module's names",
    "C16": "response constructor hands out one process-wide default header dictionary",
    "C16-2": "`ParseLibName` memoised + in-place edit: second FILE execution cannot find the module",
    "C17": "BOM stripped at the start of EVERY read block when the file has no leading BOM",
    "C17-2": "3 pending bytes of a 4-byte character at a block end rejected",
    "C18": "fault raised directly in a handler block: handler frame and line missing from the report",
    "C18-2": "CR+LF inside a text literal counted as two line breaks",
    "C19": "dictionary keys written with Go quoting (`\\x01`, `\\v`, `\\U000e0001`)",
    "C19-2": "trailing `}` / `]` after the document accepted",
    "C20": "a STOPPED report frees the slot AND the reaping does: refCount under-counts",
    "C20-2": "refill decision uses registered children instead of registered + reserved",
}
SHORT.update({
    "C01-3": "parser: after the first `-` of an additive chain every later `+` becomes a subtraction",
    "C01-4": "`*^` exponent mark replaced by nothing when the literal is converted (125*^12 = 12512)",
    "C02-3": "输出 in a branch/loop that is the LAST statement of a body yields 空 instead of its value",
    "C02-4": "list index of 遍历 not advanced on a pass that ends with 继续循环",
    "C03-3": "statement line break detected from token START lines: a multi-line text followed by more tokens is rejected",
    "C03-4": "`* / | %` parsed right-associatively",
    "C04-3": "keyword 以 no longer cut out when it directly follows a name character",
    "C04-4": "number DFA: state after E/e merged with the state after `*^` (3e8 accepted)",
    "C05-3": "a lexer error in the look-ahead after a comment is swallowed: truncated tree, no error",
    "C05-4": "input-variable / expression text without statements: nil dereference (lost guard)",
    "C06-3": "scope lookup cache not invalidated by a declaration (shadowing broken right after a read)",
    "C06-4": "令： block: a 恒为 line after a = line is declared mutable",
    "C07-3": "multi-name declaration copies the value once for all names",
    "C07-4": "`X = <call>` skips the copy (后增 / 读取 results share storage)",
    "C08-3": "every call of a chain 以X（a）、（b） runs on the chain's root",
    "C08-4": "得到 name of a method call updated if it exists (outer variable overwritten) - rebased, see meta.json",
    "C09-3": "an exception reaching a 每当 loop is treated like 结束循环",
    "C09-4": "a handler without 输出 yields the value of its last statement instead of 空",
    "C10-3": "literal with a repeated key keeps the key twice in the order list: 移除 panics",
    "C10-4": "遍历 over a list: round count fixed, items read live - shrinking the list in the body panics",
    "C11-3": "second import of a library in one run fails with the name Go's map iteration yields first",
    "C11-4": "包含/寻找 on dictionaries: single pass over the Go map (error or 假 depending on order)",
    "C12-3": "移除 fills the hole with the LAST key (swap-remove): insertion order lost",
    "C12-4": "逆序 leaves the innermost pair of an even-length list unswapped",
    "C13-3": "consecutive line breaks inside a text literal collapse to the first",
    "C13-4": "BOM check stays armed for later read blocks (U+FEFF at a 4096 boundary inside a literal dropped)",
    "C14-3": "取样 ends its byte range one BYTE after the start of the last character",
    "C14-4": "{#} of whole numbers printed as integers (6-significant-digit rule lost, -0 loses its sign)",
    "C15-3": "a library imported by two modules of one program: redeclaration error",
    "C15-4": "a file consisting of import statements only has its imports skipped",
    "C16-3": "constructor guard loosened: 如何新建‹library type›？ accepted again",
    "C16-4": "`Fork()` returns the receiver when no program is loaded yet (two requests share one interpreter)",
    "C17-3": "ASCII fast path accepts the byte 0x80",
    "C17-4": "`ReadAll` reads the file as one block: an incomplete last character is silently dropped",
    "C18-3": "statement line taken with a forward-only line hint: multi-line statements get the line of their last token",
    "C18-4": "marker column computed on bytes instead of characters",
    "C19-3": "integral doubles written through int64 (>= 2^63 and ±Inf become -9223372036854775808)",
    "C19-4": "encoder buffer from a pool, reset only on success: the text after a refused generation starts with leftovers",
    "C20-3": "the two spawn goroutines share one batch-size variable",
    "C20-4": "one timer per worker, armed at start-up: the first request after a long idle period is timed out at once",
})
SHORT.update({
    "C01-5": "且 / 或 return the right operand without checking that it is a boolean",
    "C01-6": "zero-divisor guard of `/` and `|` replaced by a non-finite-quotient check (1e308 / 1e-300 is an error, x / 0 of NaN is not)",
    "C02-5": "indentation check of 再如/否则 removed: the arm binds to the innermost 如果",
    "C02-6": "每当 condition evaluated once more after a 输出 in the body",
    "C03-5": "CR admitted as white space: CR-only line ends are lost",
    "C03-6": "a block that consists of an 输入 line only is accepted (empty body)",
    "C04-5": "`%` terminates an identifier",
    "C04-6": "operator follow-set test replaced by 'not an identifier character' (operators at end of text, before punctuation)",
    "C05-5": "`Lexer.Next` no longer clamped: cursor = length + 1 after an unterminated escape",
    "C05-6": "error printer cuts the quoted line at VT / FF / U+0085 / U+2028 / U+2029",
    "C06-5": "a block opens a scope only if it contains a 令: 得到 names leak out",
    "C06-6": "redeclaration check from the block start, not restored after a nested block",
    "C07-5": "two-name loop variable (key, value) not copied",
    "C07-6": "constant list literals memoised on their syntax node",
    "C08-5": "a method calling a method of its own object (以此) runs it in the caller's frame: its 输出 ends the caller",
    "C08-6": "新建 without arguments skips the constructor (and its arity check)",
    "C09-5": "built-in faults that cross a call boundary are no longer catchable",
    "C09-6": "a custom exception leaving a method becomes the built-in 异常",
    "C10-5": "读取 returns a nil element for an absent last key",
    "C10-6": "交换 with a NaN index panics",
    "C11-5": "JSON objects inside arrays decoded through Go maps: key order from map iteration",
    "C11-6": "type labels in an error message listed in map iteration order",
    "C12-5": "包含 misses the first element",
    "C12-6": "所有索引 cached, stale after 移除",
    "C13-5": "two adjacent back-ticks: the second one re-opens an escape",
    "C13-6": "quotes matched by pair class: “ closes at 」",
    "C14-5": "长度 / 字数 skip combining marks",
    "C14-6": "digits after E / % in a directive accepted",
    "C15-5": "program-level scope: the names a module imported are popped when its body has run",
    "C15-6": "`ParseLibName` memoised: the second run cannot find the module",
    "C16-5": "input-variable texts evaluated with the process-wide predefined values",
    "C16-6": "取随机数 uses one unsynchronised random source (data race)",
    "C17-5": "LoadFile reads through ByteStream: leading BOM not removed",
    "C17-6": "valid U+FFFD (EF BF BD) rejected",
    "C18-5": "indentation errors are reported for the previous line",
    "C18-6": "a handler that ends with 输出 leaves its frame: later reports show stale frames",
    "C19-5": "empty containers generated as `]` / `}`",
    "C19-6": "JSON syntax errors of 解析JSON are not catchable",
    "C20-5": "`:=` shadows the clamped worker maximum",
    "C20-6": "the master's keep-alive pipe end is closed early: the master exits with its last worker",
})
FIRST = {  # own check, first round (before strengthening): rc as observed on 2026-09-23
    "C01": 0, "C01-2": 0, "C02": 1, "C02-2": 0, "C03": 0, "C03-2": 0, "C04": 1, "C04-2": 2, "C05": 0, "C05-2": 1, "C06": 0, "C06-2": 0, "C07": 1, "C07-2": 0,
    "C08": 0, "C08-2": 0, "C09": 0, "C09-2": 1, "C10": 1, "C10-2": 0, "C11": 2, "C11-2": 0, "C12": 0, "C12-2": 0, "C13": 0, "C13-2": 0, "C14": 1, "C14-2": 0,
    "C15": 1, "C15-2": 0, "C16": 0, "C16-2": 0, "C17": 1, "C17-2": 1, "C18": 0, "C18-2": 1, "C19": 0, "C19-2": 1, "C20": 1, "C20-2": 1,
}
w2 = json.load(open(os.path.join(V, "seeded", "wave2_first_pass.json")))
for k, v in w2.items():
    FIRST[k] = list(v.values())[0]
w3p = os.path.join(V, "seeded", "wave3_first_pass.json")
if os.path.exists(w3p):
    for k, v in json.load(open(w3p)).items():
        FIRST[k] = list(v.values())[0]
res = json.load(open(os.path.join(V, "seeded", "RESULTS.json")))
word = {0: "missed", 1: "caught", 2: "no verdict"}
print("| seed | change (file) | first round | now | first signature of the deciding check |")
print("|---|---|---|---|---|")
for sid in sorted(SHORT):
    m = json.load(open(os.path.join(V, "seeded", sid, "meta.json")))
    own = res.get(sid, {}).get("quick", {}).get(m["property"], {})
    sig = (own.get("signatures") or [""])[0]
    sig = sig.split(" (")[0] if len(sig) < 150 else sig[:140] + "…"
    sig = sig.replace("|", "\\|").replace("\n", " ")
    files = ", ".join(os.path.basename(f) for f in (m.get("files_changed") or []))
    print("| %s | %s (%s) | %s | %s | `%s` |" % (sid, SHORT[sid], files, word[FIRST[sid]], word.get(own.get("rc"), "?"), sig))
